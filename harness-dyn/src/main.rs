//! vdyn — stage 2 of C17: the concrete value and every erased flavour
//! (5 traits x 7 pointer kinds x 4 auto-trait sets x 2 error types) run from
//! cloned word-counting generators on generated cases.  Lives outside the main
//! harness so that a missing flavour cannot break the other properties' checks.

use std::cell::{Ref, RefCell, RefMut};
use std::collections::BTreeMap;
use std::convert::Infallible;
use std::error::Error as StdError;
use std::rc::Rc;
use std::sync::Arc;

use ec_core::child_maker::{ChildMaker, DynChildMaker};
use ec_core::operator::identity::Identity;
use ec_core::operator::mutator::{DynMutator, Mutate, Mutator};
use ec_core::operator::recombinator::{DynRecombinator, Recombinator};
use ec_core::operator::selector::{DynSelector, Selector};
use ec_core::operator::{Composable, DynOperator, Operator};
use ec_core::test_results::Score;
use ec_linear::mutator::with_one_over_length::{GenomeSizeConversionError, WithOneOverLength};
use ec_linear::mutator::with_rate::WithRate;
use ec_linear::recombinator::errors::DifferentGenomeLength;
use ec_linear::recombinator::two_point_xo::TwoPointXo;
use ec_linear::recombinator::uniform_xo::UniformXo;
use proptest::prelude::*;
use rand::Rng;
use serde::{Deserialize, Serialize};
use serde_json::json;
use vh::props::c06::{population, results_strategy, spec_strategy};
use vh::props::c14::ProbeFail;
use vh::rngs::Counting;
use vh::selharness::{build, Ind, Pop, Sel, Spec, E as SelErr};
use vh::{guarded, Ctx, Fail, Probe, Tier};

type R = Score<i64>;
type PopS = Pop<R>;
type BoxErr = Box<dyn StdError + Send + Sync>;

trait ErrView {
    fn text(&self) -> String;
    /// for the boxed form: the box still holds the original error type
    fn original(&self) -> bool;
}
impl ErrView for BoxErr {
    fn text(&self) -> String {
        self.to_string()
    }
    fn original(&self) -> bool {
        self.is::<SelErr>() || self.is::<ProbeFail>() || self.is::<DifferentGenomeLength>() || self.is::<GenomeSizeConversionError>() || self.is::<Infallible>() || self.is::<CmErr>()
    }
}
macro_rules! concrete_err {
    ($($t:ty),*) => {$(
        impl ErrView for $t {
            fn text(&self) -> String { self.to_string() }
            fn original(&self) -> bool { true }
        }
    )*};
}
concrete_err!(SelErr, ProbeFail, DifferentGenomeLength, GenomeSizeConversionError, Infallible, CmErr);

thread_local! {
    static FLAVOURS: RefCell<BTreeMap<String, u64>> = const { RefCell::new(BTreeMap::new()) };
}
fn note(name: &str) {
    FLAVOURS.with(|f| *f.borrow_mut().entry(name.to_string()).or_default() += 1);
}

fn compare<T: PartialEq + std::fmt::Debug, E2: ErrView>(
    trait_name: &str,
    flavour: &str,
    concrete: Result<T, String>,
    erased: Result<T, E2>,
    f1: vh::rngs::Fp,
    f2: vh::rngs::Fp,
) -> Result<(), Fail> {
    note(flavour);
    match (&concrete, &erased) {
        (Ok(a), Ok(b)) => {
            if a != b {
                return Err(Fail::new(format!("{trait_name}/erased-result-differs"), format!("{flavour}: concrete returned {a:?}, erased returned {b:?}")));
            }
        }
        (Err(a), Err(b)) => {
            if *a != b.text() {
                return Err(Fail::new(format!("{trait_name}/erased-error-differs"), format!("{flavour}: concrete error {a:?}, erased error {:?}", b.text())));
            }
            if !b.original() {
                return Err(Fail::new(format!("{trait_name}/erased-error-not-the-original"), format!("{flavour}: the erased error {:?} is not the original error converted into the erased error type", b.text())));
            }
        }
        (Ok(a), Err(b)) => return Err(Fail::new(format!("{trait_name}/erased-outcome-differs"), format!("{flavour}: concrete Ok({a:?}) but erased Err({})", b.text()))),
        (Err(a), Ok(b)) => return Err(Fail::new(format!("{trait_name}/erased-outcome-differs"), format!("{flavour}: concrete Err({a}) but erased Ok({b:?})"))),
    }
    if f1 != f2 {
        return Err(Fail::new(
            format!("{trait_name}/erased-random-stream-differs"),
            format!("{flavour}: the concrete call left the generator at {f1:?}, the erased call at {f2:?} (words drawn, next word, hash of the sequence of next_u32 / next_u64 / fill_bytes(len) calls)"),
        ));
    }
    Ok(())
}

/// expands to one block per pointer kind for a given dyn type
macro_rules! pointers {
    ($Dy:ty, $mk:expr, $test:ident, $env:expr, $tname:literal, $aname:literal, $ename:literal) => {{
        let name = |p: &str| format!("{}<dyn Dyn{}{}> [{} error]", p, $tname, $aname, $ename);
        {
            let v = $mk;
            let e: &$Dy = &v;
            $test(&e, &name("&"), $env)?;
        }
        {
            let mut v = $mk;
            let e: &mut $Dy = &mut v;
            $test(&e, &name("&mut"), $env)?;
        }
        {
            let e: Box<$Dy> = Box::new($mk);
            $test(&e, &name("Box"), $env)?;
        }
        {
            let e: Rc<$Dy> = Rc::new($mk);
            $test(&e, &name("Rc"), $env)?;
        }
        {
            let e: Arc<$Dy> = Arc::new($mk);
            $test(&e, &name("Arc"), $env)?;
        }
        {
            let c = RefCell::new($mk);
            let e: Ref<'_, $Dy> = Ref::map(c.borrow(), |x| {
                let y: &$Dy = x;
                y
            });
            $test(&e, &name("Ref"), $env)?;
        }
        {
            let c = RefCell::new($mk);
            let e: RefMut<'_, $Dy> = RefMut::map(c.borrow_mut(), |x| {
                let y: &mut $Dy = x;
                y
            });
            $test(&e, &name("RefMut"), $env)?;
        }
    }};
}

/// all auto-trait sets for one error type; `$D` is a macro mapping (error type ; auto traits) to the dyn type
macro_rules! autos {
    ($D:ident, $E:ty, $mk:expr, $test:ident, $env:expr, $tname:literal, $ename:literal) => {{
        pointers!($D!($E;), $mk, $test, $env, $tname, "", $ename);
        pointers!($D!($E; Send), $mk, $test, $env, $tname, " + Send", $ename);
        pointers!($D!($E; Sync), $mk, $test, $env, $tname, " + Sync", $ename);
        pointers!($D!($E; Send + Sync), $mk, $test, $env, $tname, " + Send + Sync", $ename);
    }};
}

macro_rules! both_errors {
    ($D:ident, $CE:ty, $mk:expr, $test:ident, $env:expr, $tname:literal) => {{
        autos!($D, BoxErr, $mk, $test, $env, $tname, "boxed");
        autos!($D, $CE, $mk, $test, $env, $tname, "concrete");
    }};
}

macro_rules! dyn_sel {
    ($e:ty;) => { (dyn DynSelector<PopS, $e>) };
    ($e:ty; $($a:tt)+) => { (dyn DynSelector<PopS, $e> + $($a)+) };
}
macro_rules! dyn_mut {
    ($e:ty;) => { (dyn DynMutator<Vec<bool>, $e>) };
    ($e:ty; $($a:tt)+) => { (dyn DynMutator<Vec<bool>, $e> + $($a)+) };
}
macro_rules! dyn_rec {
    ($e:ty;) => { (dyn DynRecombinator<[Vec<bool>; 2], $e, Output = Vec<bool>>) };
    ($e:ty; $($a:tt)+) => { (dyn DynRecombinator<[Vec<bool>; 2], $e, Output = Vec<bool>> + $($a)+) };
}
macro_rules! dyn_op {
    ($e:ty;) => { (dyn DynOperator<Vec<bool>, $e, Output = Vec<bool>>) };
    ($e:ty; $($a:tt)+) => { (dyn DynOperator<Vec<bool>, $e, Output = Vec<bool>> + $($a)+) };
}
macro_rules! dyn_cm {
    ($e:ty;) => { (dyn DynChildMaker<PopS, Sel<R>, $e>) };
    ($e:ty; $($a:tt)+) => { (dyn DynChildMaker<PopS, Sel<R>, $e> + $($a)+) };
}

// ---------------------------------------------------------------- selectors

#[derive(Clone, Debug, Serialize, Deserialize)]
struct SelCase {
    results: Vec<Vec<i64>>,
    spec: Spec,
    seed: u64,
    /// entry point the probe selector draws through (`draw_mix`); it fails when style % 7 == 6
    #[serde(default)]
    style: u8,
}

/// a selector that draws through a chosen generator entry point and picks by what it drew
struct DrawSel {
    style: u8,
}
impl Selector<PopS> for DrawSel {
    type Error = ProbeFail;
    fn select<'pop, G: Rng + ?Sized>(&self, pop: &'pop PopS, rng: &mut G) -> Result<&'pop Ind<R>, ProbeFail> {
        let w = vh::rngs::draw_mix(rng, self.style);
        if self.style % 7 == 6 || pop.is_empty() {
            return Err(ProbeFail(3));
        }
        Ok(&pop[(w % pop.len() as u64) as usize])
    }
}
struct DrawSelEnv<'a> {
    pop: &'a PopS,
    style: u8,
    seed: u64,
}
fn t_sel_probe<S2>(erased: &S2, flavour: &str, env: &DrawSelEnv<'_>) -> Result<(), Fail>
where
    S2: Selector<PopS>,
    S2::Error: ErrView,
{
    let (mut r1, mut r2) = (Counting::new(env.seed), Counting::new(env.seed));
    let Ok(a) = guarded(|| DrawSel { style: env.style }.select(env.pop, &mut r1).map(|i| std::ptr::from_ref::<Ind<R>>(i)).map_err(|e| e.to_string())) else { return Ok(()) };
    let b = match guarded(|| erased.select(env.pop, &mut r2).map(|i| std::ptr::from_ref::<Ind<R>>(i))) { Ok(b) => b, Err(p) => return Err(Fail::new("Selector/erased-form-panics", format!("{flavour}: the concrete call returned {a:?} but the erased form panicked: {p}"))) };
    compare("Selector", flavour, a, b, r1.fingerprint(), r2.fingerprint())
}
struct SelEnv<'a> {
    pop: &'a PopS,
    concrete: &'a Sel<R>,
    seed: u64,
}
fn t_sel<S2>(erased: &S2, flavour: &str, env: &SelEnv<'_>) -> Result<(), Fail>
where
    S2: Selector<PopS>,
    S2::Error: ErrView,
{
    let (mut r1, mut r2) = (Counting::new(env.seed), Counting::new(env.seed));
    let Ok(a) = guarded(|| env.concrete.select(env.pop, &mut r1).map(|i| std::ptr::from_ref::<Ind<R>>(i)).map_err(|e| e.to_string())) else { return Ok(()) }; // a panicking concrete implementation is not this property's business
    let b = match guarded(|| erased.select(env.pop, &mut r2).map(|i| std::ptr::from_ref::<Ind<R>>(i))) { Ok(b) => b, Err(p) => return Err(Fail::new("Selector/erased-form-panics", format!("{flavour}: the concrete call returned {a:?} but the erased form panicked: {p}"))) };
    compare("Selector", flavour, a, b, r1.fingerprint(), r2.fingerprint())
}
fn sel_oracle(c: &SelCase, probe: &mut Probe) -> Result<(), Fail> {
    let pop = population::<R>(&c.results, |r| Score(r.iter().sum()));
    let Ok(concrete) = build::<R>(&c.spec) else { return Ok(()) };
    let env = SelEnv {
        pop: &pop,
        concrete: &concrete,
        seed: c.seed,
    };
    let mk = || build::<R>(&c.spec).unwrap_or(Sel::Best);
    both_errors!(dyn_sel, SelErr, mk(), t_sel, &env, "Selector");
    {
        let env = DrawSelEnv { pop: &pop, style: c.style, seed: c.seed };
        both_errors!(dyn_sel, ProbeFail, DrawSel { style: c.style }, t_sel_probe, &env, "Selector");
    }
    let mut r = Counting::new(c.seed);
    let _ = guarded(|| concrete.select(&pop, &mut r).is_ok());
    probe.nontrivial = r.words > 0;
    Ok(())
}

// ---------------------------------------------------------------- mutators

struct ProbeMut {
    fail: bool,
    style: u8,
}
impl Mutator<Vec<bool>> for ProbeMut {
    type Error = ProbeFail;
    fn mutate<G: Rng + ?Sized>(&self, mut g: Vec<bool>, rng: &mut G) -> Result<Vec<bool>, ProbeFail> {
        let w = vh::rngs::draw_mix(rng, self.style);
        g.push(w & 1 == 1);
        g.push(w.count_ones() % 2 == 1);
        if self.fail {
            Err(ProbeFail(1))
        } else {
            Ok(g)
        }
    }
}

/// A mutator whose implementation itself uses an erased mutator, handing it a generator of its own
/// (forked from the one it was given): erased calls nest, and each level must use the generator *it* was
/// handed.
struct NestedMut {
    inner: Box<dyn DynMutator<Vec<bool>, ProbeFail> + Send + Sync>,
    fork: bool,
}
impl Mutator<Vec<bool>> for NestedMut {
    type Error = ProbeFail;
    fn mutate<G: Rng + ?Sized>(&self, g: Vec<bool>, rng: &mut G) -> Result<Vec<bool>, ProbeFail> {
        if self.fork {
            use rand::SeedableRng;
            let mut child = rand::rngs::StdRng::seed_from_u64(rng.next_u64());
            let out = self.inner.mutate(g, &mut child)?;
            // the parent generator is used again after the nested call
            let mut out = out;
            out.push(rng.next_u32() & 1 == 1);
            Ok(out)
        } else {
            self.inner.mutate(g, rng)
        }
    }
}

#[derive(Clone, Debug, Serialize, Deserialize)]
struct GenomeCase {
    genome: Vec<bool>,
    other: Vec<bool>,
    rate: f32,
    fail: bool,
    seed: u64,
    /// which generator entry point the probe implementations draw through (`draw_mix`)
    #[serde(default)]
    style: u8,
}
struct MutEnv<'a, M> {
    concrete: &'a M,
    c: &'a GenomeCase,
}
fn t_mut<M, S2>(erased: &S2, flavour: &str, env: &MutEnv<'_, M>) -> Result<(), Fail>
where
    M: Mutator<Vec<bool>>,
    M::Error: std::fmt::Display,
    S2: Mutator<Vec<bool>>,
    S2::Error: ErrView,
{
    let (mut r1, mut r2) = (Counting::new(env.c.seed), Counting::new(env.c.seed));
    let Ok(a) = guarded(|| env.concrete.mutate(env.c.genome.clone(), &mut r1).map_err(|e| e.to_string())) else { return Ok(()) }; // a panicking concrete implementation is not this property's business
    let b = match guarded(|| erased.mutate(env.c.genome.clone(), &mut r2)) { Ok(b) => b, Err(p) => return Err(Fail::new("Mutator/erased-form-panics", format!("{flavour}: the concrete call returned {a:?} but the erased form panicked: {p}"))) };
    compare("Mutator", flavour, a, b, r1.fingerprint(), r2.fingerprint())
}

// ---------------------------------------------------------------- zero-sized genomes

/// A genome type without any data (a unit struct): whatever the operator does with it, the generator it was
/// handed and the error it returns are still observable.
#[derive(Clone, Debug, PartialEq, Eq)]
struct Unit;

struct ZMut {
    fail: bool,
    style: u8,
}
impl Mutator<Unit> for ZMut {
    type Error = ProbeFail;
    fn mutate<G: Rng + ?Sized>(&self, g: Unit, rng: &mut G) -> Result<Unit, ProbeFail> {
        let _ = vh::rngs::draw_mix(rng, self.style);
        if self.fail {
            Err(ProbeFail(3))
        } else {
            Ok(g)
        }
    }
}
struct ZRec {
    fail: bool,
    style: u8,
}
impl Recombinator<[Unit; 2]> for ZRec {
    type Output = Unit;
    type Error = ProbeFail;
    fn recombine<G: Rng + ?Sized>(&self, [a, _]: [Unit; 2], rng: &mut G) -> Result<Unit, ProbeFail> {
        let _ = vh::rngs::draw_mix(rng, self.style.wrapping_add(3));
        if self.fail {
            Err(ProbeFail(4))
        } else {
            Ok(a)
        }
    }
}
macro_rules! dyn_mut_z {
    ($e:ty;) => { (dyn DynMutator<Unit, $e>) };
    ($e:ty; $($a:tt)+) => { (dyn DynMutator<Unit, $e> + $($a)+) };
}
macro_rules! dyn_rec_z {
    ($e:ty;) => { (dyn DynRecombinator<[Unit; 2], $e, Output = Unit>) };
    ($e:ty; $($a:tt)+) => { (dyn DynRecombinator<[Unit; 2], $e, Output = Unit> + $($a)+) };
}
macro_rules! dyn_op_z {
    ($e:ty;) => { (dyn DynOperator<Unit, $e, Output = Unit>) };
    ($e:ty; $($a:tt)+) => { (dyn DynOperator<Unit, $e, Output = Unit> + $($a)+) };
}
fn t_mut_z<M, S2>(erased: &S2, flavour: &str, env: &MutEnv<'_, M>) -> Result<(), Fail>
where
    M: Mutator<Unit>,
    M::Error: std::fmt::Display,
    S2: Mutator<Unit>,
    S2::Error: ErrView,
{
    let (mut r1, mut r2) = (Counting::new(env.c.seed), Counting::new(env.c.seed));
    let Ok(a) = guarded(|| env.concrete.mutate(Unit, &mut r1).map_err(|e| e.to_string())) else { return Ok(()) };
    let b = match guarded(|| erased.mutate(Unit, &mut r2)) { Ok(b) => b, Err(p) => return Err(Fail::new("Mutator/erased-form-panics", format!("{flavour} (zero-sized genome): the concrete call returned {a:?} but the erased form panicked: {p}"))) };
    compare("Mutator", &format!("{flavour} (zero-sized genome)"), a, b, r1.fingerprint(), r2.fingerprint())
}
fn t_rec_z<M, S2>(erased: &S2, flavour: &str, env: &MutEnv<'_, M>) -> Result<(), Fail>
where
    M: Recombinator<[Unit; 2], Output = Unit>,
    M::Error: std::fmt::Display,
    S2: Recombinator<[Unit; 2], Output = Unit>,
    S2::Error: ErrView,
{
    let (mut r1, mut r2) = (Counting::new(env.c.seed), Counting::new(env.c.seed));
    let Ok(a) = guarded(|| env.concrete.recombine([Unit, Unit], &mut r1).map_err(|e| e.to_string())) else { return Ok(()) };
    let b = match guarded(|| erased.recombine([Unit, Unit], &mut r2)) { Ok(b) => b, Err(p) => return Err(Fail::new("Recombinator/erased-form-panics", format!("{flavour} (zero-sized genome): the concrete call returned {a:?} but the erased form panicked: {p}"))) };
    compare("Recombinator", &format!("{flavour} (zero-sized genome)"), a, b, r1.fingerprint(), r2.fingerprint())
}
fn t_op_z<M, S2>(erased: &S2, flavour: &str, env: &MutEnv<'_, M>) -> Result<(), Fail>
where
    M: Operator<Unit, Output = Unit>,
    M::Error: std::fmt::Display,
    S2: Operator<Unit, Output = Unit>,
    S2::Error: ErrView,
{
    let (mut r1, mut r2) = (Counting::new(env.c.seed), Counting::new(env.c.seed));
    let Ok(a) = guarded(|| env.concrete.apply(Unit, &mut r1).map_err(|e| e.to_string())) else { return Ok(()) };
    let b = match guarded(|| erased.apply(Unit, &mut r2)) { Ok(b) => b, Err(p) => return Err(Fail::new("Operator/erased-form-panics", format!("{flavour} (zero-sized genome): the concrete call returned {a:?} but the erased form panicked: {p}"))) };
    compare("Operator", &format!("{flavour} (zero-sized genome)"), a, b, r1.fingerprint(), r2.fingerprint())
}

// ---------------------------------------------------------------- recombinators

struct ProbeRec {
    fail: bool,
    style: u8,
}
impl Recombinator<[Vec<bool>; 2]> for ProbeRec {
    type Output = Vec<bool>;
    type Error = ProbeFail;
    fn recombine<G: Rng + ?Sized>(&self, [mut a, b]: [Vec<bool>; 2], rng: &mut G) -> Result<Vec<bool>, ProbeFail> {
        a.extend(b);
        let w = vh::rngs::draw_mix(rng, self.style.wrapping_add(7));
        a.push(w & 1 == 1);
        a.push(w.count_ones() % 2 == 1);
        if self.fail {
            Err(ProbeFail(2))
        } else {
            Ok(a)
        }
    }
}
fn t_rec<M, S2>(erased: &S2, flavour: &str, env: &MutEnv<'_, M>) -> Result<(), Fail>
where
    M: Recombinator<[Vec<bool>; 2], Output = Vec<bool>>,
    M::Error: std::fmt::Display,
    S2: Recombinator<[Vec<bool>; 2], Output = Vec<bool>>,
    S2::Error: ErrView,
{
    let (mut r1, mut r2) = (Counting::new(env.c.seed), Counting::new(env.c.seed));
    let Ok(a) = guarded(|| env.concrete.recombine([env.c.genome.clone(), env.c.other.clone()], &mut r1).map_err(|e| e.to_string())) else { return Ok(()) }; // a panicking concrete implementation is not this property's business
    let b = match guarded(|| erased.recombine([env.c.genome.clone(), env.c.other.clone()], &mut r2)) { Ok(b) => b, Err(p) => return Err(Fail::new("Recombinator/erased-form-panics", format!("{flavour}: the concrete call returned {a:?} but the erased form panicked: {p}"))) };
    compare("Recombinator", flavour, a, b, r1.fingerprint(), r2.fingerprint())
}

// ---------------------------------------------------------------- operators

fn t_op<M, S2>(erased: &S2, flavour: &str, env: &MutEnv<'_, M>) -> Result<(), Fail>
where
    M: Operator<Vec<bool>, Output = Vec<bool>>,
    M::Error: std::fmt::Display,
    S2: Operator<Vec<bool>, Output = Vec<bool>>,
    S2::Error: ErrView,
{
    let (mut r1, mut r2) = (Counting::new(env.c.seed), Counting::new(env.c.seed));
    let Ok(a) = guarded(|| env.concrete.apply(env.c.genome.clone(), &mut r1).map_err(|e| e.to_string())) else { return Ok(()) }; // a panicking concrete implementation is not this property's business
    let b = match guarded(|| erased.apply(env.c.genome.clone(), &mut r2)) { Ok(b) => b, Err(p) => return Err(Fail::new("Operator/erased-form-panics", format!("{flavour}: the concrete call returned {a:?} but the erased form panicked: {p}"))) };
    compare("Operator", flavour, a, b, r1.fingerprint(), r2.fingerprint())
}

fn genome_oracle(c: &GenomeCase, probe: &mut Probe) -> Result<(), Fail> {
    // mutators
    {
        let m = WithRate::new(c.rate);
        let env = MutEnv { concrete: &m, c };
        both_errors!(dyn_mut, Infallible, WithRate::new(c.rate), t_mut, &env, "Mutator");
    }
    {
        let m = WithOneOverLength;
        let env = MutEnv { concrete: &m, c };
        both_errors!(dyn_mut, GenomeSizeConversionError, WithOneOverLength, t_mut, &env, "Mutator");
    }
    {
        let m = ProbeMut { fail: c.fail, style: c.style };
        let env = MutEnv { concrete: &m, c };
        both_errors!(dyn_mut, ProbeFail, ProbeMut { fail: c.fail, style: c.style }, t_mut, &env, "Mutator");
    }
    {
        // an erased mutator nested inside the implementation of another one
        let mk = || NestedMut { inner: Box::new(ProbeMut { fail: c.fail, style: c.style }), fork: c.style % 3 != 0 };
        let m = mk();
        let env = MutEnv { concrete: &m, c };
        both_errors!(dyn_mut, ProbeFail, mk(), t_mut, &env, "Mutator");
    }
    // recombinators
    {
        let m = TwoPointXo;
        let env = MutEnv { concrete: &m, c };
        both_errors!(dyn_rec, DifferentGenomeLength, TwoPointXo, t_rec, &env, "Recombinator");
    }
    {
        let m = UniformXo;
        let env = MutEnv { concrete: &m, c };
        both_errors!(dyn_rec, DifferentGenomeLength, UniformXo, t_rec, &env, "Recombinator");
    }
    {
        let m = ProbeRec { fail: c.fail, style: c.style };
        let env = MutEnv { concrete: &m, c };
        both_errors!(dyn_rec, ProbeFail, ProbeRec { fail: c.fail, style: c.style }, t_rec, &env, "Recombinator");
    }
    // operators
    {
        let m = Mutate::new(WithRate::new(c.rate));
        let env = MutEnv { concrete: &m, c };
        both_errors!(dyn_op, Infallible, Mutate::new(WithRate::new(c.rate)), t_op, &env, "Operator");
    }
    {
        let m = Mutate::new(ProbeMut { fail: c.fail, style: c.style });
        let env = MutEnv { concrete: &m, c };
        both_errors!(dyn_op, ProbeFail, Mutate::new(ProbeMut { fail: c.fail, style: c.style }), t_op, &env, "Operator");
    }
    {
        let m = Identity;
        let env = MutEnv { concrete: &m, c };
        both_errors!(dyn_op, Infallible, Identity, t_op, &env, "Operator");
    }
    {
        // a composition: its error type cannot be named, so only the boxed error form is exercised
        let m = Mutate::new(WithRate::new(c.rate)).then(Mutate::new(ProbeMut { fail: c.fail, style: c.style }));
        let env = MutEnv { concrete: &m, c };
        autos!(dyn_op, BoxErr, Mutate::new(WithRate::new(c.rate)).then(Mutate::new(ProbeMut { fail: c.fail, style: c.style })), t_op_unnamed, &env, "Operator", "boxed");
    }
    // zero-sized genomes
    {
        let m = ZMut { fail: c.fail, style: c.style };
        let env = MutEnv { concrete: &m, c };
        both_errors!(dyn_mut_z, ProbeFail, ZMut { fail: c.fail, style: c.style }, t_mut_z, &env, "Mutator");
    }
    {
        let m = ZRec { fail: c.fail, style: c.style };
        let env = MutEnv { concrete: &m, c };
        both_errors!(dyn_rec_z, ProbeFail, ZRec { fail: c.fail, style: c.style }, t_rec_z, &env, "Recombinator");
    }
    {
        let m = Mutate::new(ZMut { fail: c.fail, style: c.style });
        let env = MutEnv { concrete: &m, c };
        both_errors!(dyn_op_z, ProbeFail, Mutate::new(ZMut { fail: c.fail, style: c.style }), t_op_z, &env, "Operator");
    }
    probe.nontrivial = !c.genome.is_empty();
    if c.genome.len() != c.other.len() {
        probe.label("parents of different lengths (error path)");
    }
    if c.fail {
        probe.label("failing probe implementation (error path)");
    }
    Ok(())
}

/// like `t_op` but the concrete error is only compared by text (its type is not nameable / not registered)
fn t_op_unnamed<M, S2>(erased: &S2, flavour: &str, env: &MutEnv<'_, M>) -> Result<(), Fail>
where
    M: Operator<Vec<bool>, Output = Vec<bool>>,
    M::Error: std::fmt::Display,
    S2: Operator<Vec<bool>, Output = Vec<bool>, Error = BoxErr>,
{
    struct TextOnly(BoxErr);
    impl ErrView for TextOnly {
        fn text(&self) -> String {
            self.0.to_string()
        }
        fn original(&self) -> bool {
            // the source chain must still lead to the probe's failure
            let mut cur: Option<&(dyn StdError + 'static)> = Some(self.0.as_ref());
            while let Some(c) = cur {
                if c.is::<ProbeFail>() {
                    return true;
                }
                cur = c.source();
            }
            false
        }
    }
    let (mut r1, mut r2) = (Counting::new(env.c.seed), Counting::new(env.c.seed));
    let Ok(a) = guarded(|| env.concrete.apply(env.c.genome.clone(), &mut r1).map_err(|e| e.to_string())) else { return Ok(()) }; // a panicking concrete implementation is not this property's business
    let b = match guarded(|| erased.apply(env.c.genome.clone(), &mut r2).map_err(TextOnly)) { Ok(b) => b, Err(p) => return Err(Fail::new("Operator/erased-form-panics", format!("{flavour}: the concrete call returned {a:?} but the erased form panicked: {p}"))) };
    compare("Operator", flavour, a, b, r1.fingerprint(), r2.fingerprint())
}

// ---------------------------------------------------------------- child makers

#[derive(Debug)]
struct CmErr(String);
impl std::fmt::Display for CmErr {
    fn fmt(&self, f: &mut std::fmt::Formatter<'_>) -> std::fmt::Result {
        write!(f, "child maker failed: {}", self.0)
    }
}
impl StdError for CmErr {}

struct Cm {
    fail: bool,
    style: u8,
}
impl ChildMaker<PopS, Sel<R>> for Cm {
    type Error = CmErr;
    fn make_child<G: Rng + ?Sized>(&self, rng: &mut G, population: &PopS, selector: &Sel<R>) -> Result<Ind<R>, CmErr> {
        let parent = selector.select(population, rng).map_err(|e| CmErr(e.to_string()))?;
        let mut child = parent.clone();
        child.genome = child.genome.wrapping_mul(31).wrapping_add((vh::rngs::draw_mix(rng, self.style) % 1000) as u32);
        if self.fail {
            Err(CmErr("scripted".into()))
        } else {
            Ok(child)
        }
    }
}
struct CmEnv<'a> {
    pop: &'a PopS,
    selector: &'a Sel<R>,
    fail: bool,
    seed: u64,
    style: u8,
}
fn t_cm<S2>(erased: &S2, flavour: &str, env: &CmEnv<'_>) -> Result<(), Fail>
where
    S2: ChildMaker<PopS, Sel<R>>,
    S2::Error: ErrView,
{
    let (mut r1, mut r2) = (Counting::new(env.seed), Counting::new(env.seed));
    let Ok(a) = guarded(|| Cm { fail: env.fail, style: env.style }.make_child(&mut r1, env.pop, env.selector).map_err(|e| e.to_string())) else { return Ok(()) }; // a panicking concrete implementation is not this property's business
    let b = match guarded(|| erased.make_child(&mut r2, env.pop, env.selector)) { Ok(b) => b, Err(p) => return Err(Fail::new("ChildMaker/erased-form-panics", format!("{flavour}: the concrete call returned {a:?} but the erased form panicked: {p}"))) };
    compare("ChildMaker", flavour, a, b, r1.fingerprint(), r2.fingerprint())
}
/// A child maker without any fields, handed an *erased* selector (`Box<dyn DynSelector>`, possibly of a
/// zero-sized selector such as `Best` or `Random`): an erased call nested inside an erased call, and boxes of
/// zero-sized types all share one address.
type BoxSel = Box<dyn DynSelector<PopS> + Send + Sync>;
struct ZCm;
impl ChildMaker<PopS, BoxSel> for ZCm {
    type Error = CmErr;
    fn make_child<G: Rng + ?Sized>(&self, rng: &mut G, population: &PopS, selector: &BoxSel) -> Result<Ind<R>, CmErr> {
        let parent = selector.select(population, rng).map_err(|e| CmErr(e.to_string()))?;
        let mut child = parent.clone();
        child.genome = child.genome.wrapping_mul(31).wrapping_add((rng.next_u32() % 1000) as u32);
        Ok(child)
    }
}
macro_rules! dyn_cm_z {
    ($e:ty;) => { (dyn DynChildMaker<PopS, BoxSel, $e>) };
    ($e:ty; $($a:tt)+) => { (dyn DynChildMaker<PopS, BoxSel, $e> + $($a)+) };
}
struct ZCmEnv<'a> {
    pop: &'a PopS,
    selector: &'a BoxSel,
    seed: u64,
}
fn t_cm_z<S2>(erased: &S2, flavour: &str, env: &ZCmEnv<'_>) -> Result<(), Fail>
where
    S2: ChildMaker<PopS, BoxSel>,
    S2::Error: ErrView,
{
    let (mut r1, mut r2) = (Counting::new(env.seed), Counting::new(env.seed));
    let Ok(a) = guarded(|| ZCm.make_child(&mut r1, env.pop, env.selector).map_err(|e| e.to_string())) else { return Ok(()) };
    let b = match guarded(|| erased.make_child(&mut r2, env.pop, env.selector)) { Ok(b) => b, Err(p) => return Err(Fail::new("ChildMaker/erased-form-panics", format!("{flavour} (field-less child maker, erased selector): the concrete call returned {a:?} but the erased form panicked: {p}"))) };
    compare("ChildMaker", &format!("{flavour} (field-less child maker, erased selector)"), a, b, r1.fingerprint(), r2.fingerprint())
}

#[derive(Clone, Debug, Serialize, Deserialize)]
struct CmCase {
    sel: SelCase,
    fail: bool,
    #[serde(default)]
    style: u8,
}
fn cm_oracle(c: &CmCase, probe: &mut Probe) -> Result<(), Fail> {
    let pop = population::<R>(&c.sel.results, |r| Score(r.iter().sum()));
    let Ok(selector) = build::<R>(&c.sel.spec) else { return Ok(()) };
    let env = CmEnv {
        pop: &pop,
        selector: &selector,
        fail: c.fail,
        seed: c.sel.seed,
        style: c.style,
    };
    both_errors!(dyn_cm, CmErr, Cm { fail: c.fail, style: c.style }, t_cm, &env, "ChildMaker");
    // a field-less child maker with erased (boxed) selectors, zero-sized ones included
    for which in 0..3u8 {
        let boxed: BoxSel = match which {
            0 => Box::new(ec_core::operator::selector::best::Best),
            1 => Box::new(ec_core::operator::selector::random::Random),
            _ => Box::new(ec_core::operator::selector::tournament::Tournament::binary()),
        };
        let zenv = ZCmEnv { pop: &pop, selector: &boxed, seed: c.sel.seed ^ u64::from(which) };
        both_errors!(dyn_cm_z, CmErr, ZCm, t_cm_z, &zenv, "ChildMaker");
    }
    probe.nontrivial = !pop.is_empty();
    Ok(())
}

// ---------------------------------------------------------------- driver

fn sel_strategy() -> BoxedStrategy<SelCase> {
    results_strategy(8)
        .prop_flat_map(|results| {
            let n = results.len();
            let m = results.iter().map(Vec::len).min().unwrap_or(0);
            (Just(results), spec_strategy(n, m, 2), any::<u64>(), 0u8..vh::rngs::DRAW_STYLES)
        })
        .prop_map(|(results, spec, seed, style)| SelCase { results, spec, seed, style })
        .boxed()
}

fn genome_strategy() -> BoxedStrategy<GenomeCase> {
    (
        prop::collection::vec(any::<bool>(), 0..12),
        prop_oneof![3 => Just(None), 1 => prop::collection::vec(any::<bool>(), 0..12).prop_map(Some)],
        prop_oneof![Just(0.0f32), Just(1.0f32), 0.0f32..=1.0],
        prop::bool::weighted(0.25),
        any::<u64>(),
        0u8..vh::rngs::DRAW_STYLES,
    )
        .prop_map(|(genome, other, rate, fail, seed, style)| {
            let other = other.unwrap_or_else(|| genome.iter().map(|b| !b).collect());
            GenomeCase {
                genome,
                other,
                rate,
                fail,
                seed,
                style,
            }
        })
        .boxed()
}

fn main() {
    let args: Vec<String> = std::env::args().collect();
    let get = |k: &str| args.iter().position(|a| a == k).and_then(|i| args.get(i + 1)).cloned();
    let tier = if get("--tier").as_deref() == Some("thorough") { Tier::Thorough } else { Tier::Quick };
    let seed: u64 = get("--seed").and_then(|s| s.parse().ok()).unwrap_or(0);
    let out = get("--out").unwrap_or_else(|| "/verif/gen/c17_runtime.json".into());
    vh::install_panic_hook();
    vh::start_watchdog("C17");
    let mut ctx = Ctx::new("C17", tier, seed);
    ctx.threads = 1.max(ctx.threads); // flavour counters are thread-local; merged below through labels
    let (n_sel, n_gen, n_cm) = tier.pick((20_000u32, 12_000u32, 10_000u32), (300_000, 200_000, 150_000));
    // thread-local flavour counters are drained into per-case labels so that the engine merges them
    let drain = |p: &mut Probe| {
        FLAVOURS.with(|f| {
            for (k, n) in std::mem::take(&mut *f.borrow_mut()) {
                for _ in 0..n {
                    p.label(k.clone());
                }
            }
        });
    };
    ctx.run_prop("selector_flavours", n_sel, sel_strategy, |c, p| {
        let r = sel_oracle(c, p);
        drain(p);
        r
    });
    ctx.run_prop("genome_operator_flavours", n_gen, genome_strategy, |c, p| {
        let r = genome_oracle(c, p);
        drain(p);
        r
    });
    ctx.run_prop(
        "child_maker_flavours",
        n_cm,
        || (sel_strategy(), prop::bool::weighted(0.25), 0u8..vh::rngs::DRAW_STYLES).prop_map(|(sel, fail, style)| CmCase { sel, fail, style }),
        |c, p| {
            let r = cm_oracle(c, p);
            drain(p);
            r
        },
    );
    let mut v = ctx.export();
    // per-flavour case counts (summed over sub-checks)
    let mut counts: BTreeMap<String, u64> = BTreeMap::new();
    if let Some(classes) = v["classes"].as_object() {
        for (_, m) in classes {
            if let Some(m) = m.as_object() {
                for (k, n) in m {
                    if k.contains("<dyn Dyn") {
                        *counts.entry(k.clone()).or_default() += n.as_u64().unwrap_or(0);
                    }
                }
            }
        }
    }
    v["flavours_exercised"] = json!(counts.len());
    v["flavour_counts"] = json!(counts);
    if let Err(e) = std::fs::write(&out, serde_json::to_string(&v).unwrap_or_default()) {
        eprintln!("cannot write {out}: {e}");
        std::process::exit(2);
    }
}
