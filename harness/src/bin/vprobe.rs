//! vprobe <name>: probes that may end the process they run in (stack overflow), built without optimisation
//! (`--profile probe`) and run as a child process by the check that owns them.
use std::process::exit;

fn main() {
    let which = std::env::args().nth(1).unwrap_or_default();
    match which.as_str() {
        "c18-forwarding" => match vh::props::c18::forwarding_probe() {
            Ok(n) => {
                println!("forwarding ok {n}");
                exit(0);
            }
            Err(e) => {
                println!("WRONG: {e}");
                exit(1);
            }
        },
        other => {
            eprintln!("unknown probe {other}");
            exit(2);
        }
    }
}
