//! vcheck <ID> [--tier quick|thorough] [--seed N] [--replay file]
use std::process::exit;

use vh::{props, Ctx, Tier};

fn main() {
    let args: Vec<String> = std::env::args().skip(1).collect();
    if args.is_empty() {
        eprintln!("usage: vcheck <ID> [--tier quick|thorough] [--seed N] [--replay file]");
        exit(2);
    }
    let id = args[0].clone();
    let mut tier = match std::env::var("VERIF_TIER").as_deref() {
        Ok("thorough") => Tier::Thorough,
        _ => Tier::Quick,
    };
    let mut seed: u64 = std::env::var("VERIF_SEED")
        .ok()
        .and_then(|s| s.trim().parse::<i128>().ok())
        .map_or(0, |v| v as u64);
    let mut replay: Option<String> = None;
    let mut i = 1;
    while i < args.len() {
        match args[i].as_str() {
            "--tier" => {
                i += 1;
                tier = if args.get(i).map(String::as_str) == Some("thorough") {
                    Tier::Thorough
                } else {
                    Tier::Quick
                };
            }
            "--seed" => {
                i += 1;
                seed = args.get(i).and_then(|s| s.parse::<i128>().ok()).map_or(0, |v| v as u64);
            }
            "--replay" => {
                i += 1;
                replay = args.get(i).cloned();
            }
            "--fuzz-bytes" => {
                // vcheck <ID> --fuzz-bytes <sub-check key> <file>: decode a libFuzzer input of the pt_cases target and judge it
                let key = args.get(i + 1).cloned().unwrap_or_default();
                let bytes = args.get(i + 2).and_then(|f| std::fs::read(f).ok()).unwrap_or_default();
                vh::install_panic_hook();
                match vh::ptfuzz::judge(&key, &bytes) {
                    Some((f, case)) => {
                        println!("case: {case}");
                        println!("VIOLATION property={id} replay={}", args.get(i + 2).cloned().unwrap_or_default());
                        println!("  signature: {}", f.signature);
                        println!("  {}", f.message);
                        exit(1);
                    }
                    None => {
                        println!("property held (or the bytes decode to no case)");
                        exit(0);
                    }
                }
            }
            other => {
                eprintln!("unknown argument {other}");
                exit(2);
            }
        }
        i += 1;
    }
    vh::install_panic_hook();
    vh::start_watchdog(&id);
    let mut ctx = Ctx::new(&id, tier, seed);
    if let Some(path) = replay {
        if !props::replay_file(&mut ctx, &path) {
            eprintln!("cannot replay {path}");
            exit(2);
        }
        let code = if ctx.violations().is_empty() { 0 } else { 1 };
        for v in ctx.violations() {
            println!("VIOLATION property={} replay={}", id, path);
            println!("  signature: {}", v.signature);
            println!("  {}", v.message);
        }
        if code == 0 {
            println!("replay of {path}: property held");
        }
        exit(code);
    }
    // the seconds-long replay tier: every committed regression for this property
    let dir = std::env::var("VERIF_DIR").unwrap_or_else(|_| vh::VERIF_DIR.to_string());
    let mut files: Vec<_> = std::fs::read_dir(format!("{dir}/regressions"))
        .map(|rd| {
            rd.filter_map(Result::ok)
                .map(|e| e.path())
                .filter(|p| {
                    p.file_name()
                        .and_then(|n| n.to_str())
                        .is_some_and(|n| n.starts_with(&format!("{id}-")) && n.ends_with(".json"))
                })
                .collect()
        })
        .unwrap_or_default();
    files.sort();
    for f in &files {
        if let Some(p) = f.to_str() {
            if !props::replay_file(&mut ctx, p) {
                ctx.inconclusive.push(format!("regression file {p} could not be replayed"));
            }
        }
    }
    if !props::run(&mut ctx) {
        eprintln!("unknown property {id}");
        exit(2);
    }
    exit(ctx.finish());
}
