//! Harness-side composition of the crate's real selectors: a serialisable
//! *spec tree* is turned into nested real selector values (static
//! `WeightedPair` trees, `DynWeighted` lists, references, erased boxes).
//! Combinator nodes are always the real types; the harness enums only
//! delegate so that trees of generated shape have one Rust type.

use std::collections::BTreeSet;
use std::fmt;
use std::num::NonZeroUsize;

use ec_core::individual::ec::EcIndividual;
use ec_core::operator::selector::best::Best;
use ec_core::operator::selector::dyn_weighted::{DynWeighted, DynWeightedError};
use ec_core::operator::selector::lexicase::{Lexicase, LexicaseError};
use ec_core::operator::selector::random::Random;
use ec_core::operator::selector::tournament::{Tournament, TournamentSizeError};
use ec_core::operator::selector::worst::Worst;
use ec_core::operator::selector::{DynSelector, EmptyPopulation, Selector};
use ec_core::population::Population;
use ec_core::test_results::TestResults;
use ec_core::weighted::error::{SelectionError, WeightSumOverflow, WeightedPairError};
use ec_core::weighted::weighted_pair::WeightedPair;
use ec_core::weighted::with_weight::WithWeight;
use ec_core::weighted::Weighted;
use rand::Rng;
use serde::{Deserialize, Serialize};

pub trait Res: Ord + Clone + fmt::Debug + Send + Sync + 'static {}
impl<T: Ord + Clone + fmt::Debug + Send + Sync + 'static> Res for T {}

pub type Ind<R> = EcIndividual<u32, TestResults<R>>;
pub type Pop<R> = Vec<Ind<R>>;

/// What a population type must offer so that every selector of a spec tree can work on it
/// (`Random` and `Tournament` need the slice view, `Best` / `Worst` / `Lexicase` the borrowed iterator).
/// `Default` is the empty population (used to warm up dynamic lists).
pub trait SelPop<R: Res>: Population<Individual = Ind<R>> + AsRef<[Ind<R>]> + Default + Send + Sync + 'static {}
impl<R: Res, T> SelPop<R> for T where T: Population<Individual = Ind<R>> + AsRef<[Ind<R>]> + Default + Send + Sync + 'static {}

/// A user-defined population type: the live individuals are a prefix of a larger backing store, the
/// borrowed iterator is lazy (its lower size hint is 0, it is not an `ExactSizeIterator`, so the crate's
/// blanket `Population` impl does not apply) and `size()` is implemented by hand.
#[derive(Clone, Debug)]
pub struct PaddedVec<T> {
    pub store: Vec<T>,
    pub live: usize,
}

impl<T> Default for PaddedVec<T> {
    fn default() -> Self {
        Self { store: Vec::new(), live: 0 }
    }
}

impl<T> PaddedVec<T> {
    /// `extras` lie in the backing store behind the live prefix and are not part of the population
    #[must_use]
    pub fn with_extras(live: Vec<T>, extras: impl IntoIterator<Item = T>) -> Self {
        let n = live.len();
        let mut store = live;
        store.extend(extras);
        Self { store, live: n }
    }
}

impl<T> Population for PaddedVec<T> {
    type Individual = T;
    fn size(&self) -> usize {
        self.live
    }
}

impl<T> AsRef<[T]> for PaddedVec<T> {
    fn as_ref(&self) -> &[T] {
        &self.store[..self.live]
    }
}

impl<'a, T> IntoIterator for &'a PaddedVec<T> {
    type Item = &'a T;
    type IntoIter = std::iter::Filter<std::iter::Take<std::slice::Iter<'a, T>>, fn(&&'a T) -> bool>;
    fn into_iter(self) -> Self::IntoIter {
        fn keep<T>(_: &T) -> bool {
            true
        }
        self.store.iter().take(self.live).filter(keep::<&'a T> as fn(&&'a T) -> bool)
    }
}

pub type Padded<R> = PaddedVec<Ind<R>>;

/// `extra` = how many individuals of the store lie beyond the live prefix (copies of the first ones
/// with other ids, so that a selector reaching them returns a non-member)
#[must_use]
pub fn padded<R: Res>(live: Vec<Ind<R>>, extra: usize) -> Padded<R> {
    let n = live.len();
    let extras: Vec<Ind<R>> = (0..extra.min(n))
        .map(|k| {
            let mut c = live[k % n].clone();
            c.genome = 1_000_000 + k as u32;
            c
        })
        .collect();
    PaddedVec::with_extras(live, extras)
}

#[derive(Clone, Debug, Serialize, Deserialize, PartialEq)]
pub enum Spec {
    /// returns `&population[i]` and counts its calls (C13)
    Marker(usize),
    Best,
    Worst,
    Random,
    Tournament(usize),
    Lexicase(usize),
    Weighted(WSpec),
    Dyn(Vec<(Spec, usize)>),
    /// like `Dyn`, but the list is used for a selection (from an empty population, result ignored)
    /// before and after every member added: anything the list remembers from being used half-built
    /// must not survive into the complete list
    DynGrown(Vec<(Spec, usize)>),
    Ref(Box<Spec>),
    Erased(Box<Spec>),
}

#[derive(Clone, Debug, Serialize, Deserialize, PartialEq)]
pub enum WSpec {
    Leaf(Box<Spec>, u32),
    Node(Box<WSpec>, Box<WSpec>),
}

impl Spec {
    #[must_use]
    pub fn depth(&self) -> usize {
        match self {
            Self::Marker(_) | Self::Best | Self::Worst | Self::Random | Self::Tournament(_) | Self::Lexicase(_) => 1,
            Self::Weighted(w) => 1 + w.depth(),
            Self::Dyn(v) | Self::DynGrown(v) => 1 + v.iter().map(|(s, _)| s.depth()).max().unwrap_or(0),
            Self::Ref(s) | Self::Erased(s) => 1 + s.depth(),
        }
    }
}

impl WSpec {
    #[must_use]
    pub fn depth(&self) -> usize {
        match self {
            Self::Leaf(s, _) => s.depth(),
            Self::Node(a, b) => 1 + a.depth().max(b.depth()),
        }
    }
    #[must_use]
    pub fn total(&self) -> u64 {
        match self {
            Self::Leaf(_, w) => u64::from(*w),
            Self::Node(a, b) => a.total() + b.total(),
        }
    }
}

pub enum Sel<R: Res, P: Population + 'static = Pop<R>> {
    Marker {
        index: usize,
        calls: std::sync::Arc<std::sync::atomic::AtomicU64>,
        _r: std::marker::PhantomData<fn() -> R>,
    },
    Best,
    Worst,
    Random,
    Tournament(Tournament),
    Lexicase(Lexicase),
    Weighted(Box<W<R, P>>),
    Dyn(DynWeighted<P>),
    Ref(Box<Sel<R, P>>),
    Erased(Box<dyn DynSelector<P> + Send + Sync>),
}

/// weighted things: a weighted leaf or a real `WeightedPair` of two weighted things
pub enum W<R: Res, P: Population + 'static = Pop<R>> {
    Leaf(Weighted<Sel<R, P>>),
    Node(Box<WeightedPair<W<R, P>, W<R, P>>>),
}

#[derive(Debug)]
pub enum E {
    Empty(EmptyPopulation),
    Tour(TournamentSizeError),
    Lex(LexicaseError),
    Leaf(Box<SelectionError<E>>),
    Pair(Box<SelectionError<WeightedPairError<E, E>>>),
    Dyn(DynWeightedError),
    Erased(Box<dyn std::error::Error + Send + Sync>),
}

impl fmt::Display for E {
    fn fmt(&self, f: &mut fmt::Formatter<'_>) -> fmt::Result {
        match self {
            Self::Empty(e) => e.fmt(f),
            Self::Tour(e) => e.fmt(f),
            Self::Lex(e) => e.fmt(f),
            Self::Leaf(e) => e.fmt(f),
            Self::Pair(e) => e.fmt(f),
            Self::Dyn(e) => e.fmt(f),
            Self::Erased(e) => e.fmt(f),
        }
    }
}

impl std::error::Error for E {}

#[derive(Clone, Copy, Debug, PartialEq, Eq, PartialOrd, Ord, Serialize)]
pub enum Kind {
    Empty,
    TournamentSize,
    MissingTestCase,
    ZeroWeight,
    Other,
}

fn kind_of_dyn_error(e: &(dyn std::error::Error + 'static)) -> Kind {
    if let Some(e) = e.downcast_ref::<E>() {
        return e.kind();
    }
    if e.downcast_ref::<EmptyPopulation>().is_some() {
        return Kind::Empty;
    }
    if e.downcast_ref::<TournamentSizeError>().is_some() {
        return Kind::TournamentSize;
    }
    if let Some(l) = e.downcast_ref::<LexicaseError>() {
        return match l {
            LexicaseError::EmptyPopulation(_) => Kind::Empty,
            LexicaseError::MissingTestCase { .. } => Kind::MissingTestCase,
        };
    }
    if let Some(d) = e.downcast_ref::<DynWeightedError>() {
        return kind_of_dyn_weighted(d);
    }
    Kind::Other
}

fn kind_of_dyn_weighted(d: &DynWeightedError) -> Kind {
    match d {
        DynWeightedError::EmptyPopulation(_) => Kind::Empty,
        DynWeightedError::ZeroWeightSum(w) => {
            if matches!(w, rand::seq::WeightError::InsufficientNonZero) {
                Kind::ZeroWeight
            } else {
                Kind::Other
            }
        }
        DynWeightedError::Other(b) => kind_of_dyn_error(b.as_ref()),
    }
}

impl E {
    #[must_use]
    pub fn kind(&self) -> Kind {
        match self {
            Self::Empty(_) => Kind::Empty,
            Self::Tour(_) => Kind::TournamentSize,
            Self::Lex(LexicaseError::EmptyPopulation(_)) => Kind::Empty,
            Self::Lex(LexicaseError::MissingTestCase { .. }) => Kind::MissingTestCase,
            Self::Leaf(s) => match s.as_ref() {
                SelectionError::ZeroWeight(_) => Kind::ZeroWeight,
                SelectionError::Selector(e) => e.kind(),
            },
            Self::Pair(s) => match s.as_ref() {
                SelectionError::ZeroWeight(_) => Kind::ZeroWeight,
                SelectionError::Selector(WeightedPairError::A(e) | WeightedPairError::B(e)) => e.kind(),
            },
            Self::Dyn(d) => kind_of_dyn_weighted(d),
            Self::Erased(b) => kind_of_dyn_error(b.as_ref()),
        }
    }
}

impl<R: Res, P> Selector<P> for Sel<R, P>
where
    P: SelPop<R>,
    for<'a> &'a P: IntoIterator<Item = &'a Ind<R>>,
{
    type Error = E;

    fn select<'pop, G: Rng + ?Sized>(&self, population: &'pop P, rng: &mut G) -> Result<&'pop Ind<R>, E> {
        match self {
            Self::Marker { index, calls, .. } => {
                calls.fetch_add(1, std::sync::atomic::Ordering::Relaxed);
                population.as_ref().get(*index).ok_or(E::Empty(EmptyPopulation))
            }
            Self::Best => Best.select(population, rng).map_err(E::Empty),
            Self::Worst => Worst.select(population, rng).map_err(E::Empty),
            Self::Random => Random.select(population, rng).map_err(E::Empty),
            Self::Tournament(t) => t.select(population, rng).map_err(E::Tour),
            Self::Lexicase(l) => l.select(population, rng).map_err(E::Lex),
            Self::Weighted(w) => w.select(population, rng),
            Self::Dyn(d) => d.select(population, rng).map_err(E::Dyn),
            Self::Ref(inner) => {
                let r: &Sel<R, P> = inner;
                // goes through `impl Selector<P> for &S`
                <&Sel<R, P> as Selector<P>>::select(&r, population, rng)
            }
            Self::Erased(b) => b.select(population, rng).map_err(E::Erased),
        }
    }
}

impl<R: Res, P: Population + 'static> WithWeight for W<R, P> {
    fn weight(&self) -> u32 {
        match self {
            Self::Leaf(l) => l.weight(),
            Self::Node(n) => n.weight(),
        }
    }
}

impl<R: Res, P> Selector<P> for W<R, P>
where
    P: SelPop<R>,
    for<'a> &'a P: IntoIterator<Item = &'a Ind<R>>,
{
    type Error = E;

    fn select<'pop, G: Rng + ?Sized>(&self, population: &'pop P, rng: &mut G) -> Result<&'pop Ind<R>, E> {
        match self {
            Self::Leaf(l) => l.select(population, rng).map_err(|e| E::Leaf(Box::new(e))),
            Self::Node(n) => n.select(population, rng).map_err(|e| E::Pair(Box::new(e))),
        }
    }
}

pub fn build_w<R: Res>(w: &WSpec) -> Result<W<R>, WeightSumOverflow> {
    build_w_with(w, &mut Vec::new())
}

pub fn build_w_with<R: Res>(w: &WSpec, counters: &mut Counters) -> Result<W<R>, WeightSumOverflow> {
    build_w_on::<R, Pop<R>>(w, counters)
}

pub fn build_w_on<R: Res, P>(w: &WSpec, counters: &mut Counters) -> Result<W<R, P>, WeightSumOverflow>
where
    P: SelPop<R>,
    for<'a> &'a P: IntoIterator<Item = &'a Ind<R>>,
{
    Ok(match w {
        WSpec::Leaf(s, weight) => W::Leaf(Weighted::new(build_on(s, counters)?, *weight)),
        WSpec::Node(a, b) => {
            let (a, b) = (build_w_on(a, counters)?, build_w_on(b, counters)?);
            W::Node(Box::new(WeightedPair::new(a, b)?))
        }
    })
}

/// Build the real selector for a spec. `Err` = a static weighted chain whose
/// total does not fit in 32 bits (rejected at construction).
pub fn build<R: Res>(spec: &Spec) -> Result<Sel<R>, WeightSumOverflow> {
    build_with(spec, &mut Vec::new())
}

pub type Counters = Vec<(usize, std::sync::Arc<std::sync::atomic::AtomicU64>)>;

/// Like `build`, additionally returning the call counters of all markers (index, counter) in spec order.
pub fn build_with<R: Res>(spec: &Spec, counters: &mut Counters) -> Result<Sel<R>, WeightSumOverflow> {
    build_on::<R, Pop<R>>(spec, counters)
}

/// The same over any population type that offers what the selectors need.
pub fn build_on<R: Res, P>(spec: &Spec, counters: &mut Counters) -> Result<Sel<R, P>, WeightSumOverflow>
where
    P: SelPop<R>,
    for<'a> &'a P: IntoIterator<Item = &'a Ind<R>>,
{
    Ok(match spec {
        Spec::Marker(i) => {
            let calls = std::sync::Arc::new(std::sync::atomic::AtomicU64::new(0));
            counters.push((*i, calls.clone()));
            Sel::Marker { index: *i, calls, _r: std::marker::PhantomData }
        }
        Spec::Best => Sel::Best,
        Spec::Worst => Sel::Worst,
        Spec::Random => Sel::Random,
        Spec::Tournament(k) => Sel::Tournament(Tournament::new(NonZeroUsize::new((*k).max(1)).unwrap_or(NonZeroUsize::MIN))),
        Spec::Lexicase(c) => Sel::Lexicase(Lexicase::new(*c)),
        Spec::Weighted(w) => Sel::Weighted(Box::new(build_w_on(w, counters)?)),
        Spec::Dyn(list) | Spec::DynGrown(list) => {
            let grown = matches!(spec, Spec::DynGrown(_));
            let mut it = list.iter();
            let Some((first, w0)) = it.next() else {
                return Ok(Sel::Best);
            };
            let warm_up = |d: &DynWeighted<P>| {
                if grown {
                    use rand::SeedableRng;
                    let nobody: P = P::default();
                    let mut rng = rand::rngs::StdRng::seed_from_u64(7);
                    let _ = d.select(&nobody, &mut rng).is_ok();
                }
            };
            let mut d = DynWeighted::new(build_on::<R, P>(first, counters)?, *w0);
            warm_up(&d);
            for (s, w) in it {
                d = d.with_selector(build_on::<R, P>(s, counters)?, *w);
                warm_up(&d);
            }
            Sel::Dyn(d)
        }
        Spec::Ref(s) => Sel::Ref(Box::new(build_on(s, counters)?)),
        Spec::Erased(s) => Sel::Erased(Box::new(build_on::<R, P>(s, counters)?)),
    })
}

// SAFETY-free note: `Sel` holds only Send + Sync parts (real selectors are plain data, boxes are
// declared Send + Sync), which the compiler verifies through the `DynWeighted::new` bounds.

/// What a small model of the spec allows for a given population.
#[derive(Clone, Debug, Default, PartialEq, Serialize)]
pub struct Possible {
    pub ok: bool,
    pub errs: BTreeSet<Kind>,
    /// the configuration is outside what the property constrains (e.g. dynamic weights whose
    /// total does not fit in usize): any error is accepted, only panics and non-members are not
    pub unconstrained: bool,
}

impl Possible {
    fn ok() -> Self {
        Self {
            ok: true,
            errs: BTreeSet::new(),
            unconstrained: false,
        }
    }
    fn err(k: Kind) -> Self {
        Self {
            ok: false,
            errs: BTreeSet::from([k]),
            unconstrained: false,
        }
    }
    fn union(mut self, o: &Self) -> Self {
        self.ok |= o.ok;
        self.unconstrained |= o.unconstrained;
        self.errs.extend(o.errs.iter().copied());
        self
    }
}

/// `result_lens[i]` = number of test-case results individual i carries.
#[must_use]
pub fn possible(spec: &Spec, n: usize, result_lens: &[usize]) -> Possible {
    let mut p = possible_by_spec(spec, n, result_lens);
    if n == 0 {
        // "empty population" is a documented and truthful report whenever the population is empty, also where
        // another documented condition (zero total weight, tournament size) holds at the same time
        p.errs.insert(Kind::Empty);
    }
    p
}

fn possible_by_spec(spec: &Spec, n: usize, result_lens: &[usize]) -> Possible {
    match spec {
        Spec::Marker(i) => {
            if *i < n {
                Possible::ok()
            } else {
                Possible::err(Kind::Empty)
            }
        }
        Spec::Best | Spec::Worst | Spec::Random => {
            if n == 0 {
                Possible::err(Kind::Empty)
            } else {
                Possible::ok()
            }
        }
        Spec::Tournament(k) => {
            if (*k).max(1) > n {
                Possible::err(Kind::TournamentSize)
            } else {
                Possible::ok()
            }
        }
        Spec::Lexicase(c) => {
            if n == 0 {
                Possible::err(Kind::Empty)
            } else if result_lens.iter().all(|l| l >= c) {
                Possible::ok()
            } else {
                // the filter may reach a single survivor before touching the missing case
                let mut p = Possible::ok();
                p.errs.insert(Kind::MissingTestCase);
                p
            }
        }
        Spec::Weighted(w) => {
            if w.total() == 0 {
                Possible::err(Kind::ZeroWeight)
            } else {
                possible_w(w, n, result_lens)
            }
        }
        Spec::Dyn(list) | Spec::DynGrown(list) => {
            if list.is_empty() {
                return possible(&Spec::Best, n, result_lens);
            }
            let total: u128 = list.iter().map(|(_, w)| *w as u128).sum();
            if total == 0 {
                return Possible::err(Kind::ZeroWeight);
            }
            if total > usize::MAX as u128 {
                let mut p = Possible::ok();
                p.unconstrained = true;
                return p;
            }
            list.iter()
                .filter(|(_, w)| *w > 0)
                .fold(Possible::default(), |acc, (s, _)| acc.union(&possible(s, n, result_lens)))
        }
        Spec::Ref(s) | Spec::Erased(s) => possible(s, n, result_lens),
    }
}

fn possible_w(w: &WSpec, n: usize, result_lens: &[usize]) -> Possible {
    match w {
        WSpec::Leaf(s, weight) => {
            if *weight == 0 {
                Possible::default()
            } else {
                possible(s, n, result_lens)
            }
        }
        WSpec::Node(a, b) => possible_w(a, n, result_lens).union(&possible_w(b, n, result_lens)),
    }
}
