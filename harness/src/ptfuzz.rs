//! Coverage-guided search over the proptest-driven sub-checks: libFuzzer's bytes
//! are handed to the sub-check's own proptest strategy as its random stream
//! (`RngAlgorithm::PassThrough`), so every structured case the strategy can
//! produce - including the scripted random words the operators under test will
//! draw - is reachable by byte mutation, and the coverage feedback comes from
//! the code under test.  The decoded case is judged by the same oracle as in
//! the seeded runs, and a crashing input is turned back into an ordinary
//! structured replay case by decoding it again in `vcheck`.

use proptest::strategy::{BoxedStrategy, Strategy, ValueTree};
use proptest::test_runner::{Config, RngAlgorithm, TestRng, TestRunner};
use serde_json::Value;

use crate::model::real::Tables;
use crate::props::{c04, c06, c07, c08, c10, c11, c13, c14, c15, c16, c18};
use crate::{Fail, Probe};

/// The sub-checks that can be driven this way: (key, property, sub-check name used for replay files).
pub const SUBS: &[(&str, &str, &str, usize)] = &[
    ("c04z", "C04", "hist_zero_sized", 1024),
    ("c06", "C06", "selections", 4096),
    ("c06L", "C06", "selections_larger_populations", 16384),
    ("c07", "C07", "invariants", 4096),
    ("c08", "C08", "per_draw_support", 4096),
    ("c10", "C10", "generated_cases", 4096),
    ("c10L", "C10", "generated_cases_long", 16384),
    ("c11", "C11", "mutations", 4096),
    ("c11L", "C11", "mutations_long_genomes", 16384),
    ("c13", "C13", "invariants", 4096),
    ("c14c", "C14", "compositions", 4096),
    ("c14w", "C14", "wrappers", 2048),
    ("c15", "C15", "generated", 8192),
    ("c16", "C16", "operator_histories", 8192),
    ("c16p", "C16", "push_evaluation", 4096),
    ("c18", "C18", "generated", 4096),
];

/// One value of the strategy with the bytes as its random stream (zeros once they are used up).
pub fn decode<S: Strategy>(s: &S, bytes: &[u8]) -> Option<S::Value> {
    let rng = TestRng::from_seed(RngAlgorithm::PassThrough, bytes);
    let mut runner = TestRunner::new_with_rng(Config { failure_persistence: None, ..Config::default() }, rng);
    s.new_tree(&mut runner).ok().map(|t| t.current())
}

fn one<T: serde::Serialize + std::fmt::Debug>(s: &BoxedStrategy<T>, bytes: &[u8], oracle: impl Fn(&T, &mut Probe) -> Result<(), Fail>) -> Option<(Fail, Value)> {
    let case = decode(s, bytes)?;
    let mut probe = Probe::default();
    let mut problems = vec![];
    match crate::run_oracle(|p| oracle(&case, p), &mut probe, &mut problems, &case) {
        Ok(()) => None,
        Err(f) => Some((f, serde_json::to_value(&case).unwrap_or(Value::Null))),
    }
}

/// Decode and judge one input of sub-check `key`; `Some` = the oracle rejected the case.
pub fn judge(key: &str, bytes: &[u8]) -> Option<(Fail, Value)> {
    macro_rules! cached {
        ($t:ty, $mk:expr, $oracle:expr) => {{
            thread_local! { static S: BoxedStrategy<$t> = $mk; }
            S.with(|s| one(s, bytes, $oracle))
        }};
    }
    match key {
        "c04z" => cached!(c04::ZHist, c04::zst_strategy().boxed(), c04::zst_oracle),
        "c06" => cached!(c06::Case, c06::strategy(12), c06::oracle),
        "c06L" => cached!(c06::Case, c06::strategy(90), c06::oracle),
        "c07" => cached!(c07::Case, c07::strategy(40), c07::oracle),
        "c08" => cached!(c08::DrawCase, c08::draw_strategy(), c08::draw_oracle),
        "c10" => cached!(c10::Case, c10::strategy(40), c10::oracle),
        "c10L" => cached!(c10::Case, c10::strategy(300), c10::oracle),
        "c11" => cached!(c11::Case, c11::strategy(40), c11::oracle),
        "c11L" => cached!(c11::Case, c11::strategy(300), c11::oracle),
        "c13" => cached!(c13::Case, c13::strategy(), c13::oracle),
        "c14c" => cached!(c14::Case, c14::strategy(), c14::oracle),
        "c14w" => cached!(c14::WrapCase, c14::wrap_strategy(), c14::wrapper_oracle),
        "c15" => cached!(c15::Case, c15::strategy(), c15::oracle),
        "c16" => cached!(c16::Case, c16::strategy(), c16::oracle),
        "c16p" => cached!(c16::PushCase, c16::push_strategy(), |c, p| {
            thread_local! { static T: Tables = Tables::build(); }
            T.with(|t| c16::push_oracle(t, c, p))
        }),
        "c18" => cached!(c18::Case, c18::strategy(300), c18::oracle),
        _ => None,
    }
}

#[must_use]
pub fn sub_of(key: &str) -> Option<(&'static str, &'static str, usize)> {
    SUBS.iter().find(|(k, _, _, _)| *k == key).map(|(_, p, s, l)| (*p, *s, *l))
}

/// Thorough-tier campaign of sub-check `key`; crashing inputs are decoded and judged here again.
pub fn campaign(ctx: &mut crate::Ctx, key: &str, jobs: usize, runs_per_job: u64) {
    let Some((_, sub, max_len)) = sub_of(key) else { return };
    if !ctx.violations().is_empty() {
        return;
    }
    for bytes in crate::fuzzrun::campaign_sub(ctx, "pt_cases", Some(key), jobs, runs_per_job, max_len) {
        if let Some((f, case)) = judge(key, &bytes) {
            ctx.violation(sub, &f, case);
        }
    }
}

/// The campaigns of one property: thorough tier only, skipped once a violation is known.
pub fn thorough(ctx: &mut crate::Ctx, plan: &[(&str, usize, u64)]) {
    if ctx.tier != crate::Tier::Thorough {
        return;
    }
    for (key, jobs, runs) in plan {
        campaign(ctx, key, *jobs, *runs);
    }
}
