//! Thorough-tier libFuzzer campaigns (cargo-fuzz, nightly): build the targets
//! against /repo's current tree, run `jobs` processes with fixed `-runs`, and
//! judge every saved crashing input in-process through the same decoder and
//! oracle, so that the violation's replay file is an ordinary structured case.

use std::process::{Command, Stdio};

use serde_json::json;

use crate::{derive_seed, Ctx};

fn verif_dir() -> String {
    std::env::var("VERIF_DIR_REAL").unwrap_or_else(|_| crate::VERIF_DIR.to_string())
}

/// Returns the crashing inputs (bytes). Fuzzing infrastructure problems make the run inconclusive.
pub fn campaign(ctx: &mut Ctx, target: &str, jobs: usize, runs_per_job: u64, max_len: usize) -> Vec<Vec<u8>> {
    campaign_sub(ctx, target, None, jobs, runs_per_job, max_len)
}

/// `sub` selects the sub-check a multi-purpose target serves (passed as VERIF_FUZZ_SUB); such
/// targets start from a corpus of seeded random byte strings instead of files under fuzz/seeds.
pub fn campaign_sub(ctx: &mut Ctx, target: &str, sub: Option<&str>, jobs: usize, runs_per_job: u64, max_len: usize) -> Vec<Vec<u8>> {
    let vd = verif_dir();
    let fuzz_dir = format!("{vd}/fuzz");
    let t0 = std::time::Instant::now();
    let build = Command::new("cargo")
        // no AddressSanitizer: the crates under test are safe Rust and the oracle inside the target is what
        // decides; without it the targets run about five times as many cases per second
        .args(["+nightly", "fuzz", "build", "--fuzz-dir", &fuzz_dir, "-s", "none", target])
        .current_dir(&vd)
        .env("CARGO_NET_OFFLINE", "true")
        .output();
    match build {
        Ok(o) if o.status.success() => {}
        Ok(o) => {
            let e = String::from_utf8_lossy(&o.stderr);
            ctx.inconclusive.push(format!(
                "fuzz target {target} does not build: {:?}",
                e.lines().filter(|l| l.starts_with("error")).take(3).collect::<Vec<_>>()
            ));
            return vec![];
        }
        Err(e) => {
            ctx.inconclusive.push(format!("cannot run cargo fuzz: {e}"));
            return vec![];
        }
    }
    let bin = format!("{fuzz_dir}/target/x86_64-unknown-linux-gnu/release/{target}");
    let tag = sub.map_or_else(|| target.to_string(), |s| format!("{target}_{s}"));
    let work = format!("{fuzz_dir}/corpus/{tag}-{}-{}", ctx.property, ctx.seed);
    let _ = std::fs::remove_dir_all(&work);
    let mut children = vec![];
    for j in 0..jobs {
        let corpus = format!("{work}/c{j}");
        let arts = format!("{work}/a{j}/");
        let _ = std::fs::create_dir_all(&corpus);
        let _ = std::fs::create_dir_all(&arts);
        if let Ok(rd) = std::fs::read_dir(format!("{fuzz_dir}/seeds/{target}")) {
            for f in rd.flatten() {
                let _ = std::fs::copy(f.path(), format!("{corpus}/{}", f.file_name().to_string_lossy()));
            }
        }
        if sub.is_some() {
            // many independent random starting inputs of all lengths (the bytes are the random stream of a proptest
            // strategy): mutation alone explores combinations of independent choices far more slowly than fresh draws do
            let lens = [16usize, 64, 256, 1024, 3000.min(max_len), max_len / 2, max_len * 3 / 4, max_len];
            for k in 0..320usize {
                let len = lens[k % lens.len()];
                let mut x = derive_seed(ctx.seed, &ctx.property, &tag, (j * 1000 + k) as u64) | 1;
                let bytes: Vec<u8> = (0..len)
                    .map(|_| {
                        x ^= x << 13;
                        x ^= x >> 7;
                        x ^= x << 17;
                        (x >> 24) as u8
                    })
                    .collect();
                let _ = std::fs::write(format!("{corpus}/r{k}"), bytes);
            }
        }
        // libFuzzer's -seed=0 means random: remap
        let seed = (derive_seed(ctx.seed, &ctx.property, target, j as u64) % 0x7FFF_FFFE) + 1;
        let child = Command::new(&bin)
            .arg(&corpus)
            .args([
                format!("-runs={runs_per_job}"),
                format!("-seed={seed}"),
                "-len_control=0".to_string(),
                format!("-max_len={max_len}"),
                format!("-artifact_prefix={arts}"),
                "-print_final_stats=1".to_string(),
                // comparisons against thresholds and magic words become coverage features for the strategy-driven target
                format!("-use_value_profile={}", u8::from(sub.is_some())),
            ])
            .env("VERIF_DIR", &vd)
            .env("VERIF_FUZZ_SUB", sub.unwrap_or(""))
            .stdout(Stdio::null())
            // a piped stderr would block the fuzzer as soon as the pipe buffer is full
            .stderr(std::fs::File::create(format!("{work}/log{j}.txt")).map_or_else(|_| Stdio::null(), Stdio::from))
            .spawn();
        match child {
            Ok(c) => children.push((j, c)),
            Err(e) => ctx.inconclusive.push(format!("cannot start fuzz target {target}: {e}")),
        }
    }
    let mut execs = 0u64;
    let mut crashes = vec![];
    let mut summaries = vec![];
    for (j, c) in children {
        let mut c = c;
        let Ok(status) = c.wait() else { continue };
        let err = std::fs::read_to_string(format!("{work}/log{j}.txt")).unwrap_or_default();
        let n = err
            .lines()
            .find_map(|l| l.strip_prefix("stat::number_of_executed_units:").map(str::trim).and_then(|v| v.parse::<u64>().ok()))
            .unwrap_or(0);
        execs += n;
        let arts = format!("{work}/a{j}/");
        if let Ok(rd) = std::fs::read_dir(&arts) {
            for f in rd.flatten() {
                if let Ok(bytes) = std::fs::read(f.path()) {
                    crashes.push(bytes);
                }
            }
        }
        if !status.success() {
            summaries.push(format!("job {j}: {}", err.lines().find(|l| l.contains("FUZZ-VIOLATION") || l.contains("ERROR")).unwrap_or("stopped")));
        }
    }
    ctx.count(&format!("fuzz_{tag}"), execs);
    ctx.extra.insert(
        format!("fuzz_{tag}"),
        json!({"engine": "libFuzzer via cargo-fuzz (nightly)", "jobs": jobs, "runs_per_job": runs_per_job, "executions": execs, "crashing_inputs": crashes.len(), "stopped_jobs": summaries, "wall_s": t0.elapsed().as_secs_f64(), "note": "-seed pins a campaign only approximately; the reproducible unit is the decoded crashing input"}),
    );
    let _ = std::fs::remove_dir_all(&work);
    crashes
}
