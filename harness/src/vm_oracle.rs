//! The differential oracle shared by C01 / C02 / C03: lock-step execution of
//! the real VM (one `Instruction::perform` at a time) against the reference
//! model, followed by `run_to_completion` under a sweep of step limits.

use ordered_float::OrderedFloat;
use push::error::into_state::IntoState;
use push::instruction::instruction_error::PushInstructionError;
use push::instruction::Instruction;
use push::push_vm::program::PushProgram;
use push::push_vm::push_state::PushState;
use push::push_vm::stack::StackError;
use push::push_vm::{HasStack, State};

use crate::model::real::{diff, same_state, Tables, VmCase};
use crate::model::vm::{Ins, Out, Prog, M};
use crate::{fail, guarded, panic_key, Fail, Probe};

#[derive(Clone, Copy, Debug, PartialEq, Eq)]
enum Decision {
    Primary,
    AltOk,
    Abort,
}

#[derive(Clone, Copy, Debug)]
pub struct VmOpts {
    /// run `run_to_completion` under step limits after the lock-step phase
    pub sweep: bool,
    /// sweep every limit 0..=steps when steps <= this, else a sample
    pub full_sweep_upto: usize,
    /// record per-instruction labels (costly for huge runs)
    pub labels: bool,
}

#[derive(Clone, Debug, Default)]
pub struct VmStats {
    pub steps: usize,
    pub effective_steps: usize,
    pub skips: usize,
    pub aborted: bool,
    pub hit_limit_with_work: bool,
    pub double_faults: usize,
    pub sweeps: usize,
    pub max_depth: usize,
}

#[must_use]
pub fn prog_name(p: &Prog) -> String {
    match p {
        Prog::B(_) => "Block".into(),
        Prog::I(i) => ins_name(i),
    }
}

#[must_use]
pub fn ins_name(i: &Ins) -> String {
    match i {
        Ins::Int(o) => format!("Int-{o:?}"),
        Ins::Flt(o) => format!("Float-{o:?}"),
        Ins::Bool(o) => format!("Bool-{o:?}"),
        Ins::Exec(o) => format!("Exec-{o:?}"),
        Ins::PushInt(_) => "Int-Push".into(),
        Ins::PushFloat(_) => "Float-Push".into(),
        Ins::PushBool(_) => "Bool-Push".into(),
        Ins::PushExec(_) => "Exec-Push".into(),
        Ins::Input(_) => "InputVar".into(),
        Ins::PrintSpace => "PrintSpace".into(),
        Ins::PrintNewline => "PrintNewline".into(),
        Ins::PrintPeriod => "PrintPeriod".into(),
        Ins::PrintString(_) => "PrintString".into(),
    }
}

fn sizes_within_limits(s: &PushState) -> Option<String> {
    let checks = [
        ("exec", s.stack::<PushProgram>().size(), s.stack::<PushProgram>().max_stack_size()),
        ("int", s.stack::<i64>().size(), s.stack::<i64>().max_stack_size()),
        (
            "float",
            s.stack::<OrderedFloat<f64>>().size(),
            s.stack::<OrderedFloat<f64>>().max_stack_size(),
        ),
        ("bool", s.stack::<bool>().size(), s.stack::<bool>().max_stack_size()),
    ];
    checks
        .iter()
        .find(|(_, size, max)| size > max)
        .map(|(n, size, max)| format!("{n} stack holds {size} elements, maximum {max}"))
}

fn aspect_of(component: &str, real: &PushState, m: &M) -> &'static str {
    let sizes_equal = real.stack::<i64>().size() == m.int.len()
        && real.stack::<bool>().size() == m.boolean.len()
        && real.stack::<OrderedFloat<f64>>().size() == m.float.len()
        && real.stack::<PushProgram>().size() == m.exec.len();
    match component {
        "output" => "output",
        "limits" => "limits",
        _ if !sizes_equal => "operands-consumed",
        _ => "result-value",
    }
}

/// Replay the model under the decisions taken in lock-step, for `limit` steps.
fn model_at(case: &VmCase, decisions: &[Decision], limit: usize) -> (M, bool, usize) {
    let mut m = case.model();
    let mut steps = 0;
    while steps < limit {
        let Some(p) = m.exec.pop() else { break };
        let d = decisions.get(steps).copied().unwrap_or(Decision::Primary);
        if d == Decision::Abort {
            return (m, true, steps);
        }
        let v = m.perform(&p);
        if d == Decision::AltOk {
            if let Some(alt) = v.alt_ok {
                m = *alt;
            }
        }
        steps += 1;
    }
    (m, false, steps)
}

/// The full differential check of one case.
#[allow(clippy::too_many_lines)]
pub fn vm_oracle(t: &Tables, case: &VmCase, opts: &VmOpts, probe: &mut Probe) -> Result<VmStats, Fail> {
    let mut stats = VmStats::default();
    stats.max_depth = case.exec.iter().map(Prog::depth).max().unwrap_or(0);
    let mut real = match guarded(|| case.real(t, case.steps)) {
        Ok(Ok(s)) => s,
        Ok(Err(e)) => fail!("setup/state-construction", "could not construct the initial state: {e}; case {case:?}"),
        Err(p) => fail!(
            format!("setup/panic:{}", panic_key(&p)),
            "constructing the initial state panicked: {p}"
        ),
    };
    let mut m = case.model();
    if let Some((c, d)) = diff(t, &real, &m) {
        fail!(format!("setup/{c}"), "freshly built state differs from what was configured: {d}");
    }
    let mut decisions: Vec<Decision> = Vec::new();
    let mut pending = case.instr.clone();
    let single = pending.is_some();
    let mut step = 0usize;

    loop {
        if step >= case.steps.max(usize::from(single)) {
            break;
        }
        let p = if let Some(p) = pending.take() {
            p
        } else {
            let Some(p) = m.exec.pop() else { break };
            match real.stack_mut::<PushProgram>().pop() {
                Ok(rp) => {
                    if Some(&rp) != t.program(&p).as_ref() {
                        fail!(
                            "exec/order",
                            "step {step}: next exec element is {rp:?}, expected {:?}",
                            t.program(&p)
                        );
                    }
                }
                Err(e) => fail!("exec/order", "step {step}: exec stack empty ({e}) but model has {p:?}"),
            }
            p
        };
        let name = prog_name(&p);
        let Some(real_p) = t.program(&p) else {
            fail!("setup/no-real-instruction", "{p:?} has no real counterpart")
        };
        let before = real.clone();
        let verdict = m.perform(&p);
        if verdict.also_abort {
            stats.double_faults += 1;
        }
        let r = guarded(move || real_p.perform(real));
        match r {
            Err(pmsg) => fail!(
                format!("{name}/panic:{}", panic_key(&pmsg)),
                "step {step}: {p:?} panicked: {pmsg}\nstate before: {before:?}"
            ),
            Ok(Ok(s)) => {
                real = s;
                let d = diff(t, &real, &m);
                if verdict.primary == Out::Ok && d.is_none() {
                    decisions.push(Decision::Primary);
                    if verdict.effective {
                        stats.effective_steps += 1;
                    }
                    if opts.labels {
                        probe.label(format!("{name}:ok"));
                    }
                } else if let Some(alt) = verdict.alt_ok.as_ref().filter(|a| diff(t, &real, a).is_none()) {
                    m = (**alt).clone();
                    decisions.push(Decision::AltOk);
                    stats.effective_steps += 1;
                    if opts.labels {
                        probe.label(format!("{name}:ok-alt"));
                    }
                } else if verdict.primary != Out::Ok {
                    fail!(
                        format!("{name}/outcome-kind"),
                        "step {step}: {p:?} succeeded but the semantics prescribe {:?}{}\nstate before: {before:?}\nstate after: {real:?}",
                        verdict.primary,
                        if verdict.also_abort { " (or Abort)" } else { "" }
                    );
                } else {
                    let (c, desc) = d.unwrap_or(("?", String::new()));
                    let aspect = aspect_of(c, &real, &m);
                    fail!(
                        format!("{name}/{aspect}"),
                        "step {step}: after {p:?}: {desc}\nstate before: {before:?}"
                    );
                }
                if let Some(msg) = sizes_within_limits(&real) {
                    fail!(format!("{name}/size-exceeds-max"), "step {step}: after {p:?}: {msg}");
                }
            }
            Ok(Err(e)) => {
                let fatal = e.is_fatal();
                // C02, model-free: the state handed back is the state handed in
                if !same_state(e.state(), &before) {
                    fail!(
                        format!("{name}/state-after-error"),
                        "step {step}: {p:?} failed ({:?}) but the state carried by the error differs from the state before:\nbefore: {before:?}\ncarried: {:?}",
                        e.error(),
                        e.state()
                    );
                }
                let allowed = if fatal {
                    verdict.primary == Out::Abort || verdict.also_abort
                } else {
                    verdict.primary == Out::Skip
                };
                if !allowed {
                    fail!(
                        format!("{name}/outcome-kind"),
                        "step {step}: {p:?} returned a {} error ({:?}) but the semantics prescribe {:?}\nstate before: {before:?}",
                        if fatal { "fatal" } else { "recoverable" },
                        e.error(),
                        verdict.primary
                    );
                }
                if fatal
                    && !matches!(
                        e.error(),
                        PushInstructionError::StackError(StackError::Overflow { .. })
                    )
                {
                    fail!(
                        format!("{name}/error-kind"),
                        "step {step}: {p:?} aborted with {:?}; only stack overflow may abort",
                        e.error()
                    );
                }
                if opts.labels {
                    probe.label(format!("{name}:{}", if fatal { "abort" } else { "skip" }));
                }
                real = e.into_state();
                if fatal {
                    decisions.push(Decision::Abort);
                    stats.aborted = true;
                    stats.steps = step;
                    break;
                }
                decisions.push(Decision::Primary);
                stats.skips += 1;
            }
        }
        step += 1;
        stats.steps = step;
    }
    stats.hit_limit_with_work = !stats.aborted && !m.exec.is_empty() && !single;

    // ---- run_to_completion under step limits
    if opts.sweep && !single {
        let total = case.steps;
        let mut limits: Vec<usize> = if total <= opts.full_sweep_upto {
            (0..=total).collect()
        } else {
            let mut v = vec![0, 1, 2, 3, total, total - 1, stats.steps, stats.steps.saturating_sub(1), stats.steps + 1];
            let stride = (total / 8).max(1);
            v.extend((0..=total).step_by(stride));
            v.retain(|l| *l <= total);
            v.sort_unstable();
            v.dedup();
            v
        };
        limits.dedup();
        for l in limits {
            stats.sweeps += 1;
            let (ml, expect_abort, _) = model_at(case, &decisions, l);
            let start = match case.real(t, l) {
                Ok(s) => s,
                Err(e) => fail!("setup/state-construction", "limit {l}: {e}"),
            };
            match guarded(move || start.run_to_completion()) {
                Err(pmsg) => fail!(
                    format!("run/panic:{}", panic_key(&pmsg)),
                    "run_to_completion with step limit {l} panicked: {pmsg}"
                ),
                Ok(Ok(s)) => {
                    if expect_abort {
                        fail!(
                            "run/outcome-kind",
                            "step limit {l}: run_to_completion returned Ok but a stack overflow must abort the run; final state {s:?}"
                        );
                    }
                    if let Some(msg) = sizes_within_limits(&s) {
                        fail!("run/size-exceeds-max", "step limit {l}: {msg}");
                    }
                    if let Some((c, d)) = diff(t, &s, &ml) {
                        fail!(
                            format!("run/final-state-{c}"),
                            "step limit {l}: {d} (the lock-step phase agreed with the model, so the interpreter loop itself deviates: wrong number of steps, wrong order, or a skipped instruction not treated as a no-op)"
                        );
                    }
                    if s.max_instruction_steps() != l {
                        fail!("run/limits", "step limit changed from {l} to {}", s.max_instruction_steps());
                    }
                }
                Ok(Err(fe)) => {
                    let dbg = format!("{fe:?}");
                    if let Some(pos) = dbg.rfind("error: ") {
                        if !dbg[pos..].starts_with("error: StackError(Overflow") {
                            let end = dbg[pos..].char_indices().nth(120).map_or(dbg.len(), |(i, _)| pos + i);
                            fail!(
                                "run/error-kind",
                                "step limit {l}: evaluation ended with {} - only stack overflow may abort a program",
                                &dbg[pos..end]
                            );
                        }
                    }
                    let s = fe.into_state();
                    if !expect_abort {
                        fail!(
                            "run/outcome-kind",
                            "step limit {l}: run_to_completion aborted but the semantics prescribe normal termination; carried state {s:?}"
                        );
                    }
                    if let Some(msg) = sizes_within_limits(&s) {
                        fail!("run/size-exceeds-max", "step limit {l}: carried state: {msg}");
                    }
                    if let Some((c, d)) = diff(t, &s, &ml) {
                        fail!(
                            format!("run/abort-state-{c}"),
                            "step limit {l}: state carried by the overflow error: {d}"
                        );
                    }
                }
            }
        }
    }
    Ok(stats)
}
