//! Engine shared by all property checks: seeded proptest runners, case
//! accounting, evidence files, replay files, known findings, panic capture,
//! RNG instruments and the statistical test used by distributional checks.

pub mod fuzz_support;
pub mod fuzzdec;
pub mod fuzzrun;
pub mod gen_vm;
pub mod iters;
pub mod model;
pub mod props;
pub mod ptfuzz;
pub mod rngs;
pub mod selharness;
pub mod stats;
pub mod vm_oracle;

use std::cell::RefCell;
use std::collections::{BTreeMap, BTreeSet, HashSet};
use std::fmt::Debug;
use std::hash::{Hash, Hasher};
use std::panic::{catch_unwind, AssertUnwindSafe};
use std::sync::Mutex;
use std::time::Instant;

use proptest::strategy::{Strategy, ValueTree};
use proptest::test_runner::{Config, RngAlgorithm, TestRng, TestRunner};
use serde::de::DeserializeOwned;
use serde::Serialize;
use serde_json::{json, Map, Value};

pub const VERIF_DIR: &str = "/verif";

/// The tree under test: `/repo`, unless `VERIF_REPO` names a scratch copy (background runs on a
/// snapshot, seeded-change trials); `tools/relocate.sh` rewrites the path dependencies to match.
#[must_use]
pub fn repo_dir() -> String {
    std::env::var("VERIF_REPO").ok().filter(|s| !s.is_empty()).unwrap_or_else(|| "/repo".to_string())
}

#[derive(Clone, Copy, Debug, PartialEq, Eq)]
pub enum Tier {
    Quick,
    Thorough,
}

impl Tier {
    #[must_use]
    pub fn name(self) -> &'static str {
        match self {
            Self::Quick => "quick",
            Self::Thorough => "thorough",
        }
    }
    /// pick a size by tier
    #[must_use]
    pub fn pick<T>(self, quick: T, thorough: T) -> T {
        match self {
            Self::Quick => quick,
            Self::Thorough => thorough,
        }
    }
}

/// What an oracle reports for a case that breaks the property.
#[derive(Clone, Debug)]
pub struct Fail {
    /// stable root-cause key, see DESIGN.md "Known-findings file and signatures"
    pub signature: String,
    pub message: String,
}

impl Fail {
    pub fn new(signature: impl Into<String>, message: impl Into<String>) -> Self {
        Self {
            signature: signature.into(),
            message: message.into(),
        }
    }
}

#[macro_export]
macro_rules! fail {
    ($sig:expr, $($arg:tt)*) => {
        return Err($crate::Fail::new($sig, format!($($arg)*)))
    };
}

#[macro_export]
macro_rules! ensure {
    ($cond:expr, $sig:expr, $($arg:tt)*) => {
        if !($cond) {
            return Err($crate::Fail::new($sig, format!($($arg)*)));
        }
    };
}

/// Per-case report handed to the oracle so that it can classify the case.
#[derive(Default)]
pub struct Probe {
    pub nontrivial: bool,
    /// class labels; each increments a histogram in the evidence file
    pub labels: Vec<String>,
    /// optional override for the distinctness key (defaults to the JSON encoding)
    pub key: Option<u64>,
}

impl Probe {
    pub fn label(&mut self, l: impl Into<String>) {
        self.labels.push(l.into());
    }
}

#[derive(Clone, Debug, serde::Deserialize)]
pub struct KnownFinding {
    pub status: String,
    pub property: String,
    #[serde(default)]
    pub commit: Option<String>,
    pub signature: String,
    pub what: String,
}

#[derive(Clone, Debug, Serialize)]
pub struct Violation {
    pub property: String,
    pub sub: String,
    pub signature: String,
    pub message: String,
    pub case: Value,
}

/// Accounting local to one worker (merged in chunk order for determinism).
#[derive(Default)]
struct Acct {
    evaluations: u64,
    nontrivial: HashSet<u64>,
    labels: BTreeMap<String, u64>,
    samples: Vec<Value>,
    known_hits: BTreeMap<String, u64>,
    harness_problems: Vec<String>,
}

pub struct Ctx {
    pub property: String,
    pub tier: Tier,
    pub seed: u64,
    pub threads: usize,
    start: Instant,
    evaluations: u64,
    nontrivial: HashSet<u64>,
    labels: BTreeMap<String, BTreeMap<String, u64>>,
    samples: Vec<Value>,
    pub extra: Map<String, Value>,
    pub assumptions: Vec<String>,
    pub rule: String,
    pub exhaustive: Option<bool>,
    violations: Vec<Violation>,
    known: Vec<KnownFinding>,
    known_hits: BTreeMap<String, u64>,
    pub inconclusive: Vec<String>,
    sub_stats: Map<String, Value>,
}

pub fn hash64<T: Hash + ?Sized>(t: &T) -> u64 {
    let mut h = std::collections::hash_map::DefaultHasher::new();
    t.hash(&mut h);
    h.finish()
}

pub fn splitmix(mut x: u64) -> u64 {
    x = x.wrapping_add(0x9E37_79B9_7F4A_7C15);
    let mut z = x;
    z = (z ^ (z >> 30)).wrapping_mul(0xBF58_476D_1CE4_E5B9);
    z = (z ^ (z >> 27)).wrapping_mul(0x94D0_49BB_1331_11EB);
    z ^ (z >> 31)
}

/// FNV-1a, stable across processes and rust versions (unlike `DefaultHasher` in principle)
#[must_use]
pub fn fnv(s: &str) -> u64 {
    let mut h: u64 = 0xcbf2_9ce4_8422_2325;
    for b in s.bytes() {
        h ^= u64::from(b);
        h = h.wrapping_mul(0x0100_0000_01b3);
    }
    h
}

#[must_use]
pub fn derive_seed(seed: u64, property: &str, sub: &str, chunk: u64) -> u64 {
    splitmix(splitmix(splitmix(seed ^ 0xA5A5_5A5A) ^ fnv(property)) ^ fnv(sub)).wrapping_add(splitmix(chunk))
}

#[must_use]
pub fn seed_bytes(s: u64) -> [u8; 32] {
    let mut out = [0u8; 32];
    let mut x = s;
    for chunk in out.chunks_mut(8) {
        x = splitmix(x);
        chunk.copy_from_slice(&x.to_le_bytes());
    }
    out
}

#[must_use]
pub fn runner(seed: u64, cases: u32) -> TestRunner {
    let config = Config {
        cases,
        failure_persistence: None,
        max_shrink_iters: 20_000,
        max_global_rejects: 1_000_000,
        ..Config::default()
    };
    TestRunner::new_with_rng(config, TestRng::from_seed(RngAlgorithm::ChaCha, &seed_bytes(seed)))
}

// ---------------------------------------------------------------- watchdog

/// per worker slot: millis since process start when the current case began (0 = idle) and its index;
/// lock-free so that cheap cases do not contend on it
static BEAT_T: [std::sync::atomic::AtomicU64; 64] = [const { std::sync::atomic::AtomicU64::new(0) }; 64];
static BEAT_I: [std::sync::atomic::AtomicU64; 64] = [const { std::sync::atomic::AtomicU64::new(0) }; 64];
static BEAT_SUB: Mutex<String> = Mutex::new(String::new());
static PROCESS_START: std::sync::OnceLock<Instant> = std::sync::OnceLock::new();

fn now_ms() -> u64 {
    PROCESS_START.get_or_init(Instant::now).elapsed().as_millis() as u64 + 1
}

fn beat(slot: usize, index: u64, active: bool) {
    use std::sync::atomic::Ordering::Relaxed;
    let slot = slot % 64;
    // the clock is only read every 64th case: a watchdog resolution of seconds is plenty
    if active {
        if index % 64 == 1 || BEAT_T[slot].load(Relaxed) == 0 {
            BEAT_T[slot].store(now_ms(), Relaxed);
        }
        BEAT_I[slot].store(index, Relaxed);
    }
}

fn beat_idle(slot: usize) {
    BEAT_T[slot % 64].store(0, std::sync::atomic::Ordering::Relaxed);
}

/// A case that runs longer than `VERIF_WATCHDOG_S` (default 300 s, against an
/// expected few milliseconds) makes the run *inconclusive* (exit 2), never a violation.
pub fn start_watchdog(property: &str) {
    let limit_s: u64 = std::env::var("VERIF_WATCHDOG_S").ok().and_then(|s| s.parse().ok()).unwrap_or(300);
    let property = property.to_string();
    now_ms();
    std::thread::spawn(move || {
        use std::sync::atomic::Ordering::Relaxed;
        let mut last: [(u64, u64); 64] = [(0, 0); 64];
        loop {
            std::thread::sleep(std::time::Duration::from_millis(1000));
            let now = now_ms();
            for slot in 0..64 {
                let (t, i) = (BEAT_T[slot].load(Relaxed), BEAT_I[slot].load(Relaxed));
                if t == 0 {
                    last[slot] = (0, 0);
                    continue;
                }
                // the same case index has been current since `since`
                if last[slot].1 != i || last[slot].0 == 0 {
                    last[slot] = (now, i);
                    continue;
                }
                if now.saturating_sub(last[slot].0) > limit_s * 1000 {
                    let what = BEAT_SUB.lock().map(|s| s.clone()).unwrap_or_default();
                    println!(
                        "INCONCLUSIVE property={property} watchdog: case {i} of worker {slot} in sub-check {what} has been running for more than {limit_s} s (hang or pathological slowness; not counted as a violation)"
                    );
                    std::process::exit(2);
                }
            }
        }
    });
}

// ---------------------------------------------------------------- panic capture

thread_local! {
    static LAST_PANIC: RefCell<Option<String>> = const { RefCell::new(None) };
}

static HOOK_INSTALLED: Mutex<bool> = Mutex::new(false);

/// Install a silent hook that records message and location per thread.
pub fn install_panic_hook() {
    let mut g = HOOK_INSTALLED.lock().unwrap_or_else(std::sync::PoisonError::into_inner);
    if *g {
        return;
    }
    *g = true;
    std::panic::set_hook(Box::new(|info| {
        let msg = if let Some(s) = info.payload().downcast_ref::<&str>() {
            (*s).to_string()
        } else if let Some(s) = info.payload().downcast_ref::<String>() {
            s.clone()
        } else {
            "<non-string panic payload>".to_string()
        };
        let loc = info
            .location()
            .map(|l| format!("{}:{}", l.file(), l.line()))
            .unwrap_or_default();
        LAST_PANIC.with(|p| *p.borrow_mut() = Some(format!("{msg} @ {loc}")));
    }));
}

/// Run code under test; a panic becomes `Err(description)`.
pub fn guarded<R>(f: impl FnOnce() -> R) -> Result<R, String> {
    match catch_unwind(AssertUnwindSafe(f)) {
        Ok(r) => Ok(r),
        Err(_) => Err(LAST_PANIC
            .with(|p| p.borrow_mut().take())
            .unwrap_or_else(|| "panic (no message captured)".into())),
    }
}

/// Run an oracle; a panic that escapes it is attributed by location: inside /repo it is a panic of
/// the code under test (a violation), anywhere else it is a harness problem (inconclusive).
pub fn run_oracle<T>(oracle: impl FnOnce(&mut Probe) -> Result<(), Fail>, probe: &mut Probe, harness_problems: &mut Vec<String>, what: &T) -> Result<(), Fail>
where
    T: Debug + ?Sized,
{
    match guarded(|| oracle(probe)) {
        Ok(r) => r,
        Err(desc) => {
            if desc.contains(&format!("{}/", repo_dir())) || desc.contains("/repo/") {
                Err(Fail::new(format!("panic:{}", panic_key(&desc)), format!("the code under test panicked: {desc}")))
            } else {
                if harness_problems.len() < 5 {
                    let mut w = format!("{what:?}");
                    w.truncate(400);
                    harness_problems.push(format!("the harness itself panicked ({desc}) on case {w}"));
                }
                Ok(())
            }
        }
    }
}

/// short location-free form of a panic for signatures
#[must_use]
pub fn panic_key(desc: &str) -> String {
    let loc = desc.rsplit(" @ ").next().unwrap_or("");
    // keep file name only, drop line so that unrelated edits do not change the key
    let file = loc.rsplit('/').next().unwrap_or(loc);
    let file = file.split(':').next().unwrap_or(file);
    file.to_string()
}

// ---------------------------------------------------------------- Ctx

impl Ctx {
    #[must_use]
    pub fn new(property: &str, tier: Tier, seed: u64) -> Self {
        let known = load_known_findings()
            .into_iter()
            .filter(|k| k.property == property)
            .collect();
        let threads = std::env::var("VERIF_THREADS")
            .ok()
            .and_then(|s| s.parse().ok())
            .unwrap_or_else(|| std::thread::available_parallelism().map_or(4, std::num::NonZero::get).min(16));
        Self {
            property: property.to_string(),
            tier,
            seed,
            threads,
            start: Instant::now(),
            evaluations: 0,
            nontrivial: HashSet::new(),
            labels: BTreeMap::new(),
            samples: Vec::new(),
            extra: Map::new(),
            assumptions: Vec::new(),
            rule: String::new(),
            exhaustive: None,
            violations: Vec::new(),
            known,
            known_hits: BTreeMap::new(),
            inconclusive: Vec::new(),
            sub_stats: Map::new(),
        }
    }

    #[must_use]
    pub fn is_known(&self, signature: &str) -> bool {
        self.known
            .iter()
            .any(|k| k.status == "known" && k.signature == signature)
    }

    fn known_set(&self) -> BTreeSet<String> {
        self.known
            .iter()
            .filter(|k| k.status == "known")
            .map(|k| k.signature.clone())
            .collect()
    }

    pub fn violation(&mut self, sub: &str, fail: &Fail, case: Value) {
        if self.is_known(&fail.signature) {
            *self.known_hits.entry(fail.signature.clone()).or_default() += 1;
            return;
        }
        // one violation per signature is enough
        if self.violations.iter().any(|v| v.signature == fail.signature) {
            return;
        }
        self.violations.push(Violation {
            property: self.property.clone(),
            sub: sub.to_string(),
            signature: fail.signature.clone(),
            message: fail.message.clone(),
            case,
        });
    }

    pub fn count(&mut self, sub: &str, n: u64) {
        self.evaluations += n;
        let e = self.sub_stats.entry(sub.to_string()).or_insert(json!({"evaluations":0}));
        let cur = e["evaluations"].as_u64().unwrap_or(0);
        e["evaluations"] = json!(cur + n);
    }

    pub fn note_nontrivial(&mut self, key: u64) {
        self.nontrivial.insert(key);
    }

    pub fn add_label(&mut self, sub: &str, label: &str, n: u64) {
        *self
            .labels
            .entry(sub.to_string())
            .or_default()
            .entry(label.to_string())
            .or_default() += n;
    }

    pub fn add_sample(&mut self, v: Value) {
        if self.samples.len() < 12 {
            self.samples.push(v);
        }
    }

    #[must_use]
    pub fn label_count(&self, sub: &str, label: &str) -> u64 {
        self.labels
            .get(sub)
            .and_then(|m| m.get(label))
            .copied()
            .unwrap_or(0)
    }

    /// Run a generated-input sub-check.  `cases` are split over worker threads,
    /// each with its own derived seed; the first failure of each worker is shrunk
    /// by proptest.  Failures whose signature is a listed *known* finding are
    /// counted and treated as passes (also during shrinking) so that the search
    /// continues behind them.
    pub fn run_prop<S, M, F>(&mut self, sub: &str, cases: u32, mk_strategy: M, oracle: F)
    where
        S: Strategy,
        M: Fn() -> S + Sync,
        S::Value: Serialize + Debug + Clone,
        F: Fn(&S::Value, &mut Probe) -> Result<(), Fail> + Sync,
    {
        if std::env::var_os("VERIF_ONLY_CAMPAIGNS").is_some() {
            // debugging aid: lets the coverage-guided campaigns of the thorough tier be exercised on their own
            return;
        }
        let t0 = Instant::now();
        let workers = self.threads.max(1).min((cases as usize / 200).max(1));
        let per = cases / workers as u32;
        let rem = cases % workers as u32;
        let known = self.known_set();
        let property = self.property.clone();
        let seed = self.seed;
        let results: Vec<(Acct, Option<(Fail, Value)>)> = std::thread::scope(|scope| {
            let handles: Vec<_> = (0..workers)
                .map(|w| {
                    let n = per + u32::from((w as u32) < rem);
                    let mk_strategy = &mk_strategy;
                    let oracle = &oracle;
                    let known = &known;
                    let property = &property;
                    std::thread::Builder::new()
                        .stack_size(256 << 20)
                        .spawn_scoped(scope, move || {
                            let strategy = mk_strategy();
                            run_chunk(w, sub, derive_seed(seed, property, sub, w as u64), n, &strategy, oracle, known)
                        })
                        .expect("spawn worker")
                })
                .collect();
            handles.into_iter().map(|h| h.join().expect("worker panicked outside guarded code")).collect()
        });
        let mut sub_evals = 0;
        let mut sub_nt = HashSet::new();
        for (acct, failure) in results {
            sub_evals += acct.evaluations;
            self.evaluations += acct.evaluations;
            sub_nt.extend(acct.nontrivial.iter().copied());
            // distinctness is per sub-check (different sub-checks have different case types)
            let subkey = fnv(sub);
            self.nontrivial.extend(acct.nontrivial.into_iter().map(|k| k ^ subkey));
            for (l, n) in acct.labels {
                *self.labels.entry(sub.to_string()).or_default().entry(l).or_default() += n;
            }
            for (s, n) in acct.known_hits {
                *self.known_hits.entry(s).or_default() += n;
            }
            for m in acct.harness_problems {
                if self.inconclusive.len() < 8 {
                    self.inconclusive.push(format!("{sub}: {m}"));
                }
            }
            for s in acct.samples {
                if self.samples.iter().filter(|v| v["sub"] == sub).count() < 3 {
                    self.samples.push(json!({"sub": sub, "case": s}));
                }
            }
            if let Some((fail, case)) = failure {
                self.violation(sub, &fail, case);
            }
        }
        self.sub_stats.insert(
            sub.to_string(),
            json!({"evaluations": sub_evals, "distinct_nontrivial": sub_nt.len(), "wall_s": t0.elapsed().as_secs_f64()}),
        );
    }

    /// Run an explicit list / enumeration of cases through the same accounting.
    pub fn run_cases<T, I, F>(&mut self, sub: &str, cases: I, oracle: F)
    where
        T: Serialize + Debug,
        I: IntoIterator<Item = T>,
        F: Fn(&T, &mut Probe) -> Result<(), Fail>,
    {
        let t0 = Instant::now();
        let subkey = fnv(sub);
        let mut evals = 0u64;
        let mut nt = 0u64;
        for case in cases {
            evals += 1;
            let mut probe = Probe::default();
            let mut problems = Vec::new();
            let r = run_oracle(|p| oracle(&case, p), &mut probe, &mut problems, &case);
            for m in problems {
                if self.inconclusive.len() < 8 {
                    self.inconclusive.push(format!("{sub}: {m}"));
                }
            }
            for l in &probe.labels {
                *self.labels.entry(sub.to_string()).or_default().entry(l.clone()).or_default() += 1;
            }
            let fresh = if probe.nontrivial {
                let key = probe.key.unwrap_or_else(|| hash64(&serde_json::to_string(&case).unwrap_or_default()));
                self.nontrivial.insert(key ^ subkey)
            } else {
                false
            };
            if fresh {
                nt += 1;
                if self.samples.iter().filter(|v| v["sub"] == sub).count() < 3 && (nt % 97 == 1) {
                    self.samples.push(json!({"sub": sub, "case": serde_json::to_value(&case).unwrap_or(Value::Null)}));
                }
            }
            if let Err(fail) = r {
                let v = serde_json::to_value(&case).unwrap_or(Value::Null);
                self.violation(sub, &fail, v);
            }
        }
        self.evaluations += evals;
        self.sub_stats.insert(
            sub.to_string(),
            json!({"evaluations": evals, "distinct_nontrivial": nt, "wall_s": t0.elapsed().as_secs_f64()}),
        );
    }

    /// Replay a stored case through an oracle (bypasses proptest).
    pub fn replay_case<T, F>(&mut self, sub: &str, case: &Value, oracle: F)
    where
        T: DeserializeOwned + Serialize + Debug,
        F: Fn(&T, &mut Probe) -> Result<(), Fail>,
    {
        match serde_json::from_value::<T>(case.clone()) {
            Ok(c) => {
                self.evaluations += 1;
                let mut probe = Probe::default();
                let mut problems = Vec::new();
                let r = run_oracle(|p| oracle(&c, p), &mut probe, &mut problems, &c);
                self.inconclusive.extend(problems.into_iter().map(|m| format!("{sub}: {m}")));
                if probe.nontrivial {
                    self.nontrivial.insert(hash64(&case.to_string()) ^ fnv(sub));
                }
                self.add_label(sub, "replayed", 1);
                if let Err(fail) = r {
                    self.violation(sub, &fail, case.clone());
                }
            }
            Err(e) => self
                .inconclusive
                .push(format!("replay case for {sub} does not decode: {e}")),
        }
    }

    #[must_use]
    pub fn violations(&self) -> &[Violation] {
        &self.violations
    }

    /// Raw accounting for a companion binary that reports to a parent check (C17 / C19).
    #[must_use]
    pub fn export(&self) -> Value {
        json!({
            "evaluations": self.evaluations,
            "nontrivial_keys": self.nontrivial.iter().copied().collect::<Vec<u64>>(),
            "samples": self.samples,
            "classes": self.labels,
            "violations": self.violations,
            "inconclusive": self.inconclusive,
            "extra": self.extra,
        })
    }

    /// Write evidence + replay files, print the contract lines, return exit code.
    pub fn finish(mut self) -> i32 {
        let wall = self.start.elapsed().as_secs_f64();
        let dir = std::env::var("VERIF_DIR").unwrap_or_else(|_| VERIF_DIR.to_string());
        let mut code = 0;
        std::fs::create_dir_all(format!("{dir}/replays")).ok();
        std::fs::create_dir_all(format!("{dir}/evidence")).ok();
        for (sig, n) in &self.known_hits {
            println!(
                "KNOWN-FINDING: property={} {} ({} generated cases hit it and were excluded from the search)",
                self.property, sig, n
            );
        }
        let mut replay_paths = Vec::new();
        for v in &self.violations {
            let name = format!(
                "{}-{}-{:016x}.json",
                self.property,
                v.sub.replace(|c: char| !c.is_ascii_alphanumeric(), "_"),
                fnv(&format!("{}{}", v.signature, v.case))
            );
            let path = format!("{dir}/replays/{name}");
            let body = serde_json::to_string_pretty(v).unwrap_or_default();
            if std::fs::write(&path, body).is_err() {
                eprintln!("cannot write {path}");
            }
            println!("VIOLATION property={} replay={}", self.property, path);
            println!("  signature: {}", v.signature);
            println!("  {}", v.message.lines().take(12).collect::<Vec<_>>().join("\n  "));
            replay_paths.push(path);
            code = 1;
        }
        if code == 0 && !self.inconclusive.is_empty() {
            for m in &self.inconclusive {
                println!("INCONCLUSIVE property={} {}", self.property, m);
            }
            code = 2;
        }
        let mut coverage = Map::new();
        coverage.insert("evaluations".into(), json!(self.evaluations));
        coverage.insert("distinct_nontrivial".into(), json!(self.nontrivial.len()));
        coverage.insert("rule".into(), json!(self.rule));
        coverage.insert("samples".into(), Value::Array(std::mem::take(&mut self.samples)));
        if let Some(e) = self.exhaustive {
            coverage.insert("exhaustive".into(), json!(e));
        }
        coverage.insert("sub_checks".into(), Value::Object(std::mem::take(&mut self.sub_stats)));
        coverage.insert("classes".into(), json!(self.labels));
        coverage.insert("known_finding_cases_excluded".into(), json!(self.known_hits));
        coverage.insert("inconclusive".into(), json!(self.inconclusive));
        coverage.insert("replay_files".into(), json!(replay_paths));
        for (k, v) in std::mem::take(&mut self.extra) {
            coverage.insert(k, v);
        }
        let ev = json!({
            "property_id": self.property,
            "tier": self.tier.name(),
            "seed": self.seed,
            "level": "exploration",
            "coverage": coverage,
            "assumptions": self.assumptions,
            "wall_s": wall,
            "violations": self.violations.len(),
        });
        let path = format!("{dir}/evidence/{}.json", self.property);
        if let Err(e) = std::fs::write(&path, serde_json::to_string_pretty(&ev).unwrap_or_default()) {
            eprintln!("cannot write evidence {path}: {e}");
            return 2;
        }
        println!(
            "{} {} seed={} evaluations={} distinct_nontrivial={} violations={} known_hits={} wall={:.1}s -> exit {}",
            self.property,
            self.tier.name(),
            self.seed,
            self.evaluations,
            self.nontrivial.len(),
            self.violations.len(),
            self.known_hits.values().sum::<u64>(),
            wall,
            code
        );
        code
    }
}

fn run_chunk<S, F>(
    slot: usize,
    sub: &str,
    seed: u64,
    cases: u32,
    strategy: &S,
    oracle: &F,
    known: &BTreeSet<String>,
) -> (Acct, Option<(Fail, Value)>)
where
    S: Strategy,
    S::Value: Serialize + Debug + Clone,
    F: Fn(&S::Value, &mut Probe) -> Result<(), Fail>,
{
    let mut acct = Acct::default();
    if cases == 0 {
        return (acct, None);
    }
    if slot == 0 {
        if let Ok(mut g) = BEAT_SUB.lock() {
            *g = sub.to_string();
        }
    }
    let mut runner = runner(seed, cases);
    // We drive generation ourselves so that accounting and shrinking are
    // cleanly separated: generate a tree, evaluate its current value, and only
    // on failure enter the shrink loop (during which nothing is counted).
    for _ in 0..cases {
        let mut tree = match strategy.new_tree(&mut runner) {
            Ok(t) => t,
            Err(_) => continue,
        };
        let value = tree.current();
        acct.evaluations += 1;
        let mut probe = Probe::default();
        beat(slot, acct.evaluations, true);
        let r = run_oracle(|p| oracle(&value, p), &mut probe, &mut acct.harness_problems, &value);
        for l in probe.labels.drain(..) {
            *acct.labels.entry(l).or_default() += 1;
        }
        if probe.nontrivial {
            let key = probe
                .key
                .unwrap_or_else(|| hash64(&serde_json::to_string(&value).unwrap_or_default()));
            if acct.nontrivial.insert(key) && acct.samples.len() < 3 && acct.nontrivial.len() % 7 == 1 {
                acct.samples.push(serde_json::to_value(&value).unwrap_or(Value::Null));
            }
        }
        match r {
            Ok(()) => {}
            Err(fail) if known.contains(&fail.signature) => {
                *acct.known_hits.entry(fail.signature).or_default() += 1;
            }
            Err(fail) => {
                // shrink, keeping only failures that are not listed as known
                let mut best = (fail, value);
                let mut iters = 0;
                'shrink: loop {
                    if iters > 20_000 || !tree.simplify() {
                        break;
                    }
                    loop {
                        iters += 1;
                        let v = tree.current();
                        let mut p = Probe::default();
                        match run_oracle(|p| oracle(&v, p), &mut p, &mut Vec::new(), &v) {
                            Err(f) if !known.contains(&f.signature) => {
                                best = (f, v);
                                continue 'shrink;
                            }
                            _ => {
                                if iters > 20_000 || !tree.complicate() {
                                    break 'shrink;
                                }
                            }
                        }
                    }
                }
                let (fail, v) = best;
                let json = serde_json::to_value(&v).unwrap_or(Value::Null);
                beat_idle(slot);
                return (acct, Some((fail, json)));
            }
        }
    }
    beat_idle(slot);
    (acct, None)
}

#[must_use]
pub fn load_known_findings() -> Vec<KnownFinding> {
    let dir = std::env::var("VERIF_DIR").unwrap_or_else(|_| VERIF_DIR.to_string());
    let Ok(text) = std::fs::read_to_string(format!("{dir}/known_findings.jsonl")) else {
        return Vec::new();
    };
    text.lines()
        .filter(|l| !l.trim().is_empty())
        .filter_map(|l| serde_json::from_str::<KnownFinding>(l).ok())
        .collect()
}

/// Map a 16-bit index monotonically onto `0..len` (shrinks towards 0).
#[must_use]
pub fn idx(i: u16, len: usize) -> usize {
    if len == 0 {
        0
    } else {
        (usize::from(i) * len) >> 16
    }
}
