//! RNG instruments: the random stream handed to the code under test is itself
//! a generated input or an observable.

use rand::rngs::StdRng;
use rand::{RngCore, SeedableRng};

use crate::splitmix;

/// Counts the words drawn; cloneable so two runs can start from equal states.
#[derive(Clone, Debug)]
pub struct Counting {
    inner: StdRng,
    pub words: u64,
    /// rolling hash of the sequence of entry points used (next_u32 / next_u64 / fill_bytes(len))
    pub calls: u64,
}

/// Observable post-state of a `Counting` generator: how much was drawn, through which entry
/// points (hash of the call sequence), and the next word.
#[derive(Clone, Copy, Debug, PartialEq, Eq)]
pub struct Fp {
    pub words: u64,
    pub next: u64,
    pub calls: u64,
}

impl Counting {
    #[must_use]
    pub fn new(seed: u64) -> Self {
        Self {
            inner: StdRng::seed_from_u64(seed),
            words: 0,
            calls: 0,
        }
    }
    /// Observable post-state: words drawn so far, the next word, and the call-sequence hash.
    pub fn fingerprint(&mut self) -> Fp {
        Fp { words: self.words, next: self.inner.next_u64(), calls: self.calls }
    }
    fn note(&mut self, kind: u64, len: u64) {
        self.calls = splitmix(self.calls ^ (kind << 56) ^ len);
    }
}

impl RngCore for Counting {
    fn next_u32(&mut self) -> u32 {
        self.words += 1;
        self.note(1, 0);
        self.inner.next_u32()
    }
    fn next_u64(&mut self) -> u64 {
        self.words += 1;
        self.note(2, 0);
        self.inner.next_u64()
    }
    fn fill_bytes(&mut self, dst: &mut [u8]) {
        self.words += (dst.len() as u64).div_ceil(8);
        self.note(3, dst.len() as u64);
        self.inner.fill_bytes(dst);
    }
}

pub const DRAW_STYLES: u8 = 20;

/// Draw from a generator through one of its entry points or one of rand's higher-level helpers
/// (chosen by `style`); returns a digest of what was drawn.  Probe implementations use this so
/// that wrappers and adapters around a generator are exercised through every path.
pub fn draw_mix<R: rand::Rng + ?Sized>(rng: &mut R, style: u8) -> u64 {
    use rand::seq::SliceRandom;
    let fill = |rng: &mut R, n: usize| -> u64 {
        let mut buf = vec![0u8; n];
        rng.fill_bytes(&mut buf);
        buf.iter().fold(n as u64, |h, b| splitmix(h ^ u64::from(*b)))
    };
    match style % DRAW_STYLES {
        0 => rng.next_u64(),
        1 => u64::from(rng.next_u32()),
        2 => fill(rng, 0),
        3 => fill(rng, 1),
        4 => fill(rng, 3),
        5 => fill(rng, 4),
        6 => fill(rng, 5),
        7 => fill(rng, 8),
        8 => fill(rng, 9),
        9 => fill(rng, 16),
        10 => fill(rng, 33),
        11 => u64::from(rng.random_range(0..10u8)),
        12 => u64::from(rng.random_bool(0.3)),
        13 => {
            let x: u128 = rng.random();
            (x as u64) ^ ((x >> 64) as u64)
        }
        14 => rng.random::<f64>().to_bits(),
        15 => {
            let mut v = [1u8, 2, 3, 4, 5, 6, 7];
            v.shuffle(rng);
            v.iter().fold(0u64, |h, b| h * 8 + u64::from(*b))
        }
        16 => u64::from(rng.random::<u16>()),
        17 => {
            let mut a = [0u8; 3];
            rng.fill(&mut a);
            u64::from(a[0]) << 16 | u64::from(a[1]) << 8 | u64::from(a[2])
        }
        18 => rng.random_range(0..=u64::MAX - 3),
        _ => fill(rng, 2) ^ rng.next_u64() ^ u64::from(rng.next_u32()),
    }
}

/// Replays a generated script of words, then continues with a SplitMix stream.
/// `next_u32` takes the *high* half of a script word so that range sampling
/// (which uses widening multiplication) maps script words monotonically onto
/// outcomes, which keeps shrinking meaningful.
#[derive(Clone, Debug)]
pub struct ScriptRng {
    script: Vec<u64>,
    pos: usize,
    state: u64,
    pub words: u64,
}

impl ScriptRng {
    #[must_use]
    pub fn new(script: &[u64], tail_seed: u64) -> Self {
        Self {
            script: script.to_vec(),
            pos: 0,
            state: tail_seed,
            words: 0,
        }
    }
}

impl RngCore for ScriptRng {
    fn next_u32(&mut self) -> u32 {
        (self.next_u64() >> 32) as u32
    }
    fn next_u64(&mut self) -> u64 {
        self.words += 1;
        if self.pos < self.script.len() {
            let w = self.script[self.pos];
            self.pos += 1;
            w
        } else {
            self.state = self.state.wrapping_add(0x9E37_79B9_7F4A_7C15);
            splitmix(self.state)
        }
    }
    fn fill_bytes(&mut self, dst: &mut [u8]) {
        for chunk in dst.chunks_mut(8) {
            let w = self.next_u64().to_le_bytes();
            chunk.copy_from_slice(&w[..chunk.len()]);
        }
    }
}

#[must_use]
pub fn std_rng(seed: u64) -> StdRng {
    StdRng::seed_from_u64(seed)
}

/// Words of a generated random stream: mostly arbitrary, with a share of extreme words (all ones, all
/// zeros, one half all ones, a single bit) - thresholds and widening multiplications behave differently
/// there, and a real generator produces them too rarely to be found by chance.
pub fn script_word() -> impl proptest::strategy::Strategy<Value = u64> {
    use proptest::prelude::*;
    prop_oneof![
        12 => any::<u64>(),
        1 => Just(u64::MAX),
        1 => Just(0u64),
        1 => Just(0xFFFF_FFFF_0000_0000u64),
        1 => Just(0x0000_0000_FFFF_FFFFu64),
        1 => prop::sample::select(vec![1u64, 1 << 31, 1 << 32, 1 << 63, u64::MAX - 1, 0xFFFF_FFFE_FFFF_FFFF, 0x7FFF_FFFF_FFFF_FFFF, 0x0000_FFFF_0000_FFFF]),
    ]
}

/// A generated script of up to `max` words (see `script_word`); a tenth of the scripts repeat one word.
pub fn script_strategy(max: usize) -> impl proptest::strategy::Strategy<Value = Vec<u64>> {
    use proptest::prelude::*;
    prop_oneof![
        9 => prop::collection::vec(script_word(), 0..max),
        1 => (script_word(), 0..max).prop_map(|(w, n)| vec![w; n]),
    ]
}
