//! RNG instruments: the random stream handed to the code under test is itself
//! a generated input or an observable.

use rand::rngs::StdRng;
use rand::{RngCore, SeedableRng};

use crate::splitmix;

/// Counts the words drawn; cloneable so two runs can start from equal states.
#[derive(Clone, Debug)]
pub struct Counting {
    inner: StdRng,
    pub words: u64,
}

impl Counting {
    #[must_use]
    pub fn new(seed: u64) -> Self {
        Self {
            inner: StdRng::seed_from_u64(seed),
            words: 0,
        }
    }
    /// Observable post-state: (words drawn so far, the next word).
    pub fn fingerprint(&mut self) -> (u64, u64) {
        let w = self.words;
        (w, self.inner.next_u64())
    }
}

impl RngCore for Counting {
    fn next_u32(&mut self) -> u32 {
        self.words += 1;
        self.inner.next_u32()
    }
    fn next_u64(&mut self) -> u64 {
        self.words += 1;
        self.inner.next_u64()
    }
    fn fill_bytes(&mut self, dst: &mut [u8]) {
        self.words += (dst.len() as u64).div_ceil(8);
        self.inner.fill_bytes(dst);
    }
}

/// Replays a generated script of words, then continues with a SplitMix stream.
/// `next_u32` takes the *high* half of a script word so that range sampling
/// (which uses widening multiplication) maps script words monotonically onto
/// outcomes, which keeps shrinking meaningful.
#[derive(Clone, Debug)]
pub struct ScriptRng {
    script: Vec<u64>,
    pos: usize,
    state: u64,
    pub words: u64,
}

impl ScriptRng {
    #[must_use]
    pub fn new(script: &[u64], tail_seed: u64) -> Self {
        Self {
            script: script.to_vec(),
            pos: 0,
            state: tail_seed,
            words: 0,
        }
    }
}

impl RngCore for ScriptRng {
    fn next_u32(&mut self) -> u32 {
        (self.next_u64() >> 32) as u32
    }
    fn next_u64(&mut self) -> u64 {
        self.words += 1;
        if self.pos < self.script.len() {
            let w = self.script[self.pos];
            self.pos += 1;
            w
        } else {
            self.state = self.state.wrapping_add(0x9E37_79B9_7F4A_7C15);
            splitmix(self.state)
        }
    }
    fn fill_bytes(&mut self, dst: &mut [u8]) {
        for chunk in dst.chunks_mut(8) {
            let w = self.next_u64().to_le_bytes();
            chunk.copy_from_slice(&w[..chunk.len()]);
        }
    }
}

#[must_use]
pub fn std_rng(seed: u64) -> StdRng {
    StdRng::seed_from_u64(seed)
}
