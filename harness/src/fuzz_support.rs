//! Shared plumbing of the libFuzzer targets: silent panic hook, known-finding
//! allowlist (a listed finding must not stop the campaign), violation report.

use std::sync::OnceLock;

use crate::model::real::Tables;
use crate::Fail;

static KNOWN: OnceLock<Vec<(String, String)>> = OnceLock::new();

pub fn init() {
    static ONCE: OnceLock<()> = OnceLock::new();
    ONCE.get_or_init(|| {
        crate::install_panic_hook();
        KNOWN.get_or_init(|| {
            crate::load_known_findings()
                .into_iter()
                .filter(|k| k.status == "known")
                .map(|k| (k.property, k.signature))
                .collect()
        });
    });
}

pub fn with_tables<R>(f: impl FnOnce(&Tables) -> R) -> R {
    thread_local! { static T: Tables = Tables::build(); }
    T.with(|t| f(t))
}

/// Abort the fuzzing process (libFuzzer then saves the input) unless the finding is listed as known.
pub fn report(property: &str, f: &Fail) {
    let known = KNOWN.get().is_some_and(|k| k.iter().any(|(_, s)| *s == f.signature));
    if known {
        return;
    }
    eprintln!("FUZZ-VIOLATION property={property} signature={} :: {}", f.signature, f.message.lines().next().unwrap_or(""));
    std::process::abort();
}
