//! The statistical decision rule of DESIGN.md §1: a count k of N trials with an
//! exactly known success probability p is flagged when N*KL(k/N || p) > ln(2/alpha)
//! (Chernoff bound, valid for all N).  p = 0 and p = 1 are decided exactly.

pub const ALPHA: f64 = 1e-12;

#[must_use]
pub fn kl(q: f64, p: f64) -> f64 {
    let term = |a: f64, b: f64| if a <= 0.0 { 0.0 } else { a * (a / b).ln() };
    term(q, p) + term(1.0 - q, 1.0 - p)
}

/// true = the observation is incompatible with p at level alpha
#[must_use]
pub fn flags(k: u64, n: u64, p: f64, alpha: f64) -> bool {
    if n == 0 {
        return false;
    }
    if p <= 0.0 {
        return k > 0;
    }
    if p >= 1.0 {
        return k < n;
    }
    let q = k as f64 / n as f64;
    (n as f64) * kl(q, p) > (2.0 / alpha).ln()
}

/// Smallest absolute deviation from p that N trials would flag (reported in evidence).
#[must_use]
pub fn resolution(n: u64, p: f64, alpha: f64) -> f64 {
    let thr = (2.0 / alpha).ln() / n as f64;
    let mut lo = 0.0;
    let mut hi = (1.0 - p).max(p);
    for _ in 0..60 {
        let mid = (lo + hi) / 2.0;
        let q = if p + mid < 1.0 { p + mid } else { p - mid };
        if kl(q, p) > thr {
            hi = mid;
        } else {
            lo = mid;
        }
    }
    hi
}

/// One named count with its law.
#[derive(Clone, Debug, serde::Serialize)]
pub struct Count {
    pub name: String,
    pub k: u64,
    pub n: u64,
    pub p: f64,
}

impl Count {
    #[must_use]
    pub fn flagged(&self) -> bool {
        flags(self.k, self.n, self.p, ALPHA)
    }
    #[must_use]
    pub fn z(&self) -> f64 {
        let n = self.n as f64;
        let sd = (n * self.p * (1.0 - self.p)).sqrt();
        if sd == 0.0 {
            0.0
        } else {
            (self.k as f64 - n * self.p) / sd
        }
    }
}

#[must_use]
pub fn binom(n: u64, k: u64) -> f64 {
    if k > n {
        return 0.0;
    }
    let mut r = 1.0;
    for i in 0..k {
        r = r * (n - i) as f64 / (i + 1) as f64;
    }
    r
}
