//! The statistical decision rule of DESIGN.md §1: a count k of N trials with an
//! exactly known success probability p is flagged when N*KL(k/N || p) > ln(2/alpha)
//! (Chernoff bound, valid for all N).  p = 0 and p = 1 are decided exactly.

pub const ALPHA: f64 = 1e-12;

#[must_use]
pub fn kl(q: f64, p: f64) -> f64 {
    let term = |a: f64, b: f64| if a <= 0.0 { 0.0 } else { a * (a / b).ln() };
    term(q, p) + term(1.0 - q, 1.0 - p)
}

/// true = the observation is incompatible with p at level alpha
#[must_use]
pub fn flags(k: u64, n: u64, p: f64, alpha: f64) -> bool {
    if n == 0 {
        return false;
    }
    if p <= 0.0 {
        return k > 0;
    }
    if p >= 1.0 {
        return k < n;
    }
    let q = k as f64 / n as f64;
    (n as f64) * kl(q, p) > (2.0 / alpha).ln()
}

/// Smallest absolute deviation from p that N trials would flag (reported in evidence).
#[must_use]
pub fn resolution(n: u64, p: f64, alpha: f64) -> f64 {
    let thr = (2.0 / alpha).ln() / n as f64;
    let mut lo = 0.0;
    let mut hi = (1.0 - p).max(p);
    for _ in 0..60 {
        let mid = (lo + hi) / 2.0;
        let q = if p + mid < 1.0 { p + mid } else { p - mid };
        if kl(q, p) > thr {
            hi = mid;
        } else {
            lo = mid;
        }
    }
    hi
}

/// One named count with its law.
#[derive(Clone, Debug, serde::Serialize)]
pub struct Count {
    pub name: String,
    pub k: u64,
    pub n: u64,
    pub p: f64,
}

impl Count {
    #[must_use]
    pub fn flagged(&self) -> bool {
        flags(self.k, self.n, self.p, ALPHA)
    }
    #[must_use]
    pub fn z(&self) -> f64 {
        let n = self.n as f64;
        let sd = (n * self.p * (1.0 - self.p)).sqrt();
        if sd == 0.0 {
            0.0
        } else {
            (self.k as f64 - n * self.p) / sd
        }
    }
}

#[must_use]
pub fn binom(n: u64, k: u64) -> f64 {
    if k > n {
        return 0.0;
    }
    let mut r = 1.0;
    for i in 0..k {
        r = r * (n - i) as f64 / (i + 1) as f64;
    }
    r
}

// ---------------------------------------------------------------- job runner

use rayon::prelude::*;
use serde_json::json;

use crate::{derive_seed, fnv, Ctx, Fail};

/// A named statistic with the root-cause signature used if it is flagged.
#[derive(Clone, Debug)]
pub struct Stat {
    pub signature: String,
    pub count: Count,
}

impl Stat {
    pub fn new(signature: impl Into<String>, name: impl Into<String>, k: u64, n: u64, p: f64) -> Self {
        Self {
            signature: signature.into(),
            count: Count {
                name: name.into(),
                k,
                n,
                p,
            },
        }
    }
}

/// One configuration: `run(trials, seed)` performs `trials` independent seeded
/// trials and returns its statistics (or a hard failure such as a panic).
pub struct Job {
    pub name: String,
    pub run: Box<dyn Fn(u64, u64) -> Result<Vec<Stat>, Fail> + Send + Sync>,
}

/// Runs all jobs in parallel.  A flagged statistic is re-sampled once with 8x
/// the trials from an independent seed and reported only if it flags again.
const HARNESS_PANIC: &str = "harness-panic";

/// A job that panics: inside the code under test it is a violation (a statistical job has no other way to
/// say so), inside the harness it makes the run inconclusive - never a crash of the whole check.
fn run_guarded(job: &Job, trials: u64, seed: u64) -> Result<Vec<Stat>, Fail> {
    match crate::guarded(|| (job.run)(trials, seed)) {
        Ok(r) => r,
        Err(desc) => {
            if desc.contains(&format!("{}/", crate::repo_dir())) || desc.contains("/repo/") {
                let what = job.name.split([' ', '(']).next().unwrap_or("job");
                Err(Fail::new(format!("{what}/panic:{}", crate::panic_key(&desc)), format!("{}: the code under test panicked: {desc}", job.name)))
            } else {
                Err(Fail::new(HARNESS_PANIC, format!("the harness itself panicked in job {}: {desc}", job.name)))
            }
        }
    }
}

pub fn run_jobs(ctx: &mut Ctx, sub: &str, jobs: Vec<Job>, trials: u64) {
    let seed = ctx.seed;
    let property = ctx.property.clone();
    let t0 = std::time::Instant::now();
    let results: Vec<(String, Result<(Vec<Stat>, Vec<(Stat, Stat)>), Fail>)> = jobs
        .par_iter()
        .map(|job| {
            let s1 = derive_seed(seed, &property, &job.name, 1);
            let r = run_guarded(job, trials, s1).and_then(|stats| {
                let flagged: Vec<&Stat> = stats.iter().filter(|s| s.count.flagged()).collect();
                let mut confirmed = vec![];
                if !flagged.is_empty() {
                    let s2 = derive_seed(seed, &property, &job.name, 2);
                    let again = run_guarded(job, trials * 8, s2)?;
                    for f in flagged {
                        if let Some(a) = again.iter().find(|a| a.count.name == f.count.name) {
                            if a.count.flagged() {
                                confirmed.push((f.clone(), a.clone()));
                            }
                        }
                    }
                }
                Ok((stats, confirmed))
            });
            (job.name.clone(), r)
        })
        .collect();
    let mut table = vec![];
    let mut max_abs_z: f64 = 0.0;
    let mut n_counts = 0u64;
    for (job, r) in results {
        match r {
            Err(f) if f.signature == HARNESS_PANIC => {
                if ctx.inconclusive.len() < 8 {
                    ctx.inconclusive.push(format!("{sub}: {}", f.message));
                }
            }
            Err(f) => ctx.violation(sub, &f, json!({"job": job})),
            Ok((stats, confirmed)) => {
                ctx.count(sub, trials);
                for s in &stats {
                    n_counts += 1;
                    if s.count.p > 0.0 && s.count.p < 1.0 {
                        ctx.note_nontrivial(fnv(&format!("{sub}/{job}/{}", s.count.name)));
                        max_abs_z = max_abs_z.max(s.count.z().abs());
                    }
                    {
                        table.push(json!({"job": job, "stat": s.count.name, "k": s.count.k, "n": s.count.n, "p": s.count.p, "z": (s.count.z() * 100.0).round() / 100.0}));
                    }
                }
                if ctx_samples_wanted(ctx, sub) {
                    // prefer a statistic with a non-degenerate law as the sample
                    if let Some(s) = stats.iter().find(|s| s.count.p > 0.0 && s.count.p < 1.0) {
                        ctx.add_sample(json!({"sub": sub, "job": job, "statistic": {"name": s.count.name, "k": s.count.k, "n": s.count.n, "p": s.count.p}}));
                    }
                }
                for (first, again) in confirmed {
                    let f = Fail::new(
                        first.signature.clone(),
                        format!(
                            "{job}: {}: observed {} of {} (frequency {:.5}) where the law prescribes {:.5}; re-sampled with an independent seed: {} of {} (frequency {:.5}). Flag rule: N*KL(k/N || p) > ln(2/1e-12), both stages.",
                            first.count.name,
                            first.count.k,
                            first.count.n,
                            first.count.k as f64 / first.count.n as f64,
                            first.count.p,
                            again.count.k,
                            again.count.n,
                            again.count.k as f64 / again.count.n as f64
                        ),
                    );
                    ctx.violation(sub, &f, json!({"job": job, "stat": first.count.name, "trials": trials}));
                }
            }
        }
    }
    // keep the 150 most deviating statistics and an evenly spaced sample of the rest
    table.sort_by(|a, b| b["z"].as_f64().unwrap_or(0.0).abs().total_cmp(&a["z"].as_f64().unwrap_or(0.0).abs()));
    let stride = (table.len() / 150).max(1);
    let table: Vec<_> = table.iter().enumerate().filter(|(i, _)| *i < 150 || i % stride == 0).map(|(_, v)| v.clone()).collect();
    ctx.extra.insert(format!("{sub}_statistics"), json!(table));
    ctx.extra.insert(
        format!("{sub}_summary"),
        json!({"counts": n_counts, "trials_per_job": trials, "max_abs_z_among_0<p<1": (max_abs_z * 100.0).round() / 100.0, "alpha_per_count": ALPHA, "resolution_at_p_0.5": resolution(trials, 0.5, ALPHA), "wall_s": t0.elapsed().as_secs_f64()}),
    );
}

fn ctx_samples_wanted(_ctx: &Ctx, _sub: &str) -> bool {
    true
}
