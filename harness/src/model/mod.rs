pub mod real;
pub mod vm;
