//! Bridge between the model's instruction vocabulary and the crate's real
//! instruction values.  Real variants are obtained from the crate's public
//! `strum::IntoEnumIterator` impls (the payload types of the "common"
//! instructions live in a private module and cannot be named from here), and
//! classified by pattern matching; an unknown variant is reported as uncovered.

use ordered_float::OrderedFloat;
use push::instruction::printing::{Print, PrintLn, PrintString};
use push::instruction::variable_name::VariableName;
use push::instruction::{BoolInstruction, ExecInstruction, FloatInstruction, IntInstruction, PushInstruction};
use push::push_vm::program::PushProgram;
use push::push_vm::push_state::PushState;
use push::push_vm::stack::StackError;
use push::push_vm::HasStack;
use strum::IntoEnumIterator;

use super::vm::{BoolOp, Common, ExecOp, FloatOp, Ins, IntOp, Lit, Prog, F, M};

#[must_use]
pub fn classify_int(i: &IntInstruction) -> Option<IntOp> {
    use IntInstruction as R;
    use IntOp as O;
    Some(match i {
        R::Pop(_) => O::C(Common::Pop),
        R::Push(_) => return None, // literal: handled as Ins::PushInt
        R::Dup(_) => O::C(Common::Dup),
        R::Swap(_) => O::C(Common::Swap),
        R::IsEmpty(_) => O::C(Common::IsEmpty),
        R::StackDepth(_) => O::C(Common::StackDepth),
        R::Flush(_) => O::C(Common::Flush),
        R::Print(_) => O::Print,
        R::PrintLn(_) => O::PrintLn,
        R::Negate(_) => O::Negate,
        R::Abs(_) => O::Abs,
        R::Min => O::Min,
        R::Max => O::Max,
        R::Clamp(_) => O::Clamp,
        R::Inc => O::Inc,
        R::Dec => O::Dec,
        R::Add => O::Add,
        R::Subtract => O::Subtract,
        R::Multiply => O::Multiply,
        R::ProtectedDivide => O::ProtectedDivide,
        R::Mod => O::Mod,
        R::Power => O::Power,
        R::Square => O::Square,
        R::IsZero => O::IsZero,
        R::IsPositive => O::IsPositive,
        R::IsNegative => O::IsNegative,
        R::IsEven => O::IsEven,
        R::IsOdd => O::IsOdd,
        R::Equal => O::Equal,
        R::NotEqual => O::NotEqual,
        R::LessThan => O::LessThan,
        R::LessThanEqual => O::LessThanEqual,
        R::GreaterThan => O::GreaterThan,
        R::GreaterThanEqual => O::GreaterThanEqual,
        R::FromBoolean => O::FromBoolean,
        R::FromFloatApprox => O::FromFloatApprox,
        _ => return None,
    })
}

#[must_use]
pub fn classify_float(i: &FloatInstruction) -> Option<FloatOp> {
    use FloatInstruction as R;
    use FloatOp as O;
    Some(match i {
        R::Pop(_) => O::C(Common::Pop),
        R::Push(_) => return None,
        R::Dup(_) => O::C(Common::Dup),
        R::Swap(_) => O::C(Common::Swap),
        R::IsEmpty(_) => O::C(Common::IsEmpty),
        R::StackDepth(_) => O::C(Common::StackDepth),
        R::Flush(_) => O::C(Common::Flush),
        R::Print(_) => O::Print,
        R::PrintLn(_) => O::PrintLn,
        R::Add => O::Add,
        R::Subtract => O::Subtract,
        R::Multiply => O::Multiply,
        R::ProtectedDivide => O::ProtectedDivide,
        R::Equal => O::Equal,
        R::NotEqual => O::NotEqual,
        R::GreaterThan => O::GreaterThan,
        R::LessThan => O::LessThan,
        R::GreaterThanOrEqual => O::GreaterThanOrEqual,
        R::LessThanOrEqual => O::LessThanOrEqual,
        R::FromIntApprox => O::FromIntApprox,
        _ => return None,
    })
}

#[must_use]
pub fn classify_bool(i: &BoolInstruction) -> Option<BoolOp> {
    use BoolInstruction as R;
    use BoolOp as O;
    Some(match i {
        R::Pop(_) => O::C(Common::Pop),
        R::Push(_) => return None,
        R::Dup(_) => O::C(Common::Dup),
        R::Swap(_) => O::C(Common::Swap),
        R::IsEmpty(_) => O::C(Common::IsEmpty),
        R::StackDepth(_) => O::C(Common::StackDepth),
        R::Flush(_) => O::C(Common::Flush),
        R::Print(_) => O::Print,
        R::Println(_) => O::PrintLn,
        R::Not => O::Not,
        R::Or => O::Or,
        R::And => O::And,
        R::Xor => O::Xor,
        R::Implies => O::Implies,
        R::FromInt => O::FromInt,
        _ => return None,
    })
}

#[must_use]
pub fn classify_exec(i: &ExecInstruction) -> Option<ExecOp> {
    use ExecInstruction as R;
    use ExecOp as O;
    Some(match i {
        R::Pop(_) => O::C(Common::Pop),
        R::Push(_) => return None,
        R::Dup(_) => O::C(Common::Dup),
        R::Swap(_) => O::C(Common::Swap),
        R::IsEmpty(_) => O::C(Common::IsEmpty),
        R::StackDepth(_) => O::C(Common::StackDepth),
        R::Flush(_) => O::C(Common::Flush),
        R::Noop(_) => O::Noop,
        R::DupBlock(_) => O::DupBlock,
        R::When(_) => O::When,
        R::Unless(_) => O::Unless,
        R::IfElse(_) => O::IfElse,
    })
}

/// All model ops of the four enums together with the real value, plus the
/// names of real variants the model has no row for.
pub struct Tables {
    pub int: Vec<(IntOp, IntInstruction)>,
    pub float: Vec<(FloatOp, FloatInstruction)>,
    pub boolean: Vec<(BoolOp, BoolInstruction)>,
    pub exec: Vec<(ExecOp, ExecInstruction)>,
    pub exec_push_template: Option<ExecInstruction>,
    pub uncovered: Vec<String>,
}

impl Tables {
    #[must_use]
    pub fn build() -> Self {
        let mut t = Self {
            int: vec![],
            float: vec![],
            boolean: vec![],
            exec: vec![],
            exec_push_template: None,
            uncovered: vec![],
        };
        for i in IntInstruction::iter() {
            match classify_int(&i) {
                Some(op) => t.int.push((op, i)),
                None if matches!(i, IntInstruction::Push(_)) => {}
                None => t.uncovered.push(format!("Int-{i}")),
            }
        }
        for i in FloatInstruction::iter() {
            match classify_float(&i) {
                Some(op) => t.float.push((op, i)),
                None if matches!(i, FloatInstruction::Push(_)) => {}
                None => t.uncovered.push(format!("Float-{i}")),
            }
        }
        for i in BoolInstruction::iter() {
            match classify_bool(&i) {
                Some(op) => t.boolean.push((op, i)),
                None if matches!(i, BoolInstruction::Push(_)) => {}
                None => t.uncovered.push(format!("Bool-{i}")),
            }
        }
        for i in ExecInstruction::iter() {
            match classify_exec(&i) {
                Some(op) => t.exec.push((op, i)),
                None if matches!(i, ExecInstruction::Push(_)) => t.exec_push_template = Some(i),
                None => t.uncovered.push(format!("Exec-{i}")),
            }
        }
        t
    }

    #[must_use]
    pub fn all_ops(&self) -> Vec<Ins> {
        let mut v: Vec<Ins> = vec![];
        v.extend(self.int.iter().map(|(o, _)| Ins::Int(*o)));
        v.extend(self.float.iter().map(|(o, _)| Ins::Flt(*o)));
        v.extend(self.boolean.iter().map(|(o, _)| Ins::Bool(*o)));
        v.extend(self.exec.iter().map(|(o, _)| Ins::Exec(*o)));
        v
    }

    /// Real instruction for a model instruction.
    #[must_use]
    pub fn real(&self, i: &Ins) -> Option<PushInstruction> {
        Some(match i {
            Ins::Int(op) => self.int.iter().find(|(o, _)| o == op)?.1.into(),
            Ins::Flt(op) => self.float.iter().find(|(o, _)| o == op)?.1.into(),
            Ins::Bool(op) => self.boolean.iter().find(|(o, _)| o == op)?.1.clone().into(),
            Ins::Exec(op) => self.exec.iter().find(|(o, _)| o == op)?.1.clone().into(),
            Ins::PushInt(v) => PushInstruction::push_int(*v),
            Ins::PushFloat(v) => PushInstruction::push_float(OrderedFloat(v.v())),
            Ins::PushBool(v) => PushInstruction::push_bool(*v),
            Ins::PushExec(p) => {
                let mut template = self.exec_push_template.clone()?;
                if let ExecInstruction::Push(b) = &mut template {
                    b.0 = self.program(p)?;
                }
                template.into()
            }
            Ins::Input(n) => PushInstruction::InputVar(VariableName::from(input_name(*n).as_str())),
            Ins::PrintSpace => PushInstruction::PrintSpace(push::instruction::printing::PrintSpace::new()),
            Ins::PrintNewline => PushInstruction::PrintNewline(push::instruction::printing::PrintNewline::new()),
            Ins::PrintPeriod => PushInstruction::PrintPeriod(push::instruction::printing::PrintPeriod::new()),
            Ins::PrintString(s) => PushInstruction::PrintString(PrintString::new(s.clone())),
        })
    }

    #[must_use]
    pub fn program(&self, p: &Prog) -> Option<PushProgram> {
        Some(match p {
            Prog::I(i) => PushProgram::Instruction(self.real(i)?),
            Prog::B(v) => PushProgram::Block(v.iter().map(|q| self.program(q)).collect::<Option<Vec<_>>>()?),
        })
    }
}

thread_local! {
    /// naming style of the input variables of the case being built (set by `VmCase::real_with_order`)
    static NAME_STYLE: std::cell::Cell<u64> = const { std::cell::Cell::new(0) };
    /// how many unrelated, never-seen variable names `real_with_order` creates between building the program
    /// and declaring the inputs (C16: what other names the process has created must not matter)
    pub static OTHER_NAMES: std::cell::Cell<u32> = const { std::cell::Cell::new(0) };
    static OTHER_NAMES_SALT: std::cell::Cell<u64> = const { std::cell::Cell::new(0) };
}

/// Input variable names: short ones, and long ones (40 and 70 bytes) that differ from each other in a
/// single byte whose position varies from case to case - names are looked up by their full text,
/// whatever their length and however similar they are.
#[must_use]
pub fn input_name(n: u8) -> String {
    let style = NAME_STYLE.with(std::cell::Cell::get);
    let long = |len: usize| {
        let mut b: Vec<u8> = "input_variable_of_the_generated_case_with_a_rather_long_name_to_tell_apart".bytes().cycle().take(len).collect();
        let p = 1 + ((style / 4) as usize % (len - 2));
        b[p] = b'A' + n % 26;
        String::from_utf8(b).unwrap_or_default()
    };
    match style % 6 {
        0 => format!("v{n}"),
        1 => long(40),
        2 => long(70),
        3 => format!("in put-\u{df}{n}"),
        // names of different lengths in which the longer one sorts first as text ("in10" < "in2", "aa" < "b"),
        // and names that are prefixes of each other: length-first and text-first orders disagree on them
        4 => ["in10", "in2", "in1", "in100", "in3", "in20"][usize::from(n) % 6].to_string(),
        _ => ["aa", "b", "a", "ab", "aaa", "ba"][usize::from(n) % 6].to_string(),
    }
}

/// Keep `Print`/`PrintLn` constructors referenced so that a signature change shows up at build time.
#[must_use]
pub fn print_markers() -> (Print<i64>, PrintLn<bool>) {
    (Print::new(), PrintLn::new())
}

/// A machine configuration before evaluation; sizes never exceed maxima
/// (such states are not reachable through the builder, see DESIGN C01 L).
#[derive(Clone, Debug, serde::Serialize, serde::Deserialize)]
pub struct VmCase {
    /// single-step mode: an instruction (or block) performed directly on the
    /// state via `Instruction::perform`, not taken from the exec stack
    #[serde(default)]
    pub instr: Option<Prog>,
    /// exec stack, *top first* (i.e. the program in execution order)
    pub exec: Vec<Prog>,
    /// bottom first
    pub int: Vec<i64>,
    pub float: Vec<F>,
    pub boolean: Vec<bool>,
    pub max_exec: usize,
    pub max_int: usize,
    pub max_float: usize,
    pub max_bool: usize,
    pub inputs: Vec<Lit>,
    pub steps: usize,
}

impl VmCase {
    /// Make the case well-formed (used after generation and after shrinking):
    /// maxima at least the sizes, input indices in range.
    pub fn normalise(&mut self) {
        self.max_exec = self.max_exec.max(self.exec.len());
        self.max_int = self.max_int.max(self.int.len());
        self.max_float = self.max_float.max(self.float.len());
        self.max_bool = self.max_bool.max(self.boolean.len());
        let n = self.inputs.len();
        fn fix(p: &mut Prog, n: usize) {
            match p {
                Prog::I(Ins::Input(i)) => {
                    if n == 0 {
                        *p = Prog::I(Ins::Exec(ExecOp::Noop));
                    } else {
                        *i = (usize::from(*i) % n) as u8;
                    }
                }
                Prog::I(Ins::PushExec(q)) => fix(q, n),
                Prog::I(_) => {}
                Prog::B(v) => v.iter_mut().for_each(|q| fix(q, n)),
            }
        }
        self.exec.iter_mut().for_each(|p| fix(p, n));
        if let Some(p) = self.instr.as_mut() {
            fix(p, n);
        }
    }

    #[must_use]
    pub fn model(&self) -> M {
        let mut m = M::new(self.max_exec, self.max_int, self.max_float, self.max_bool);
        m.exec = self.exec.iter().rev().cloned().collect();
        m.int = self.int.clone();
        m.float = self.float.clone();
        m.boolean = self.boolean.clone();
        m.inputs = self.inputs.clone();
        m
    }

    /// Build the real state through the public builder (program, inputs, step
    /// limit) and the public `HasStack` accessors (typed stack contents and
    /// their individual maxima).
    pub fn real(&self, t: &Tables, steps: usize) -> Result<PushState, String> {
        self.real_with_order(t, steps, None)
    }

    /// Like `real`, declaring the inputs in the given order (a permutation of their indices).
    pub fn real_with_order(&self, t: &Tables, steps: usize, order: Option<&[usize]>) -> Result<PushState, String> {
        // the naming style is a function of the case, so every state built for it uses the same names
        NAME_STYLE.with(|s| s.set((self.inputs.len() as u64).wrapping_mul(5).wrapping_add((self.max_int as u64).wrapping_mul(3)).wrapping_add((self.max_bool as u64).wrapping_mul(7)).wrapping_add((self.int.len() as u64).wrapping_mul(11))));
        let program: Vec<PushProgram> = self
            .exec
            .iter()
            .map(|p| t.program(p))
            .collect::<Option<Vec<_>>>()
            .ok_or("instruction without a real counterpart")?;
        let unrelated = OTHER_NAMES.with(std::cell::Cell::get);
        if unrelated > 0 {
            let salt = OTHER_NAMES_SALT.with(|s| {
                let v = s.get();
                s.set(v + 1);
                v
            });
            let thread = format!("{:?}", std::thread::current().id());
            for i in 0..unrelated {
                let _ = VariableName::from(format!("unrelated {thread} {salt} {i}").as_str());
            }
        }
        let default_order: Vec<usize> = (0..self.inputs.len()).collect();
        macro_rules! bind_inputs {
            ($b:ident) => {
                for &n in order.unwrap_or(&default_order) {
                    let Some(l) = self.inputs.get(n) else { continue };
                    let name = input_name(n as u8);
                    $b = match l {
                        Lit::Int(v) => $b.with_int_input(&name, *v),
                        Lit::Float(v) => $b.with_float_input(&name, OrderedFloat(v.v())),
                        Lit::Bool(v) => $b.with_bool_input(&name, *v),
                    };
                }
            };
        }
        // Two routes to the same configured state, chosen by the case: everything through the builder
        // (per-stack maxima and initial values included), or maxima and contents set on the built state.
        let through_builder = (self.max_int + self.max_float + self.steps) % 2 == 0;
        if through_builder {
            let mut b = PushState::builder()
                .with_max_stack_size(self.max_exec)
                .with_int_max_size(self.max_int)
                .with_float_max_size(self.max_float)
                .with_bool_max_size(self.max_bool)
                .with_program(program)
                .map_err(|e: StackError| format!("builder rejected program: {e}"))?
                .with_int_values(self.int.iter().rev().copied())
                .map_err(|e: StackError| format!("builder rejected int values: {e}"))?
                .with_float_values(self.float.iter().rev().map(|f| OrderedFloat(f.v())).collect::<Vec<_>>())
                .map_err(|e: StackError| format!("builder rejected float values: {e}"))?
                .with_bool_values(self.boolean.iter().rev().copied())
                .map_err(|e: StackError| format!("builder rejected bool values: {e}"))?;
            bind_inputs!(b);
            return Ok(b.with_instruction_step_limit(steps).build());
        }
        let mut b = PushState::builder()
            .with_max_stack_size(self.max_exec)
            .with_program(program)
            .map_err(|e: StackError| format!("builder rejected program: {e}"))?;
        bind_inputs!(b);
        let mut s = b.with_instruction_step_limit(steps).build();
        {
            let st = s.stack_mut::<i64>();
            st.set_max_stack_size(self.max_int);
            st.push_many(self.int.iter().rev().copied())
                .map_err(|e| format!("int setup: {e}"))?;
        }
        {
            let st = s.stack_mut::<OrderedFloat<f64>>();
            st.set_max_stack_size(self.max_float);
            st.push_many(self.float.iter().rev().map(|f| OrderedFloat(f.v())))
                .map_err(|e| format!("float setup: {e}"))?;
        }
        {
            let st = s.stack_mut::<bool>();
            st.set_max_stack_size(self.max_bool);
            st.push_many(self.boolean.iter().rev().copied())
                .map_err(|e| format!("bool setup: {e}"))?;
        }
        Ok(s)
    }
}

/// Observable snapshot of a real state.
#[derive(Clone, Debug)]
pub struct Snap {
    pub exec: Vec<PushProgram>,
    pub int: Vec<i64>,
    pub float: Vec<u64>,
    pub boolean: Vec<bool>,
    pub maxes: [usize; 4],
    pub out: String,
}

fn drain<T: Clone>(s: &push::push_vm::stack::Stack<T>) -> Vec<T> {
    let mut c = s.clone();
    let mut v = Vec::with_capacity(c.size());
    while let Ok(x) = c.pop() {
        v.push(x);
    }
    v.reverse();
    v
}

#[must_use]
pub fn snap(s: &PushState) -> Snap {
    let mut c = s.clone();
    Snap {
        exec: drain(s.stack::<PushProgram>()),
        int: drain(s.stack::<i64>()),
        float: drain(s.stack::<OrderedFloat<f64>>()).into_iter().map(|f| f.0.to_bits()).collect(),
        boolean: drain(s.stack::<bool>()),
        maxes: [
            s.stack::<PushProgram>().max_stack_size(),
            s.stack::<i64>().max_stack_size(),
            s.stack::<OrderedFloat<f64>>().max_stack_size(),
            s.stack::<bool>().max_stack_size(),
        ],
        out: c.stdout_string().unwrap_or_else(|e| format!("<invalid utf8: {e}>")),
    }
}

fn float_bits_eq(a: u64, b: u64) -> bool {
    let (x, y) = (f64::from_bits(a), f64::from_bits(b));
    a == b || (x.is_nan() && y.is_nan())
}

/// Compare a real state with the model. Returns the name of the first
/// component that differs together with a description.
pub fn diff(t: &Tables, real: &PushState, m: &M) -> Option<(&'static str, String)> {
    let s = snap(real);
    if s.int != m.int {
        return Some(("int", format!("int stack {:?} expected {:?}", s.int, m.int)));
    }
    if s.boolean != m.boolean {
        return Some(("bool", format!("bool stack {:?} expected {:?}", s.boolean, m.boolean)));
    }
    if s.float.len() != m.float.len() || s.float.iter().zip(&m.float).any(|(a, b)| !float_bits_eq(*a, b.0)) {
        let got: Vec<f64> = s.float.iter().map(|b| f64::from_bits(*b)).collect();
        return Some(("float", format!("float stack {:?} expected {:?}", got, m.float)));
    }
    let expected_exec: Option<Vec<PushProgram>> = m.exec.iter().map(|p| t.program(p)).collect();
    match expected_exec {
        Some(e) if e == s.exec => {}
        Some(e) => {
            return Some((
                "exec",
                format!("exec stack (bottom first) {:?} expected {:?}", s.exec, e),
            ))
        }
        None => return Some(("exec", "model exec not convertible".into())),
    }
    if s.out != m.out {
        return Some(("output", format!("output {:?} expected {:?}", s.out, m.out)));
    }
    if s.maxes != [m.max_exec, m.max_int, m.max_float, m.max_bool] {
        return Some(("limits", format!("stack limits {:?} changed", s.maxes)));
    }
    None
}

/// Equality of two real states, floats bit-for-bit (NaN = NaN).
#[must_use]
pub fn same_state(a: &PushState, b: &PushState) -> bool {
    if a == b {
        // PushState: Eq covers stacks, inputs, output cursor and limits; OrderedFloat
        // equality identifies -0 and +0, so additionally compare bits
        let (fa, fb) = (
            drain(a.stack::<OrderedFloat<f64>>()),
            drain(b.stack::<OrderedFloat<f64>>()),
        );
        fa.iter().zip(&fb).all(|(x, y)| float_bits_eq(x.0.to_bits(), y.0.to_bits()))
    } else {
        false
    }
}
