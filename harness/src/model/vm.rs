//! Reference semantics of the Push VM, written from the property statement,
//! the doc comments and the action tables (DESIGN.md Appendix A).  Nothing in
//! this file calls into the crate under test.

use serde::{Deserialize, Serialize};

/// f64 carried as raw bits so that NaN payloads / signed zeros survive JSON.
#[derive(Clone, Copy, PartialEq, Eq, Hash, Serialize, Deserialize)]
pub struct F(pub u64);

impl F {
    #[must_use]
    pub fn v(self) -> f64 {
        f64::from_bits(self.0)
    }
    #[must_use]
    pub fn of(v: f64) -> Self {
        Self(v.to_bits())
    }
}

impl std::fmt::Debug for F {
    fn fmt(&self, f: &mut std::fmt::Formatter<'_>) -> std::fmt::Result {
        write!(f, "{:?}", self.v())
    }
}

#[derive(Clone, Copy, Debug, PartialEq, Eq, Hash, Serialize, Deserialize)]
pub enum Common {
    Pop,
    Dup,
    Swap,
    IsEmpty,
    StackDepth,
    Flush,
}

pub const COMMON: [Common; 6] = [
    Common::Pop,
    Common::Dup,
    Common::Swap,
    Common::IsEmpty,
    Common::StackDepth,
    Common::Flush,
];

#[derive(Clone, Copy, Debug, PartialEq, Eq, Hash, Serialize, Deserialize)]
pub enum IntOp {
    C(Common),
    Print,
    PrintLn,
    Negate,
    Abs,
    Min,
    Max,
    Clamp,
    Inc,
    Dec,
    Add,
    Subtract,
    Multiply,
    ProtectedDivide,
    Mod,
    Power,
    Square,
    IsZero,
    IsPositive,
    IsNegative,
    IsEven,
    IsOdd,
    Equal,
    NotEqual,
    LessThan,
    LessThanEqual,
    GreaterThan,
    GreaterThanEqual,
    FromBoolean,
    FromFloatApprox,
}

#[derive(Clone, Copy, Debug, PartialEq, Eq, Hash, Serialize, Deserialize)]
pub enum FloatOp {
    C(Common),
    Print,
    PrintLn,
    Add,
    Subtract,
    Multiply,
    ProtectedDivide,
    Equal,
    NotEqual,
    GreaterThan,
    LessThan,
    GreaterThanOrEqual,
    LessThanOrEqual,
    FromIntApprox,
}

#[derive(Clone, Copy, Debug, PartialEq, Eq, Hash, Serialize, Deserialize)]
pub enum BoolOp {
    C(Common),
    Print,
    PrintLn,
    Not,
    Or,
    And,
    Xor,
    Implies,
    FromInt,
}

#[derive(Clone, Copy, Debug, PartialEq, Eq, Hash, Serialize, Deserialize)]
pub enum ExecOp {
    C(Common),
    Noop,
    DupBlock,
    When,
    Unless,
    IfElse,
}

#[derive(Clone, Debug, PartialEq, Eq, Hash, Serialize, Deserialize)]
pub enum Ins {
    Int(IntOp),
    Flt(FloatOp),
    Bool(BoolOp),
    Exec(ExecOp),
    PushInt(i64),
    PushFloat(F),
    PushBool(bool),
    PushExec(Box<Prog>),
    /// index into the case's input table
    Input(u8),
    PrintSpace,
    PrintNewline,
    PrintPeriod,
    PrintString(String),
}

#[derive(Clone, Debug, PartialEq, Eq, Hash, Serialize, Deserialize)]
pub enum Prog {
    I(Ins),
    B(Vec<Prog>),
}

impl Prog {
    #[must_use]
    pub fn nodes(&self) -> usize {
        match self {
            Self::I(Ins::PushExec(p)) => 1 + p.nodes(),
            Self::I(_) => 1,
            Self::B(v) => 1 + v.iter().map(Self::nodes).sum::<usize>(),
        }
    }
    #[must_use]
    pub fn depth(&self) -> usize {
        match self {
            Self::I(Ins::PushExec(p)) => 1 + p.depth(),
            Self::I(_) => 0,
            Self::B(v) => 1 + v.iter().map(Self::depth).max().unwrap_or(0),
        }
    }
}

#[derive(Clone, Debug, PartialEq, Eq, Hash, Serialize, Deserialize)]
pub enum Lit {
    Int(i64),
    Float(F),
    Bool(bool),
}

/// The machine.  Stacks are bottom-first (`last()` is the top).
#[derive(Clone, Debug, PartialEq)]
pub struct M {
    pub exec: Vec<Prog>,
    pub int: Vec<i64>,
    pub float: Vec<F>,
    pub boolean: Vec<bool>,
    pub max_exec: usize,
    pub max_int: usize,
    pub max_float: usize,
    pub max_bool: usize,
    pub out: String,
    pub inputs: Vec<Lit>,
}

#[derive(Clone, Copy, Debug, PartialEq, Eq)]
pub enum Out {
    Ok,
    /// recoverable: state unchanged, interpreter carries on
    Skip,
    /// fatal overflow: state unchanged, evaluation ends
    Abort,
}

/// What the model says about one instruction in one state.  `primary` has
/// been applied to the machine when it is `Ok`.  `also` lists further outcomes
/// the property text leaves open (double faults, `Power` with a huge exponent).
#[derive(Clone, Debug)]
pub struct Verdict {
    pub primary: Out,
    pub also_abort: bool,
    /// alternative successful state (only `Power` with exponent > u32::MAX and base in {0,1,-1})
    pub alt_ok: Option<Box<M>>,
    /// the stack whose full-ness caused `Abort` ("int"/"float"/"bool"/"exec")
    pub abort_on: &'static str,
    /// true when the instruction changed a stack or the output
    pub effective: bool,
}

impl Verdict {
    fn ok(effective: bool) -> Self {
        Self {
            primary: Out::Ok,
            also_abort: false,
            alt_ok: None,
            abort_on: "",
            effective,
        }
    }
    fn skip() -> Self {
        Self {
            primary: Out::Skip,
            also_abort: false,
            alt_ok: None,
            abort_on: "",
            effective: false,
        }
    }
    fn abort(on: &'static str) -> Self {
        Self {
            primary: Out::Abort,
            also_abort: false,
            alt_ok: None,
            abort_on: on,
            effective: false,
        }
    }
    fn skip_or_abort(on: &'static str) -> Self {
        Self {
            primary: Out::Skip,
            also_abort: true,
            alt_ok: None,
            abort_on: on,
            effective: false,
        }
    }
}

fn total_eq(x: f64, y: f64) -> bool {
    (x.is_nan() && y.is_nan()) || x == y
}
/// x >= y in the total order NaN = NaN > everything, -0 = +0
fn total_ge(x: f64, y: f64) -> bool {
    x.is_nan() || x >= y
}

fn float_to_int(f: f64) -> i64 {
    if f.is_nan() {
        0
    } else if f >= 9_223_372_036_854_775_808.0 {
        i64::MAX
    } else if f <= -9_223_372_036_854_775_808.0 {
        i64::MIN
    } else {
        // |f| < 2^63: truncation toward zero is exact in i128 arithmetic
        let t = f.trunc();
        // reconstruct from the IEEE fields to stay independent of `as`
        let bits = t.to_bits();
        let neg = bits >> 63 == 1;
        let exp = ((bits >> 52) & 0x7ff) as i64;
        let frac = bits & ((1u64 << 52) - 1);
        if exp == 0 {
            0
        } else {
            let mant = (frac | (1u64 << 52)) as i128;
            let shift = exp - 1075;
            let mag = if shift >= 0 { mant << shift } else { mant >> (-shift) };
            let v = if neg { -mag } else { mag };
            v as i64
        }
    }
}

fn checked_pow(x: i64, y: u64) -> Option<i64> {
    // square-and-multiply in i128 with range check, independent of i64::checked_pow
    let mut result: i128 = 1;
    let mut base: i128 = i128::from(x);
    let mut e = y;
    let lim = i128::from(i64::MAX);
    let low = i128::from(i64::MIN);
    // small bases: closed form
    if x == 0 {
        return Some(i64::from(y == 0));
    }
    if x == 1 {
        return Some(1);
    }
    if x == -1 {
        return Some(if y % 2 == 0 { 1 } else { -1 });
    }
    if y > 64 {
        return None; // |x| >= 2 and exponent > 64 always overflows (2^63 is already out of range, (-2)^63 = MIN needs y = 63)
    }
    while e > 0 {
        if e & 1 == 1 {
            result *= base;
            if result > lim || result < low {
                return None;
            }
        }
        e >>= 1;
        if e > 0 {
            base *= base;
            if base > lim || base < low {
                // any further multiplication by it overflows i64, but it is only used if a bit is set;
                // since e > 0 some higher bit is set, so the result overflows
                return None;
            }
        }
    }
    Some(result as i64)
}

impl M {
    #[must_use]
    pub fn new(max_exec: usize, max_int: usize, max_float: usize, max_bool: usize) -> Self {
        Self {
            exec: vec![],
            int: vec![],
            float: vec![],
            boolean: vec![],
            max_exec,
            max_int,
            max_float,
            max_bool,
            out: String::new(),
            inputs: vec![],
        }
    }

    fn int_full(&self) -> bool {
        self.int.len() >= self.max_int
    }
    fn float_full(&self) -> bool {
        self.float.len() >= self.max_float
    }
    fn bool_full(&self) -> bool {
        self.boolean.len() >= self.max_bool
    }
    fn exec_full(&self) -> bool {
        self.exec.len() >= self.max_exec
    }

    /// P(k from S -> D): decides the fault part; returns None when the
    /// instruction can go ahead.
    fn p_fault(have: usize, need: usize, dest_full: bool, dest: &'static str) -> Option<Verdict> {
        match (have >= need, dest_full) {
            (true, false) => None,
            (false, false) => Some(Verdict::skip()),
            (true, true) => Some(Verdict::abort(dest)),
            (false, true) => Some(Verdict::skip_or_abort(dest)),
        }
    }

    /// Apply one exec element (instruction or block) to the machine.
    pub fn perform(&mut self, p: &Prog) -> Verdict {
        match p {
            Prog::B(v) => {
                if self.exec.len().checked_add(v.len()).is_none_or(|t| t > self.max_exec) {
                    Verdict::abort("exec")
                } else {
                    self.exec.extend(v.iter().rev().cloned());
                    Verdict::ok(!v.is_empty())
                }
            }
            Prog::I(i) => self.instr(i),
        }
    }

    fn push_lit(&mut self, l: &Lit) -> Verdict {
        match l {
            Lit::Int(v) => {
                if self.int_full() {
                    Verdict::abort("int")
                } else {
                    self.int.push(*v);
                    Verdict::ok(true)
                }
            }
            Lit::Float(v) => {
                if self.float_full() {
                    Verdict::abort("float")
                } else {
                    self.float.push(*v);
                    Verdict::ok(true)
                }
            }
            Lit::Bool(v) => {
                if self.bool_full() {
                    Verdict::abort("bool")
                } else {
                    self.boolean.push(*v);
                    Verdict::ok(true)
                }
            }
        }
    }

    fn instr(&mut self, i: &Ins) -> Verdict {
        match i {
            Ins::PushInt(v) => self.push_lit(&Lit::Int(*v)),
            Ins::PushFloat(v) => self.push_lit(&Lit::Float(*v)),
            Ins::PushBool(v) => self.push_lit(&Lit::Bool(*v)),
            Ins::PushExec(p) => {
                if self.exec_full() {
                    Verdict::abort("exec")
                } else {
                    self.exec.push((**p).clone());
                    Verdict::ok(true)
                }
            }
            Ins::Input(n) => {
                let l = self.inputs[usize::from(*n)].clone();
                self.push_lit(&l)
            }
            Ins::PrintSpace => {
                self.out.push(' ');
                Verdict::ok(true)
            }
            Ins::PrintNewline => {
                self.out.push('\n');
                Verdict::ok(true)
            }
            Ins::PrintPeriod => {
                self.out.push('.');
                Verdict::ok(true)
            }
            Ins::PrintString(s) => {
                self.out.push_str(s);
                Verdict::ok(!s.is_empty())
            }
            Ins::Int(op) => self.int_op(*op),
            Ins::Flt(op) => self.float_op(*op),
            Ins::Bool(op) => self.bool_op(*op),
            Ins::Exec(op) => self.exec_op(*op),
        }
    }

    /// instructions generic over the stack: `len`/`full` describe stack T
    fn common<T: Clone>(
        op: Common,
        stack: &mut Vec<T>,
        max: usize,
        name: &'static str,
    ) -> Option<Verdict> {
        let n = stack.len();
        Some(match op {
            Common::Pop => {
                if n == 0 {
                    Verdict::skip()
                } else {
                    stack.pop();
                    Verdict::ok(true)
                }
            }
            Common::Dup => {
                if n == 0 {
                    Verdict::skip()
                } else if n >= max {
                    Verdict::abort(name)
                } else {
                    let t = stack[n - 1].clone();
                    stack.push(t);
                    Verdict::ok(true)
                }
            }
            Common::Swap => {
                if n < 2 {
                    Verdict::skip()
                } else {
                    stack.swap(n - 1, n - 2);
                    Verdict::ok(true)
                }
            }
            Common::Flush => {
                stack.clear();
                Verdict::ok(n > 0)
            }
            Common::IsEmpty | Common::StackDepth => return None,
        })
    }

    fn is_empty_or_depth(&mut self, op: Common, n: usize) -> Verdict {
        match op {
            Common::IsEmpty => {
                if self.bool_full() {
                    Verdict::abort("bool")
                } else {
                    self.boolean.push(n == 0);
                    Verdict::ok(true)
                }
            }
            Common::StackDepth => {
                if self.int_full() {
                    Verdict::abort("int")
                } else {
                    self.int.push(i64::try_from(n).unwrap_or(i64::MAX));
                    Verdict::ok(true)
                }
            }
            _ => unreachable!(),
        }
    }

    fn print<T: std::fmt::Display>(out: &mut String, v: Option<T>, newline: bool) -> Verdict {
        match v {
            None => Verdict::skip(),
            Some(v) => {
                out.push_str(&format!("{v}"));
                if newline {
                    out.push('\n');
                }
                Verdict::ok(true)
            }
        }
    }

    fn int_op(&mut self, op: IntOp) -> Verdict {
        use IntOp as O;
        let n = self.int.len();
        let top = |k: usize| self.int[n - 1 - k];
        // R(k on I, f)
        let r = |this: &mut Self, k: usize, v: Option<i64>| -> Verdict {
            match v {
                None => Verdict::skip(),
                Some(v) => {
                    this.int.truncate(n - k);
                    this.int.push(v);
                    Verdict::ok(true)
                }
            }
        };
        match op {
            O::C(c) => {
                if let Some(v) = Self::common(c, &mut self.int, self.max_int, "int") {
                    v
                } else {
                    self.is_empty_or_depth(c, n)
                }
            }
            O::Print => {
                let v = self.int.pop();
                Self::print(&mut self.out, v, false)
            }
            O::PrintLn => {
                let v = self.int.pop();
                Self::print(&mut self.out, v, true)
            }
            O::Inc | O::Dec | O::Square | O::Negate | O::Abs => {
                if n < 1 {
                    return Verdict::skip();
                }
                let x = i128::from(top(0));
                let v: i128 = match op {
                    O::Inc => x + 1,
                    O::Dec => x - 1,
                    O::Square => x * x,
                    O::Negate => (-x).min(i128::from(i64::MAX)),
                    O::Abs => x.abs().min(i128::from(i64::MAX)),
                    _ => unreachable!(),
                };
                r(self, 1, i64::try_from(v).ok())
            }
            O::Add | O::Subtract | O::Multiply | O::ProtectedDivide | O::Mod | O::Power | O::Min | O::Max => {
                if n < 2 {
                    return Verdict::skip();
                }
                let (x, y) = (top(0), top(1));
                let (xw, yw) = (i128::from(x), i128::from(y));
                let fit = |v: i128| i64::try_from(v).ok();
                let v: Option<i64> = match op {
                    O::Add => fit(xw + yw),
                    O::Subtract => fit(xw - yw),
                    O::Multiply => fit(xw * yw),
                    O::ProtectedDivide => {
                        if y == 0 {
                            Some(1)
                        } else {
                            fit(xw / yw)
                        }
                    }
                    O::Mod => {
                        if y == 0 {
                            Some(0)
                        } else if x == i64::MIN && y == -1 {
                            None // pinned by the existing suite (mod_rems_or_does_nothing)
                        } else {
                            fit(xw % yw)
                        }
                    }
                    O::Power => {
                        if y < 0 {
                            None
                        } else if y > i64::from(u32::MAX) {
                            // unspecified: skip, or the exact value when it exists
                            if let Some(exact) = checked_pow(x, y as u64) {
                                let mut alt = self.clone();
                                alt.int.truncate(n - 2);
                                alt.int.push(exact);
                                let mut v = Verdict::skip();
                                v.alt_ok = Some(Box::new(alt));
                                return v;
                            }
                            None
                        } else {
                            checked_pow(x, y as u64)
                        }
                    }
                    O::Min => Some(x.min(y)),
                    O::Max => Some(x.max(y)),
                    _ => unreachable!(),
                };
                r(self, 2, v)
            }
            O::Clamp => {
                if n < 3 {
                    return Verdict::skip();
                }
                let (value, a, b) = (top(0), top(1), top(2));
                let (lo, hi) = if a <= b { (a, b) } else { (b, a) };
                let v = if value < lo {
                    lo
                } else if value > hi {
                    hi
                } else {
                    value
                };
                r(self, 3, Some(v))
            }
            O::IsZero | O::IsPositive | O::IsNegative | O::IsEven | O::IsOdd => {
                if let Some(f) = Self::p_fault(n, 1, self.bool_full(), "bool") {
                    return f;
                }
                let x = top(0);
                let b = match op {
                    O::IsZero => x == 0,
                    O::IsPositive => x > 0,
                    O::IsNegative => x < 0,
                    O::IsEven => x.rem_euclid(2) == 0,
                    O::IsOdd => x.rem_euclid(2) == 1,
                    _ => unreachable!(),
                };
                self.int.truncate(n - 1);
                self.boolean.push(b);
                Verdict::ok(true)
            }
            O::Equal | O::NotEqual | O::LessThan | O::LessThanEqual | O::GreaterThan | O::GreaterThanEqual => {
                if let Some(f) = Self::p_fault(n, 2, self.bool_full(), "bool") {
                    return f;
                }
                let (x, y) = (top(0), top(1));
                let b = match op {
                    O::Equal => x == y,
                    O::NotEqual => x != y,
                    O::LessThan => x < y,
                    O::LessThanEqual => x <= y,
                    O::GreaterThan => x > y,
                    O::GreaterThanEqual => x >= y,
                    _ => unreachable!(),
                };
                self.int.truncate(n - 2);
                self.boolean.push(b);
                Verdict::ok(true)
            }
            O::FromBoolean => {
                if let Some(f) = Self::p_fault(self.boolean.len(), 1, self.int_full(), "int") {
                    return f;
                }
                let b = self.boolean.pop().unwrap_or(false);
                self.int.push(i64::from(b));
                Verdict::ok(true)
            }
            O::FromFloatApprox => {
                if let Some(f) = Self::p_fault(self.float.len(), 1, self.int_full(), "int") {
                    return f;
                }
                let f = self.float.pop().map_or(0.0, F::v);
                self.int.push(float_to_int(f));
                Verdict::ok(true)
            }
        }
    }

    fn float_op(&mut self, op: FloatOp) -> Verdict {
        use FloatOp as O;
        let n = self.float.len();
        match op {
            O::C(c) => {
                if let Some(v) = Self::common(c, &mut self.float, self.max_float, "float") {
                    v
                } else {
                    self.is_empty_or_depth(c, n)
                }
            }
            O::Print => {
                let v = self.float.pop().map(F::v);
                Self::print(&mut self.out, v, false)
            }
            O::PrintLn => {
                let v = self.float.pop().map(F::v);
                Self::print(&mut self.out, v, true)
            }
            O::Add | O::Subtract | O::Multiply | O::ProtectedDivide => {
                if n < 2 {
                    return Verdict::skip();
                }
                let (x, y) = (self.float[n - 1].v(), self.float[n - 2].v());
                let v = match op {
                    O::Add => x + y,
                    O::Subtract => x - y,
                    O::Multiply => x * y,
                    O::ProtectedDivide => {
                        if y == 0.0 {
                            1.0
                        } else {
                            x / y
                        }
                    }
                    _ => unreachable!(),
                };
                self.float.truncate(n - 2);
                self.float.push(F::of(v));
                Verdict::ok(true)
            }
            O::Equal | O::NotEqual | O::GreaterThan | O::LessThan | O::GreaterThanOrEqual | O::LessThanOrEqual => {
                if let Some(f) = Self::p_fault(n, 2, self.bool_full(), "bool") {
                    return f;
                }
                let (x, y) = (self.float[n - 1].v(), self.float[n - 2].v());
                let b = match op {
                    O::Equal => total_eq(x, y),
                    O::NotEqual => !total_eq(x, y),
                    O::GreaterThanOrEqual => total_ge(x, y),
                    O::LessThanOrEqual => total_ge(y, x),
                    O::GreaterThan => !total_ge(y, x),
                    O::LessThan => !total_ge(x, y),
                    _ => unreachable!(),
                };
                self.float.truncate(n - 2);
                self.boolean.push(b);
                Verdict::ok(true)
            }
            O::FromIntApprox => {
                if let Some(f) = Self::p_fault(self.int.len(), 1, self.float_full(), "float") {
                    return f;
                }
                let i = self.int.pop().unwrap_or(0);
                // Rust `as`: round to nearest, ties to even (std is trusted)
                self.float.push(F::of(i as f64));
                Verdict::ok(true)
            }
        }
    }

    fn bool_op(&mut self, op: BoolOp) -> Verdict {
        use BoolOp as O;
        let n = self.boolean.len();
        match op {
            O::C(c) => {
                if let Some(v) = Self::common(c, &mut self.boolean, self.max_bool, "bool") {
                    v
                } else {
                    self.is_empty_or_depth(c, n)
                }
            }
            O::Print => {
                let v = self.boolean.pop();
                Self::print(&mut self.out, v, false)
            }
            O::PrintLn => {
                let v = self.boolean.pop();
                Self::print(&mut self.out, v, true)
            }
            O::Not => {
                if n < 1 {
                    return Verdict::skip();
                }
                self.boolean[n - 1] = !self.boolean[n - 1];
                Verdict::ok(true)
            }
            O::Or | O::And | O::Xor | O::Implies => {
                if n < 2 {
                    return Verdict::skip();
                }
                let (x, y) = (self.boolean[n - 1], self.boolean[n - 2]);
                let v = match op {
                    O::Or => x | y,
                    O::And => x & y,
                    O::Xor => x ^ y,
                    O::Implies => {
                        if x {
                            y
                        } else {
                            true
                        }
                    }
                    _ => unreachable!(),
                };
                self.boolean.truncate(n - 2);
                self.boolean.push(v);
                Verdict::ok(true)
            }
            O::FromInt => {
                if let Some(f) = Self::p_fault(self.int.len(), 1, self.bool_full(), "bool") {
                    return f;
                }
                let i = self.int.pop().unwrap_or(0);
                self.boolean.push(i != 0);
                Verdict::ok(true)
            }
        }
    }

    fn exec_op(&mut self, op: ExecOp) -> Verdict {
        use ExecOp as O;
        let n = self.exec.len();
        let cond = self.boolean.last().copied();
        match op {
            O::C(c) => {
                if let Some(v) = Self::common(c, &mut self.exec, self.max_exec, "exec") {
                    v
                } else {
                    self.is_empty_or_depth(c, n)
                }
            }
            O::Noop => Verdict::ok(false),
            O::DupBlock => Self::common(Common::Dup, &mut self.exec, self.max_exec, "exec").unwrap_or_else(Verdict::skip),
            O::When => match (cond, n >= 1) {
                (Some(true), true) => {
                    self.boolean.pop();
                    Verdict::ok(true)
                }
                (Some(false), true) => {
                    self.boolean.pop();
                    self.exec.pop();
                    Verdict::ok(true)
                }
                (None, true) => {
                    self.exec.pop();
                    Verdict::ok(true)
                }
                (Some(_), false) => Verdict::ok(false),
                (None, false) => Verdict::skip(),
            },
            O::Unless => match (cond, n >= 1) {
                (Some(false), true) => {
                    self.boolean.pop();
                    Verdict::ok(true)
                }
                (Some(true), true) => {
                    self.boolean.pop();
                    self.exec.pop();
                    Verdict::ok(true)
                }
                (None, true) | (Some(_), false) => Verdict::ok(false),
                (None, false) => Verdict::skip(),
            },
            O::IfElse => match (cond, n) {
                (_, 0) => Verdict::skip(),
                (Some(true), 1) => {
                    self.boolean.pop();
                    Verdict::ok(true)
                }
                (Some(false), 1) => {
                    self.boolean.pop();
                    self.exec.pop();
                    Verdict::ok(true)
                }
                (None, _) => {
                    self.exec.pop();
                    Verdict::ok(true)
                }
                (Some(true), _) => {
                    // keep then (top), drop else (second)
                    self.boolean.pop();
                    self.exec.remove(n - 2);
                    Verdict::ok(true)
                }
                (Some(false), _) => {
                    self.boolean.pop();
                    self.exec.pop();
                    Verdict::ok(true)
                }
            },
        }
    }
}

#[cfg(test)]
mod tests {
    use super::*;

    #[test]
    fn f2i() {
        for f in [0.0, -0.0, 0.5, -0.5, 1.5, -1.5, 1e18, -1e18, 9.2e18, 9.3e18, -9.3e18, f64::NAN, f64::INFINITY, f64::NEG_INFINITY, 4503599627370497.0, 5e-324] {
            assert_eq!(float_to_int(f), f as i64, "{f}");
        }
    }

    #[test]
    fn pow() {
        for x in [-3i64, -2, -1, 0, 1, 2, 3, 7, 10, i64::MAX, i64::MIN, 3037000499, 3037000500] {
            for y in 0u32..70 {
                assert_eq!(checked_pow(x, u64::from(y)), x.checked_pow(y), "{x}^{y}");
            }
        }
    }
}
