//! Iterators with valid but imprecise size hints (what `filter`, `flat_map`, `take_while`,
//! `from_fn` and friends report), for code that is tempted to trust a hint.

/// Always honours the `Iterator::size_hint` contract (lower <= remaining <= upper):
/// lower kind 0 = 0, 1 = half, 2 = exact; upper kind 0 = None, 1 = exact, 2 = one too many,
/// 3 = four too many, 4 = `usize::MAX`, 5 = twice as many.
pub struct Hinted<T>(pub std::vec::IntoIter<T>, pub u8, pub u8);

impl<T> Iterator for Hinted<T> {
    type Item = T;
    fn next(&mut self) -> Option<T> {
        self.0.next()
    }
    fn size_hint(&self) -> (usize, Option<usize>) {
        let n = self.0.len();
        let lo = match self.1 {
            0 => 0,
            1 => n / 2,
            _ => n,
        };
        let hi = match self.2 {
            0 => None,
            1 => Some(n),
            2 => Some(n + 1),
            3 => Some(n + 4),
            4 => Some(usize::MAX),
            _ => Some(n * 2),
        };
        (lo, hi)
    }
}
