//! Byte decoders for the libFuzzer targets: the fuzzer's bytes are decoded
//! into the same structured cases the proptest checks use, and judged by the
//! same oracles.  `vcheck <ID> --replay-bytes <target> <file>` goes through the
//! same functions, so a saved crashing input is the reproducible unit.

use crate::gen_vm::{float_edges, model_opens, parse_genes, Gene, INT_EDGES};
use crate::model::real::{Tables, VmCase};
use crate::model::vm::{ExecOp, Ins, Lit, Prog, F};
use crate::props::c04::{Hist, Op};

pub struct Bytes<'a> {
    data: &'a [u8],
    pos: usize,
}

impl<'a> Bytes<'a> {
    #[must_use]
    pub fn new(data: &'a [u8]) -> Self {
        Self { data, pos: 0 }
    }
    pub fn u8(&mut self) -> u8 {
        let b = self.data.get(self.pos).copied().unwrap_or(0);
        self.pos += 1;
        b
    }
    pub fn u64(&mut self) -> u64 {
        (0..8).fold(0u64, |a, i| a | (u64::from(self.u8()) << (8 * i)))
    }
    #[must_use]
    pub fn done(&self) -> bool {
        self.pos >= self.data.len()
    }
    pub fn below(&mut self, n: usize) -> usize {
        usize::from(self.u8()) % n.max(1)
    }
}

#[must_use]
pub fn decode_hist(data: &[u8]) -> Hist {
    let mut b = Bytes::new(data);
    let cap = [0usize, 1, 2, 3, 5, 8, usize::MAX][b.below(7)];
    let mut ops = vec![];
    while !b.done() && ops.len() < 400 {
        let kind = b.u8() % 16;
        let arg = b.u8();
        ops.push(match kind {
            0 | 1 => Op::Push,
            2 => Op::Pop,
            3 => Op::Pop2,
            4 => Op::Pop3,
            5 => Op::Top,
            6 => Op::Top2,
            7 => Op::Top3,
            8 => match arg {
                255 => Op::Discard(usize::MAX),
                254 => Op::Discard(usize::MAX - 1),
                a => Op::Discard(usize::from(a % 12)),
            },
            9 => Op::DiscardNear(arg % 5),
            10 | 11 => Op::PushMany(arg % 7),
            12 => Op::TryExtend(arg % 7),
            13 => Op::TryExtendHint(arg % 7, (arg / 7) % 3, (arg / 21) % 6),
            14 => {
                if arg == 255 {
                    Op::SetMax(usize::MAX)
                } else if arg % 2 == 0 {
                    Op::SetMax(usize::from(arg % 10))
                } else {
                    Op::SetMaxNear(arg % 5)
                }
            }
            _ => Op::Query,
        });
    }
    Hist { cap, ops }
}

fn int(b: &mut Bytes<'_>) -> i64 {
    let k = b.u8();
    match k % 4 {
        0 => INT_EDGES[usize::from(k / 4) % INT_EDGES.len()],
        1 => i64::from(k / 4) - 8,
        2 => b.u64() as i64,
        _ => (1i64 << (u32::from(k / 4) % 63)).wrapping_add(i64::from(b.u8() % 3) - 1),
    }
}

fn float(b: &mut Bytes<'_>) -> F {
    let k = b.u8();
    let e = float_edges();
    match k % 3 {
        0 => F::of(e[usize::from(k / 3) % e.len()]),
        1 => F(b.u64()),
        _ => F::of(f64::from(i32::from(k / 3) - 20) * 0.5),
    }
}

fn ins(b: &mut Bytes<'_>, ops: &[Ins]) -> Ins {
    let k = b.u8();
    match k % 10 {
        0 => Ins::PushInt(int(b)),
        1 => Ins::PushFloat(float(b)),
        2 => Ins::PushBool(k & 16 != 0),
        3 => Ins::Input(k / 10 % 4),
        4 => match k / 10 % 4 {
            0 => Ins::PrintSpace,
            1 => Ins::PrintNewline,
            2 => Ins::PrintPeriod,
            _ => Ins::PrintString("fz".into()),
        },
        _ => ops[usize::from(b.u8()) % ops.len()].clone(),
    }
}

#[must_use]
pub fn decode_genes(data: &[u8], t: &Tables) -> Vec<Gene> {
    let ops = t.all_ops();
    let mut b = Bytes::new(data);
    let mut genes = vec![];
    while !b.done() && genes.len() < 4000 {
        let k = b.u8();
        genes.push(match k & 7 {
            0 | 1 => Gene::Close,
            2 => Gene::I(Ins::PushInt(i64::from(k >> 3))),
            3 => Gene::I(Ins::Exec([ExecOp::When, ExecOp::Unless, ExecOp::DupBlock][usize::from(k >> 3) % 3])),
            4 => Gene::I(Ins::Exec(ExecOp::IfElse)),
            5 => Gene::I(ops[usize::from(k >> 3) % ops.len()].clone()),
            _ => Gene::I(ins(&mut b, &ops)),
        });
    }
    genes
}

/// a flat gene-like token stream (with explicit block structure through the reference parser)
#[must_use]
pub fn decode_vm(data: &[u8], t: &Tables) -> VmCase {
    let ops = t.all_ops();
    let mut b = Bytes::new(data);
    let slack = |b: &mut Bytes<'_>| -> usize {
        let k = b.u8();
        match k % 4 {
            0 => 0,
            1 => usize::from(k / 4 % 3),
            2 => usize::from(k / 4 % 8),
            _ => 8 + usize::from(k / 4),
        }
    };
    let (se, si, sf, sb) = (slack(&mut b), slack(&mut b), slack(&mut b), slack(&mut b));
    let steps = usize::from(b.u8()) + if b.u8() % 4 == 0 { 256 } else { 0 };
    let n_inputs = 1 + b.below(4);
    let inputs: Vec<Lit> = (0..n_inputs)
        .map(|_| match b.u8() % 3 {
            0 => Lit::Int(int(&mut b)),
            1 => Lit::Float(float(&mut b)),
            _ => Lit::Bool(b.u8() & 1 == 1),
        })
        .collect();
    let ni = b.below(6);
    let int_stack: Vec<i64> = (0..ni).map(|_| int(&mut b)).collect();
    let nf = b.below(6);
    let float_stack: Vec<F> = (0..nf).map(|_| float(&mut b)).collect();
    let nb = b.below(6);
    let bool_stack: Vec<bool> = (0..nb).map(|_| b.u8() & 1 == 1).collect();
    let mut genes = vec![];
    while !b.done() && genes.len() < 300 {
        let k = b.u8();
        genes.push(if k % 7 == 0 { Gene::Close } else { Gene::I(ins(&mut b, &ops)) });
    }
    let exec: Vec<Prog> = parse_genes(&genes, model_opens);
    let mut c = VmCase {
        instr: None,
        max_exec: exec.len() + se * 2,
        max_int: int_stack.len() + si,
        max_float: float_stack.len() + sf,
        max_bool: bool_stack.len() + sb,
        exec,
        int: int_stack,
        float: float_stack,
        boolean: bool_stack,
        inputs,
        steps,
    };
    c.normalise();
    c
}
