//! Generators for Push VM cases (shared by C01, C02, C03, C16 and the fuzz target).

use proptest::prelude::*;
use proptest::sample::select;

use crate::model::real::{Tables, VmCase};
use crate::model::vm::{ExecOp, Ins, Lit, Prog, F};

pub const INT_EDGES: [i64; 24] = [
    0,
    1,
    -1,
    2,
    -2,
    3,
    -3,
    7,
    63,
    64,
    i64::MAX,
    i64::MIN,
    i64::MAX - 1,
    i64::MIN + 1,
    0xFFFF_FFFF,
    0x1_0000_0000,
    0x1_0000_0001,
    3_037_000_499,
    3_037_000_500,
    -3_037_000_500,
    1 << 53,
    (1 << 53) + 1,
    (1 << 62) + 1,
    -9_007_199_254_740_993,
];

pub fn int_val() -> impl Strategy<Value = i64> {
    prop_oneof![
        5 => select(INT_EDGES.to_vec()),
        7 => -6i64..=6,
        2 => (0u32..63, -1i64..=1).prop_map(|(s, d)| (1i64 << s).wrapping_add(d)),
        2 => (0u32..63, -1i64..=1).prop_map(|(s, d)| (1i64 << s).wrapping_add(d).wrapping_neg()),
        2 => any::<i64>(),
        1 => -1000i64..1000,
    ]
}

pub fn float_edges() -> Vec<f64> {
    vec![
        0.0,
        1.0,
        -1.0,
        -0.0,
        f64::NAN,
        -f64::NAN,
        f64::INFINITY,
        f64::NEG_INFINITY,
        0.5,
        -0.5,
        2.0,
        f64::MAX,
        f64::MIN,
        f64::MIN_POSITIVE,
        5e-324,
        -5e-324,
        f64::EPSILON,
        9_223_372_036_854_775_807.0,
        9_223_372_036_854_775_808.0,
        -9_223_372_036_854_775_808.0,
        -9_223_372_036_854_777_856.0,
        9_223_372_036_854_774_784.0,
        4_503_599_627_370_496.5,
        1e19,
        -1e19,
        0.1,
        1.5,
        -1.5,
        2.5,
        1e300,
    ]
}

pub fn float_val() -> impl Strategy<Value = F> {
    prop_oneof![
        6 => select(float_edges()).prop_map(F::of),
        3 => any::<u64>().prop_map(F),
        3 => (-8i32..=8).prop_map(|i| F::of(f64::from(i) * 0.5)),
        2 => any::<f64>().prop_map(F::of),
        1 => any::<i64>().prop_map(|i| F::of(i as f64)),
    ]
}

pub fn lit() -> impl Strategy<Value = Lit> {
    prop_oneof![
        int_val().prop_map(Lit::Int),
        float_val().prop_map(Lit::Float),
        any::<bool>().prop_map(Lit::Bool),
    ]
}

/// Leaf instructions. `ops` = every non-literal instruction the crate exposes.
pub fn leaf(ops: Vec<Ins>) -> BoxedStrategy<Ins> {
    let (typed, exec): (Vec<Ins>, Vec<Ins>) = ops.into_iter().partition(|i| !matches!(i, Ins::Exec(_)));
    let (exec_ctl, exec_stack): (Vec<Ins>, Vec<Ins>) = exec.into_iter().partition(|i| {
        matches!(
            i,
            Ins::Exec(ExecOp::When | ExecOp::Unless | ExecOp::IfElse | ExecOp::DupBlock | ExecOp::Noop)
        )
    });
    prop_oneof![
        12 => int_val().prop_map(Ins::PushInt),
        8 => float_val().prop_map(Ins::PushFloat),
        8 => any::<bool>().prop_map(Ins::PushBool),
        6 => (0u8..4).prop_map(Ins::Input),
        40 => select(typed),
        8 => select(exec_ctl),
        6 => select(exec_stack),
        5 => prop_oneof![
            Just(Ins::PrintSpace),
            Just(Ins::PrintNewline),
            Just(Ins::PrintPeriod),
            "[ -~é✓]{0,6}".prop_map(Ins::PrintString),
        ],
    ]
    .boxed()
}

pub fn prog(ops: Vec<Ins>, depth: u32, size: u32) -> BoxedStrategy<Prog> {
    let leaf_s = leaf(ops).prop_map(Prog::I).boxed();
    leaf_s
        .prop_recursive(depth, size, 6, |inner| {
            prop_oneof![
                4 => prop::collection::vec(inner.clone(), 0..6).prop_map(Prog::B),
                1 => inner.prop_map(|p| Prog::I(Ins::PushExec(Box::new(p)))),
            ]
        })
        .boxed()
}

/// A gene of the model vocabulary (for programs produced the way evolution produces them).
#[derive(Clone, Debug, PartialEq, serde::Serialize, serde::Deserialize)]
pub enum Gene {
    Close,
    I(Ins),
}

/// Reference Plushy parser of C05 (iterative, explicit stack of open-block
/// counters); see `props::c05` for the check that the real parser agrees.
#[must_use]
pub fn parse_genes(genes: &[Gene], opens: impl Fn(&Ins) -> usize) -> Vec<Prog> {
    // frames: (items so far, blocks still to open after this one closes)
    struct Frame {
        items: Vec<Prog>,
        pending: usize,
    }
    let mut stack: Vec<Frame> = vec![Frame {
        items: vec![],
        pending: 0,
    }];
    let close = |stack: &mut Vec<Frame>| {
        // close innermost block; open the next pending sibling block if any
        if stack.len() <= 1 {
            return;
        }
        let f = stack.pop().expect("frame");
        let parent = stack.last_mut().expect("parent");
        parent.items.push(Prog::B(f.items));
        if f.pending > 0 {
            stack.push(Frame {
                items: vec![],
                pending: f.pending - 1,
            });
        }
    };
    for g in genes {
        match g {
            Gene::Close => close(&mut stack),
            Gene::I(i) => {
                let k = opens(i);
                stack.last_mut().expect("frame").items.push(Prog::I(i.clone()));
                if k > 0 {
                    stack.push(Frame {
                        items: vec![],
                        pending: k - 1,
                    });
                }
            }
        }
    }
    while stack.len() > 1 {
        close(&mut stack);
    }
    stack.pop().expect("root").items
}

#[must_use]
pub fn model_opens(i: &Ins) -> usize {
    match i {
        Ins::Exec(ExecOp::When | ExecOp::Unless | ExecOp::DupBlock) => 1,
        Ins::Exec(ExecOp::IfElse) => 2,
        _ => 0,
    }
}

pub fn genes(ops: Vec<Ins>, max: usize) -> BoxedStrategy<Vec<Gene>> {
    let g = prop_oneof![
        2 => Just(Gene::Close),
        9 => leaf(ops).prop_map(Gene::I),
    ];
    prop::collection::vec(g, 0..=max).boxed()
}

fn slack() -> impl Strategy<Value = usize> {
    prop_oneof![
        4 => Just(0usize),
        4 => Just(1),
        3 => Just(2),
        3 => 3usize..8,
        4 => 8usize..64,
    ]
}

#[derive(Clone, Copy, Debug)]
pub struct Shape {
    pub depth: u32,
    pub nodes: u32,
    pub top_len: usize,
    pub genes: usize,
    pub max_steps: usize,
    pub init: usize,
}

pub const QUICK_SHAPE: Shape = Shape {
    depth: 6,
    nodes: 60,
    top_len: 12,
    genes: 40,
    max_steps: 200,
    init: 6,
};

pub const THOROUGH_SHAPE: Shape = Shape {
    depth: 12,
    nodes: 400,
    top_len: 30,
    genes: 150,
    max_steps: 600,
    init: 8,
};

/// Whole-program cases: half tree-generated, half through the Plushy route.
pub fn program_case(t: &Tables, sh: Shape) -> BoxedStrategy<VmCase> {
    let ops = t.all_ops();
    let exec = prop_oneof![
        9 => prop::collection::vec(prog(ops.clone(), sh.depth, sh.nodes), 0..=sh.top_len),
        9 => genes(ops.clone(), sh.genes).prop_map(|g| parse_genes(&g, model_opens)),
        // one big flat block (and whatever follows it): bulk unfolding far beyond the usual sizes
        1 => (prop::collection::vec(leaf(ops.clone()).prop_map(Prog::I), 70..260), prop::collection::vec(leaf(ops).prop_map(Prog::I), 0..3)).prop_map(|(big, mut rest)| {
            let mut v = vec![Prog::B(big)];
            v.append(&mut rest);
            v
        }),
    ];
    let big = sh.init * 40;
    (
        exec,
        prop_oneof![12 => prop::collection::vec(int_val(), 0..=sh.init), 1 => prop::collection::vec(int_val(), 60..=big)],
        prop_oneof![12 => prop::collection::vec(float_val(), 0..=sh.init), 1 => prop::collection::vec(float_val(), 60..=big)],
        prop_oneof![12 => prop::collection::vec(any::<bool>(), 0..=sh.init), 1 => prop::collection::vec(any::<bool>(), 60..=big)],
        prop_oneof![
            3 => (20usize..80, 20usize..80, 20usize..80, 20usize..80),
            2 => (slack(), slack(), slack(), slack()),
        ],
        prop::collection::vec(lit(), 0..=4),
        prop_oneof![3 => 0usize..=sh.max_steps, 1 => 0usize..8],
    )
        .prop_map(|(exec, int, float, boolean, (se, si, sf, sb), inputs, steps)| {
            let mut c = VmCase {
                instr: None,
                max_exec: exec.len() + se * 2,
                max_int: int.len() + si,
                max_float: float.len() + sf,
                max_bool: boolean.len() + sb,
                exec,
                int,
                float,
                boolean,
                inputs,
                steps,
            };
            c.normalise();
            c
        })
        .boxed()
}

/// "Retry" cases: an instruction that can fail for the *values* it meets (integer overflow) is met again at the
/// same stack depths after the values were rearranged or changed - a failure is a property of that one step,
/// nothing about it may be remembered.
pub fn retry_case(t: &Tables) -> BoxedStrategy<VmCase> {
    use crate::model::vm::{Common, IntOp};
    let ops = t.all_ops();
    let faulting = vec![IntOp::Inc, IntOp::Dec, IntOp::Add, IntOp::Subtract, IntOp::Multiply, IntOp::Power, IntOp::Square, IntOp::ProtectedDivide, IntOp::Mod];
    let keeping = vec![IntOp::C(Common::Swap), IntOp::Negate, IntOp::Abs, IntOp::Inc, IntOp::Dec, IntOp::Square];
    let edge = || prop_oneof![3 => select(INT_EDGES.to_vec()), 2 => -3i64..=3, 1 => select(vec![2i64, 100, 62, 63, 64, 3_037_000_500, -3_037_000_500, 1 << 31, 1 << 32])];
    (
        select(faulting),
        prop::collection::vec(prop_oneof![3 => select(keeping).prop_map(Ins::Int), 1 => leaf(ops.clone())], 1..4),
        prop::collection::vec(edge(), 1..5),
        prop::collection::vec(leaf(ops).prop_map(Prog::I), 0..3),
        1usize..4,
    )
        .prop_map(|(op, mid, int, tail, repeats)| {
            let mut exec = vec![Prog::I(Ins::Int(op))];
            for _ in 0..repeats {
                exec.extend(mid.iter().cloned().map(Prog::I));
                exec.push(Prog::I(Ins::Int(op)));
            }
            exec.extend(tail);
            let mut c = VmCase {
                instr: None,
                max_exec: exec.len() + 20,
                max_int: int.len() + 20,
                max_float: 20,
                max_bool: 20,
                exec,
                int,
                float: vec![],
                boolean: vec![],
                inputs: vec![Lit::Int(1), Lit::Int(i64::MAX), Lit::Bool(true), Lit::Float(F::of(0.5))],
                steps: 60,
            };
            c.normalise();
            c
        })
        .boxed()
}

/// "Churn" cases: one typed stack with a small maximum is filled, emptied (Flush / Pop / a consumer) and
/// refilled up to and beyond its maximum, interleaved with instructions that push onto it from another
/// stack.  Whatever a stack or the state remembers about its own fill level has to survive that.
pub fn churn_case(t: &Tables) -> BoxedStrategy<VmCase> {
    use crate::model::vm::{BoolOp, Common, FloatOp, IntOp};
    let ops = t.all_ops();
    (0u8..3, 0usize..4, 0usize..4, prop::collection::vec((0u8..10, any::<i8>()), 4..40), prop::collection::vec(leaf(ops).prop_map(Prog::I), 0..4), any::<u64>())
        .prop_map(|(kind, k0, slack, script, tail, salt)| {
            let lit = |v: i8| match kind {
                0 => Ins::PushInt(i64::from(v)),
                1 => Ins::PushFloat(F::of(f64::from(v) / 4.0)),
                _ => Ins::PushBool(v % 2 == 0),
            };
            let common = |c: Common| match kind {
                0 => Ins::Int(IntOp::C(c)),
                1 => Ins::Flt(FloatOp::C(c)),
                _ => Ins::Bool(BoolOp::C(c)),
            };
            // instructions that push onto the stack under churn from another stack, or consume from it
            let cross = |v: i8| match (kind, v.rem_euclid(4)) {
                (0, 0) => Ins::Int(IntOp::FromBoolean),
                (0, 1) => Ins::Int(IntOp::FromFloatApprox),
                (0, 2) => Ins::Int(IntOp::C(Common::StackDepth)),
                (0, _) => Ins::Int(IntOp::Add),
                (1, 0 | 1) => Ins::Flt(FloatOp::FromIntApprox),
                (1, 2) => Ins::Flt(FloatOp::Add),
                (1, _) => Ins::Flt(FloatOp::Equal),
                (_, 0) => Ins::Bool(BoolOp::FromInt),
                (_, 1) => Ins::Int(IntOp::Equal),
                (_, 2) => Ins::Bool(BoolOp::C(Common::IsEmpty)),
                (_, _) => Ins::Flt(FloatOp::LessThan),
            };
            let mut exec: Vec<Prog> = script
                .iter()
                .map(|(what, v)| {
                    Prog::I(match what {
                        0..=3 => lit(*v),
                        4 => common(Common::Flush),
                        5 => common(Common::Pop),
                        6 => common(Common::Dup),
                        7 => cross(*v),
                        8 => common(Common::Swap),
                        _ => cross(v.wrapping_add(1)),
                    })
                })
                .collect();
            exec.extend(tail);
            let init = |n: usize| (0..n as i64).collect::<Vec<i64>>();
            let mut c = VmCase {
                instr: None,
                max_exec: exec.len() + 4,
                exec,
                int: init(if kind == 0 { k0 } else { 3 }),
                float: init(if kind == 1 { k0 } else { 3 }).into_iter().map(|v| F::of(v as f64)).collect(),
                boolean: init(if kind == 2 { k0 } else { 3 }).into_iter().map(|v| v % 2 == 0).collect(),
                max_int: if kind == 0 { k0 + slack } else { 30 },
                max_float: if kind == 1 { k0 + slack } else { 30 },
                max_bool: if kind == 2 { k0 + slack } else { 30 },
                inputs: vec![],
                steps: 10 + (salt % 60) as usize,
            };
            c.normalise();
            c
        })
        .boxed()
}

/// Single-instruction cases with boundary-biased stacks.  `which` picks the
/// instruction (index into all ops + literal/print forms), sizes are drawn from
/// {0,1,2,3} and the slack from {0,1,2}, so that for every instruction each of
/// empty / one short / exactly enough / one below full / full is frequent.
pub fn single_step_case(t: &Tables) -> BoxedStrategy<VmCase> {
    let ops = t.all_ops();
    let first = prop_oneof![
        10 => select(ops.clone()),
        1 => leaf(ops.clone()),
        1 => prop::collection::vec(leaf(ops.clone()).prop_map(Prog::I), 0..4).prop_map(|v| Ins::PushExec(Box::new(Prog::B(v)))),
    ];
    let first = prop_oneof![
        12 => first.prop_map(Prog::I),
        1 => prop::collection::vec(leaf(ops.clone()).prop_map(Prog::I), 0..5).prop_map(Prog::B),
    ];
    let small = |ops: Vec<Ins>| {
        prop_oneof![
            3 => leaf(ops.clone()).prop_map(Prog::I),
            1 => prop::collection::vec(leaf(ops).prop_map(Prog::I), 0..3).prop_map(Prog::B),
        ]
    };
    let sz = || prop_oneof![3 => 0usize..=3, 1 => 4usize..7];
    let sl = || prop_oneof![4 => Just(0usize), 3 => Just(1usize), 2 => Just(2usize), 1 => 3usize..6];
    (
        first,
        prop::collection::vec(small(ops), 0..=3),
        (sz(), sz(), sz()),
        (sl(), sl(), sl(), sl()),
        prop::collection::vec(int_val(), 7),
        prop::collection::vec(float_val(), 7),
        prop::collection::vec(any::<bool>(), 7),
        prop::collection::vec(lit(), 1..=4),
    )
        .prop_map(|(first, rest, (ni, nf, nb), (se, si, sf, sb), iv, fv, bv, inputs)| {
            let exec = rest;
            let mut c = VmCase {
                instr: Some(first),
                max_exec: exec.len() + se,
                max_int: ni + si,
                max_float: nf + sf,
                max_bool: nb + sb,
                exec,
                int: iv[..ni].to_vec(),
                float: fv[..nf].to_vec(),
                boolean: bv[..nb].to_vec(),
                inputs,
                steps: 1,
            };
            c.normalise();
            c
        })
        .boxed()
}
