//! C18 — generators deliver exactly the requested collections and uniform member choices.

use std::cell::Cell;

use ec_core::distributions::choices::ChoicesDistribution;
use ec_core::distributions::collection::{ConvertToCollectionGenerator, Generator};
use ec_core::distributions::conversion::{IntoDistribution, ToDistribution};
use ec_core::individual::ec::{EcIndividual, WithScorer};
use ec_core::uniform_distribution_of;
use ec_linear::genome::bitstring::Bitstring;
use proptest::prelude::*;
use push::genome::plushy::{Plushy, PushGene};
use push::instruction::PushInstruction;
use rand::distr::Distribution;
use rand::rngs::StdRng;
use rand::{Rng, SeedableRng};
use serde::{Deserialize, Serialize};
use serde_json::Value;

use crate::rngs::Counting;
use crate::stats::{run_jobs, Job, Stat};
use crate::{ensure, fail, guarded, panic_key, Ctx, Fail, Probe};

/// element generator that counts how often it is asked and tags what it emits
pub struct Elem {
    calls: Cell<u64>,
}
impl Elem {
    fn new() -> Self {
        Self { calls: Cell::new(0) }
    }
    fn bump<R: Rng + ?Sized>(&self, rng: &mut R) -> u64 {
        let _ = rng.next_u32();
        let k = self.calls.get();
        self.calls.set(k + 1);
        k
    }
}
impl Distribution<u64> for Elem {
    fn sample<R: Rng + ?Sized>(&self, rng: &mut R) -> u64 {
        self.bump(rng)
    }
}
impl Distribution<bool> for Elem {
    fn sample<R: Rng + ?Sized>(&self, rng: &mut R) -> bool {
        self.bump(rng) % 2 == 0
    }
}
impl Distribution<PushGene> for Elem {
    fn sample<R: Rng + ?Sized>(&self, rng: &mut R) -> PushGene {
        let k = self.bump(rng);
        if k % 5 == 4 {
            PushGene::Close
        } else {
            PushGene::Instruction(PushInstruction::push_int(k as i64))
        }
    }
}

#[derive(Clone, Debug, Serialize, Deserialize)]
pub enum Case {
    Collection { kind: u8, size: usize, seed: u64, borrowed: bool },
    Choice { flavour: u8, items: Vec<i32>, seed: u64, draws: u8 },
    /// one generator value used for `first` elements, then re-tuned through its public `size` field (and used again)
    Resized { kind: u8, first: usize, size: usize, seed: u64 },
    /// the bitstring constructors that take a size directly: random(len) / random_with_probability(len, p)
    RandomBits { len: usize, p: Option<f64>, seed: u64 },
}

fn random_bits_case(len: usize, p: Option<f64>, seed: u64, probe: &mut Probe) -> Result<(), Fail> {
    let mut rng = Counting::new(seed);
    let name = if p.is_some() { "Bitstring::random_with_probability" } else { "Bitstring::random" };
    let got = match guarded(|| match p {
        None => Bitstring::random(len, &mut rng).bits.len(),
        Some(p) => Bitstring::random_with_probability(len, p, &mut rng).bits.len(),
    }) {
        Ok(n) => n,
        Err(e) => fail!(format!("{name}/panic:{}", panic_key(&e)), "{name}({len}) panicked: {e}"),
    };
    ensure!(got == len, format!("{name}/wrong-size"), "{name}({len}{}) returned {got} bits", p.map(|p| format!(", {p}")).unwrap_or_default());
    probe.nontrivial = len >= 2;
    if len > 4000 {
        probe.label("size > 4000");
    }
    Ok(())
}

fn resized_case(kind: u8, first: usize, size: usize, seed: u64, probe: &mut Probe) -> Result<(), Fail> {
    let elem = Elem::new();
    let mut rng = Counting::new(seed);
    let kind_name = ["Vec<u64>", "Bitstring", "Plushy"][usize::from(kind % 3)];
    let name = format!("collection<{kind_name}>");
    let lens = guarded(|| -> (usize, usize, bool) {
        let mut g = Generator::new(&elem, first);
        match kind % 3 {
            0 => {
                let a: Vec<u64> = g.sample(&mut rng);
                g.size = size;
                let b: Vec<u64> = g.sample(&mut rng);
                let mut sorted = b.clone();
                sorted.sort_unstable();
                (a.len(), b.len(), sorted.iter().enumerate().all(|(i, x)| *x == (first + i) as u64))
            }
            1 => {
                let a: Bitstring = g.sample(&mut rng);
                g.size = size;
                let b: Bitstring = g.sample(&mut rng);
                (a.bits.len(), b.bits.len(), true)
            }
            _ => {
                let a: Plushy = g.sample(&mut rng);
                g.size = size;
                let b: Plushy = g.sample(&mut rng);
                (a.get_genes().len(), b.get_genes().len(), true)
            }
        }
    });
    let (a, b, from_generator) = match lens {
        Ok(r) => r,
        Err(p) => fail!(format!("{name}/panic:{}", panic_key(&p)), "generating {first} and then {size} elements from one generator value panicked: {p}"),
    };
    ensure!(a == first, format!("{name}/wrong-size"), "requested {first} elements, got {a}");
    ensure!(b == size, format!("{name}/wrong-size-after-resize"), "generator made for {first} elements, used, then size = {size}: got {b} elements");
    ensure!(from_generator, format!("{name}/elements-not-from-generator"), "after the resize to {size} the elements are not exactly the element generator's output of that call");
    ensure!(
        elem.calls.get() == (first + size) as u64,
        format!("{name}/element-generator-calls"),
        "{first} and then {size} elements: the element generator was asked {} times",
        elem.calls.get()
    );
    probe.nontrivial = first != size && size >= 1;
    probe.label("generator value re-tuned (size) after use");
    Ok(())
}

fn collection_case(kind: u8, size: usize, seed: u64, borrowed: bool, probe: &mut Probe) -> Result<(), Fail> {
    let elem = Elem::new();
    let mut rng = Counting::new(seed);
    let kind_name = ["Vec<u64>", "Bitstring", "Plushy", "population of individuals", "Vec<Vec<u64>> (nested)"][usize::from(kind % 5)];
    let name = format!("collection<{kind_name}>");
    let (len, asked_expected): (usize, u64) = match guarded(|| -> (usize, u64) {
        match kind % 5 {
            0 => {
                let v: Vec<u64> = if borrowed { elem.to_collection_generator(size).sample(&mut rng) } else { Generator::new(&elem, size).sample(&mut rng) };
                // every element is one the element generator emitted in this call, each exactly once
                // (the order in which they are stored is not part of the property)
                let mut sorted = v.clone();
                sorted.sort_unstable();
                let all_from_generator = sorted.iter().enumerate().all(|(i, x)| *x == i as u64);
                (if all_from_generator { v.len() } else { usize::MAX }, size as u64)
            }
            1 => {
                let b: Bitstring = if borrowed { elem.to_collection_generator(size).sample(&mut rng) } else { (&elem).into_collection_generator(size).sample(&mut rng) };
                (b.bits.len(), size as u64)
            }
            2 => {
                let p: Plushy = if borrowed { elem.to_collection_generator(size).sample(&mut rng) } else { (&elem).into_collection_generator(size).sample(&mut rng) };
                (p.get_genes().len(), size as u64)
            }
            3 => {
                let inner = 3usize;
                let pop: Vec<EcIndividual<Vec<u64>, usize>> = (&elem).into_collection_generator(inner).with_scorer_fn(|g: &Vec<u64>| g.len()).into_collection_generator(size).sample(&mut rng);
                let ok = pop.iter().all(|i| i.genome.len() == inner && i.test_results == inner);
                (if ok { pop.len() } else { usize::MAX }, (size * inner) as u64)
            }
            _ => {
                let inner = 2usize;
                let vv: Vec<Vec<u64>> = (&elem).into_collection_generator(inner).into_collection_generator(size).sample(&mut rng);
                let ok = vv.iter().all(|v| v.len() == inner);
                (if ok { vv.len() } else { usize::MAX }, (size * inner) as u64)
            }
        }
    }) {
        Ok(r) => r,
        Err(p) => fail!(format!("{name}/panic:{}", panic_key(&p)), "generating {size} elements panicked: {p}"),
    };
    ensure!(len != usize::MAX, format!("{name}/elements-not-from-generator"), "requested {size}: the elements are not exactly the element generator's output of this call / inner collections have the wrong size");
    ensure!(len == size, format!("{name}/wrong-size"), "requested {size} elements, got {len}");
    ensure!(
        elem.calls.get() == asked_expected,
        format!("{name}/element-generator-calls"),
        "requested {size} elements: the element generator was asked {} times, expected {asked_expected}",
        elem.calls.get()
    );
    probe.nontrivial = size >= 2;
    if size == 0 {
        probe.label("size 0");
    }
    if size > 4000 {
        probe.label("size > 4000");
    }
    Ok(())
}

/// one sample through a choice flavour: returns (index of the chosen member by identity/value, num_choices if available)
#[derive(Debug)]
enum Built {
    Empty,
    Sample { value: i32, by_identity: Option<bool>, num_choices: Option<usize> },
}

macro_rules! array_flavours {
    ($items:expr, $rng:expr, $flavour:expr, $($n:literal),*) => {{
        let items: &Vec<i32> = $items;
        match items.len() {
            $( $n => {
                let arr: [i32; $n] = std::array::from_fn(|i| items[i]);
                match $flavour {
                    0 => match IntoDistribution::<i32>::into_distribution(arr) {
                        Ok(d) => Some(Built::Sample { value: d.sample($rng), by_identity: None, num_choices: Some(d.num_choices().get()) }),
                        Err(_) => Some(Built::Empty),
                    },
                    1 => match IntoDistribution::<&i32>::into_distribution(&arr) {
                        Ok(d) => { let r: &i32 = d.sample($rng); Some(Built::Sample { value: *r, by_identity: Some(arr.iter().any(|x| std::ptr::eq(x, r))), num_choices: Some(ChoicesDistribution::num_choices(&d).get()) }) }
                        Err(_) => Some(Built::Empty),
                    },
                    2 => match IntoDistribution::<i32>::into_distribution(&arr) {
                        Ok(d) => Some(Built::Sample { value: d.sample($rng), by_identity: None, num_choices: Some(d.num_choices().get()) }),
                        Err(_) => Some(Built::Empty),
                    },
                    3 => match ToDistribution::<i32>::to_distribution(&arr) {
                        Ok(d) => Some(Built::Sample { value: d.sample($rng), by_identity: None, num_choices: Some(d.num_choices().get()) }),
                        Err(_) => Some(Built::Empty),
                    },
                    _ => match ToDistribution::<&i32>::to_distribution(&arr) {
                        Ok(d) => { let r: &i32 = d.sample($rng); Some(Built::Sample { value: *r, by_identity: Some(arr.iter().any(|x| std::ptr::eq(x, r))), num_choices: Some(ChoicesDistribution::num_choices(&d).get()) }) }
                        Err(_) => Some(Built::Empty),
                    },
                }
            } )*
            _ => None,
        }
    }};
}

pub const FLAVOURS: [&str; 15] = [
    "Vec into_distribution (owned, cloning)",
    "&Vec into_distribution::<&T> (borrowing)",
    "&Vec into_distribution::<T> (cloning)",
    "Vec to_distribution::<T> (cloning)",
    "Vec to_distribution::<&T> (borrowing)",
    "array into_distribution (owned, cloning)",
    "&array into_distribution::<&T> (borrowing)",
    "&array into_distribution::<T> (cloning)",
    "array to_distribution::<T> (cloning)",
    "array to_distribution::<&T> (borrowing)",
    "&[T] into_distribution::<&T> (borrowing)",
    "&[T] into_distribution::<T> (cloning)",
    "[T] to_distribution::<&T> (borrowing)",
    "[T] to_distribution::<T> (cloning)",
    "uniform_distribution_of! (owned array)",
];

fn sample_flavour<R: Rng>(flavour: u8, items: &Vec<i32>, rng: &mut R) -> Option<Built> {
    let ident = |r: &i32| Some(items.iter().any(|x| std::ptr::eq(x, r)));
    Some(match flavour {
        0 => match items.clone().into_distribution() {
            Ok(d) => Built::Sample { value: d.sample(rng), by_identity: None, num_choices: Some(d.num_choices().get()) },
            Err(_) => Built::Empty,
        },
        1 => match IntoDistribution::<&i32>::into_distribution(items) {
            Ok(d) => {
                let r: &i32 = d.sample(rng);
                Built::Sample { value: *r, by_identity: ident(r), num_choices: Some(ChoicesDistribution::num_choices(&d).get()) }
            }
            Err(_) => Built::Empty,
        },
        2 => match IntoDistribution::<i32>::into_distribution(items) {
            Ok(d) => Built::Sample { value: d.sample(rng), by_identity: None, num_choices: Some(d.num_choices().get()) },
            Err(_) => Built::Empty,
        },
        3 => match ToDistribution::<i32>::to_distribution(items) {
            Ok(d) => Built::Sample { value: d.sample(rng), by_identity: None, num_choices: Some(d.num_choices().get()) },
            Err(_) => Built::Empty,
        },
        4 => match ToDistribution::<&i32>::to_distribution(items) {
            Ok(d) => {
                let r: &i32 = d.sample(rng);
                Built::Sample { value: *r, by_identity: ident(r), num_choices: Some(ChoicesDistribution::num_choices(&d).get()) }
            }
            Err(_) => Built::Empty,
        },
        5..=9 => return array_flavours!(items, rng, flavour - 5, 0, 1, 2, 3, 4, 5, 6, 7, 8, 13, 100),
        10 => match IntoDistribution::<&i32>::into_distribution(items.as_slice()) {
            Ok(d) => {
                let r: &i32 = d.sample(rng);
                Built::Sample { value: *r, by_identity: ident(r), num_choices: Some(ChoicesDistribution::num_choices(&d).get()) }
            }
            Err(_) => Built::Empty,
        },
        11 => match IntoDistribution::<i32>::into_distribution(items.as_slice()) {
            Ok(d) => Built::Sample { value: d.sample(rng), by_identity: None, num_choices: Some(d.num_choices().get()) },
            Err(_) => Built::Empty,
        },
        12 => match ToDistribution::<&i32>::to_distribution(items.as_slice()) {
            Ok(d) => {
                let r: &i32 = d.sample(rng);
                Built::Sample { value: *r, by_identity: ident(r), num_choices: Some(ChoicesDistribution::num_choices(&d).get()) }
            }
            Err(_) => Built::Empty,
        },
        13 => match ToDistribution::<i32>::to_distribution(items.as_slice()) {
            Ok(d) => Built::Sample { value: d.sample(rng), by_identity: None, num_choices: Some(d.num_choices().get()) },
            Err(_) => Built::Empty,
        },
        _ => {
            // the macro needs literal items: use the first three members (or fewer)
            match items.len() {
                0 => return None,
                1 => {
                    let d = uniform_distribution_of![items[0]];
                    Built::Sample { value: d.sample(rng), by_identity: None, num_choices: Some(d.num_choices().get()) }
                }
                2 => {
                    let d = uniform_distribution_of![items[0], items[1]];
                    Built::Sample { value: d.sample(rng), by_identity: None, num_choices: Some(d.num_choices().get()) }
                }
                _ => {
                    let d = uniform_distribution_of![<i64> items[0], items[1], items[2]];
                    let v: i64 = d.sample(rng);
                    Built::Sample { value: v as i32, by_identity: None, num_choices: Some(d.num_choices().get() + items.len() - 3) }
                }
            }
        }
    })
}

fn choice_case(flavour: u8, items: &Vec<i32>, seed: u64, draws: u8, probe: &mut Probe) -> Result<(), Fail> {
    let f = flavour % FLAVOURS.len() as u8;
    let fname = FLAVOURS[usize::from(f)];
    let mut rng = Counting::new(seed);
    for _ in 0..draws.max(1) {
        let r = guarded(|| sample_flavour(f, items, &mut rng));
        match r {
            Err(p) => {
                let aspect = if items.is_empty() { "panic-on-empty" } else { "panic" };
                fail!(format!("choice/{aspect}"), "{fname} over {items:?} panicked: {p} ({})", panic_key(&p))
            }
            Ok(None) => return Ok(()),
            Ok(Some(Built::Empty)) => {
                ensure!(items.is_empty(), "choice/spurious-empty-error", "{fname} over the non-empty {items:?} was rejected as empty");
                probe.label("empty source rejected at construction");
            }
            Ok(Some(Built::Sample { value, by_identity, num_choices })) => {
                ensure!(!items.is_empty(), "choice/empty-source-accepted", "{fname}: built from an empty collection and sampled {value}");
                let members = if f == 14 { &items[..items.len().min(3)] } else { &items[..] };
                ensure!(members.contains(&value), "choice/not-a-member", "{fname} over {items:?} returned {value}");
                if let Some(same) = by_identity {
                    ensure!(same, "choice/borrowed-sample-not-from-collection", "{fname} over {items:?} returned a reference to {value} that does not point into the source collection");
                }
                if let Some(n) = num_choices {
                    ensure!(n == items.len(), "choice/num_choices", "{fname} over {} members reports num_choices() = {n}", items.len());
                }
            }
        }
    }
    probe.nontrivial = items.len() >= 2;
    Ok(())
}

pub fn oracle(c: &Case, probe: &mut Probe) -> Result<(), Fail> {
    match c {
        Case::Collection { kind, size, seed, borrowed } => collection_case(*kind, *size, *seed, *borrowed, probe),
        Case::Choice { flavour, items, seed, draws } => choice_case(*flavour, items, *seed, *draws, probe),
        Case::Resized { kind, first, size, seed } => resized_case(*kind, *first, *size, *seed, probe),
        Case::RandomBits { len, p, seed } => random_bits_case(*len, *p, *seed, probe),
    }
}

pub fn strategy(max_size: usize) -> BoxedStrategy<Case> {
    prop_oneof![
        2 => (0u8..5, prop_oneof![4 => 0usize..=20, 3 => 0usize..=max_size, 1 => prop::sample::select(vec![255usize, 256, 257, 1023, 1024, 1025, 4095, 4096, 4097, 5000])], any::<u64>(), any::<bool>())
            .prop_map(|(kind, size, seed, borrowed)| Case::Collection { kind, size, seed, borrowed }),
        3 => (0u8..15, prop_oneof![1 => Just(vec![]), 6 => prop::collection::vec(-3i32..4, 1..=8), 2 => prop::collection::vec(any::<i32>(), 1..=8)], any::<u64>(), 1u8..5)
            .prop_map(|(flavour, items, seed, draws)| Case::Choice { flavour, items, seed, draws }),
        1 => (0u8..3, 0usize..=40, prop_oneof![3 => 0usize..=40, 1 => 0usize..=max_size], any::<u64>()).prop_map(|(kind, first, size, seed)| Case::Resized { kind, first, size, seed }),
        1 => (
            prop_oneof![4 => 0usize..=70, 3 => 0usize..=max_size, 1 => prop::sample::select(vec![63usize, 64, 65, 127, 128, 129, 4095, 4096, 4097, 8191, 8193, 65_535, 65_537])],
            prop_oneof![1 => Just(None), 1 => (0.0f64..=1.0).prop_map(Some), 1 => prop::sample::select(vec![0.0f64, 1.0, 0.5]).prop_map(Some)],
            any::<u64>()
        )
            .prop_map(|(len, p, seed)| Case::RandomBits { len, p, seed }),
    ]
    .boxed()
}

fn uniformity_jobs() -> Vec<Job> {
    let mut jobs = vec![];
    for flavour in 0u8..15 {
        for len in [1usize, 2, 3, 5, 8, 13, 100, 200] {
            if len == 200 && (5..=9).contains(&flavour) {
                continue; // arrays are instantiated up to 100 members
            }
            if len > 8 && flavour == 14 {
                continue; // the macro flavour uses three members
            }
            for dup in [false, true] {
                if dup && len < 3 {
                    continue;
                }
                // distinct values identify the member; with duplicates the value's multiplicity weighs
                let items: Vec<i32> = (0..len).map(|i| if dup && i % 3 == 2 { 0 } else { i as i32 * 10 }).collect();
                let shown = if items.len() <= 8 { format!("{items:?}") } else { format!("{} members {:?}..", items.len(), &items[..4]) };
                let name = format!("{} over {shown}", FLAVOURS[usize::from(flavour)]);
                jobs.push(Job {
                    name: name.clone(),
                    run: Box::new(move |trials, seed| {
                        let mut rng = StdRng::seed_from_u64(seed);
                        let members: Vec<i32> = if flavour == 14 { items[..items.len().min(3)].to_vec() } else { items.clone() };
                        let mut distinct = members.clone();
                        distinct.sort_unstable();
                        distinct.dedup();
                        let mut counts = vec![0u64; distinct.len()];
                        // successive samples are independent: disjoint pairs (2t, 2t+1) agree with probability sum p_i^2
                        let (mut previous, mut same_pairs, mut pairs) = (None::<usize>, 0u64, 0u64);
                        for t in 0..trials {
                            match guarded(|| sample_flavour(flavour, &items, &mut rng)) {
                                Ok(Some(Built::Sample { value, .. })) => match distinct.iter().position(|d| *d == value) {
                                    Some(i) => {
                                        counts[i] += 1;
                                        if t % 2 == 1 {
                                            pairs += 1;
                                            same_pairs += u64::from(previous == Some(i));
                                        }
                                        previous = Some(i);
                                    }
                                    None => return Err(Fail::new("choice/not-a-member", format!("{name}: returned {value}"))),
                                },
                                Ok(_) => return Err(Fail::new("choice/spurious-empty-error", format!("{name}: rejected"))),
                                Err(p) => return Err(Fail::new("choice/panic", format!("{name}: {p}"))),
                            }
                        }
                        let mut stats: Vec<Stat> = distinct
                            .iter()
                            .enumerate()
                            .map(|(i, v)| {
                                let mult = members.iter().filter(|m| *m == v).count();
                                Stat::new("choice/not-uniform", format!("{name}: value {v} chosen"), counts[i], trials, mult as f64 / members.len() as f64)
                            })
                            .collect();
                        let p_same: f64 = distinct.iter().map(|v| (members.iter().filter(|m| *m == v).count() as f64 / members.len() as f64).powi(2)).sum();
                        stats.push(Stat::new("choice/successive-samples-not-independent", format!("{name}: two successive samples are the same value"), same_pairs, pairs, p_same.min(1.0)));
                        Ok(stats)
                    }),
                });
            }
        }
    }
    jobs
}

/// Long sources, built once and sampled many times (the jobs above rebuild the distribution for
/// every sample and stop at 200 members): members 0..len identify themselves, frequencies are
/// judged in 16 index buckets plus the first and last three members individually.
fn long_choice_jobs() -> Vec<Job> {
    let mut jobs = vec![];
    macro_rules! long_job {
        ($fname:expr, $len:expr, |$items:ident| $build:expr, |$x:ident| $val:expr) => {{
            let len: usize = $len;
            let name = format!("{} over {len} members, built once", $fname);
            jobs.push(Job {
                name: name.clone(),
                run: Box::new(move |trials, seed| {
                    let mut rng = StdRng::seed_from_u64(seed);
                    let $items: Vec<i32> = (0..len as i32).collect();
                    let built = guarded(|| $build.map(|d| {
                        let n = ChoicesDistribution::num_choices(&d).get();
                        (d, n)
                    }));
                    let (d, n) = match built {
                        Ok(Ok(x)) => x,
                        Ok(Err(_)) => return Err(Fail::new("choice/spurious-empty-error", format!("{name}: rejected"))),
                        Err(p) => return Err(Fail::new("choice/panic", format!("{name}: {p}"))),
                    };
                    if n != len {
                        return Err(Fail::new("choice/num_choices", format!("{name}: num_choices() = {n}")));
                    }
                    let mut buckets = [0u64; 16];
                    let mut ends = [0u64; 6];
                    for _ in 0..trials {
                        let $x = d.sample(&mut rng);
                        let v: i32 = $val;
                        if v < 0 || v as usize >= len {
                            return Err(Fail::new("choice/not-a-member", format!("{name}: returned {v}")));
                        }
                        let v = v as usize;
                        buckets[v * 16 / len] += 1;
                        if v < 3 {
                            ends[v] += 1;
                        }
                        if v + 3 >= len {
                            ends[3 + (len - 1 - v)] += 1;
                        }
                    }
                    let mut stats = vec![];
                    for (b, k) in buckets.iter().enumerate() {
                        let members = (0..len).filter(|v| v * 16 / len == b).count();
                        stats.push(Stat::new("choice/not-uniform", format!("{name}: a member of index bucket {b}/16 chosen"), *k, trials, members as f64 / len as f64));
                    }
                    for (i, k) in ends.iter().enumerate() {
                        let which = if i < 3 { format!("member {i}") } else { format!("member {}", len - 1 - (i - 3)) };
                        stats.push(Stat::new("choice/not-uniform", format!("{name}: {which} chosen"), *k, trials, 1.0 / len as f64));
                    }
                    Ok(stats)
                }),
            });
        }};
    }
    for len in [255usize, 256, 257, 1000, 4096, 65_537] {
        long_job!(FLAVOURS[0], len, |items| items.clone().into_distribution(), |x| x);
        long_job!(FLAVOURS[1], len, |items| IntoDistribution::<&i32>::into_distribution(&items), |x| *x);
        long_job!(FLAVOURS[2], len, |items| IntoDistribution::<i32>::into_distribution(&items), |x| x);
        long_job!(FLAVOURS[3], len, |items| ToDistribution::<i32>::to_distribution(&items), |x| x);
        long_job!(FLAVOURS[4], len, |items| ToDistribution::<&i32>::to_distribution(&items), |x| *x);
        long_job!(FLAVOURS[10], len, |items| IntoDistribution::<&i32>::into_distribution(items.as_slice()), |x| *x);
        long_job!(FLAVOURS[11], len, |items| IntoDistribution::<i32>::into_distribution(items.as_slice()), |x| x);
        long_job!(FLAVOURS[12], len, |items| ToDistribution::<&i32>::to_distribution(items.as_slice()), |x| *x);
        long_job!(FLAVOURS[13], len, |items| ToDistribution::<i32>::to_distribution(items.as_slice()), |x| x);
    }
    jobs
}

/// Sources with tens of millions of members (beyond the 24 bits of an f32 draw): the chosen index is
/// judged by its residues mod 2, 3, 5 and 8 and by 16 index buckets.  Members are `u32` indices.
fn huge_choice_jobs() -> Vec<Job> {
    let mut jobs = vec![];
    for (flavour, len) in [(0usize, 3usize << 23), (11, (1usize << 25) + 1)] {
        let name = format!("{} over {len} members, built once", FLAVOURS[flavour]);
        jobs.push(Job {
            name: name.clone(),
            run: Box::new(move |trials, seed| {
                let trials = trials / 2;
                let mut rng = StdRng::seed_from_u64(seed);
                let items: Vec<u32> = (0..len as u32).collect();
                let mut classes: Vec<(usize, Vec<u64>)> = vec![(2, vec![0; 2]), (3, vec![0; 3]), (5, vec![0; 5]), (8, vec![0; 8])];
                let mut buckets = [0u64; 16];
                let mut note = |v: u32| -> Result<(), Fail> {
                    let v = v as usize;
                    if v >= len {
                        return Err(Fail::new("choice/not-a-member", format!("{name}: returned {v}")));
                    }
                    for (m, c) in &mut classes {
                        c[v % *m] += 1;
                    }
                    buckets[v / len.div_ceil(16)] += 1;
                    Ok(())
                };
                if flavour == 0 {
                    let d = match guarded(|| items.into_distribution()) {
                        Ok(Ok(d)) => d,
                        Ok(Err(_)) => return Err(Fail::new("choice/spurious-empty-error", format!("{name}: rejected"))),
                        Err(p) => return Err(Fail::new("choice/panic", format!("{name}: {p}"))),
                    };
                    if ChoicesDistribution::num_choices(&d).get() != len {
                        return Err(Fail::new("choice/num_choices", format!("{name}: num_choices() = {}", ChoicesDistribution::num_choices(&d))));
                    }
                    for _ in 0..trials {
                        note(d.sample(&mut rng))?;
                    }
                } else {
                    let d = match guarded(|| IntoDistribution::<u32>::into_distribution(items.as_slice())) {
                        Ok(Ok(d)) => d,
                        Ok(Err(_)) => return Err(Fail::new("choice/spurious-empty-error", format!("{name}: rejected"))),
                        Err(p) => return Err(Fail::new("choice/panic", format!("{name}: {p}"))),
                    };
                    if ChoicesDistribution::num_choices(&d).get() != len {
                        return Err(Fail::new("choice/num_choices", format!("{name}: num_choices() = {}", ChoicesDistribution::num_choices(&d))));
                    }
                    for _ in 0..trials {
                        note(d.sample(&mut rng))?;
                    }
                }
                let mut stats = vec![];
                for (m, c) in &classes {
                    for (r, k) in c.iter().enumerate() {
                        let members = (0..*m).filter(|x| *x == r).map(|x| (len - x).div_ceil(*m)).sum::<usize>();
                        stats.push(Stat::new("choice/not-uniform", format!("{name}: index congruent {r} mod {m} chosen"), *k, trials, members as f64 / len as f64));
                    }
                }
                let width = len.div_ceil(16);
                for (b, k) in buckets.iter().enumerate() {
                    let members = (len.min((b + 1) * width)).saturating_sub(b * width);
                    stats.push(Stat::new("choice/not-uniform", format!("{name}: a member of index bucket {b}/16 chosen"), *k, trials, members as f64 / len as f64));
                }
                Ok(stats)
            }),
        });
    }
    jobs
}

/// Sources whose length makes a 32-bit index sampler *reject and redraw* often: for n = 3 * 2^26 members one
/// 32-bit word in 64 falls into the rejection zone (2^32 mod n = n / 3), so whatever happens after a rejected
/// word carries 1/64 of the probability mass and shows in the frequencies of the three thirds of the source.
fn rejection_heavy_jobs() -> Vec<Job> {
    let mut jobs = vec![];
    const THIRD: usize = 1 << 26;
    let len = 3 * THIRD;
    for flavour in [0usize, 10, 11] {
        let name = format!("{} over {len} members (3 * 2^26: every 64th 32-bit word is rejected), built once", FLAVOURS[flavour]);
        jobs.push(Job {
            name: name.clone(),
            run: Box::new(move |trials, seed| {
                let mut rng = StdRng::seed_from_u64(seed);
                // a member's value is the third of the source it lies in
                let items: Vec<u8> = (0..len).map(|i| (i / THIRD) as u8).collect();
                let mut thirds = [0u64; 3];
                let bad = |v: u8| Fail::new("choice/not-a-member", format!("{name}: returned {v}"));
                let built = guarded(|| -> Result<(), Fail> {
                    match flavour {
                        0 => {
                            let d = items.into_distribution().map_err(|_| Fail::new("choice/spurious-empty-error", format!("{name}: rejected")))?;
                            if ChoicesDistribution::num_choices(&d).get() != len {
                                return Err(Fail::new("choice/num_choices", format!("{name}: num_choices() = {}", ChoicesDistribution::num_choices(&d))));
                            }
                            for _ in 0..trials {
                                let v: u8 = d.sample(&mut rng);
                                *thirds.get_mut(usize::from(v)).ok_or_else(|| bad(v))? += 1;
                            }
                        }
                        10 => {
                            let d = IntoDistribution::<&u8>::into_distribution(items.as_slice()).map_err(|_| Fail::new("choice/spurious-empty-error", format!("{name}: rejected")))?;
                            for _ in 0..trials {
                                let v: &u8 = d.sample(&mut rng);
                                *thirds.get_mut(usize::from(*v)).ok_or_else(|| bad(*v))? += 1;
                            }
                        }
                        _ => {
                            let d = IntoDistribution::<u8>::into_distribution(items.as_slice()).map_err(|_| Fail::new("choice/spurious-empty-error", format!("{name}: rejected")))?;
                            for _ in 0..trials {
                                let v: u8 = d.sample(&mut rng);
                                *thirds.get_mut(usize::from(v)).ok_or_else(|| bad(v))? += 1;
                            }
                        }
                    }
                    Ok(())
                });
                match built {
                    Ok(r) => r?,
                    Err(p) => return Err(Fail::new("choice/panic", format!("{name}: {p}"))),
                }
                Ok((0..3).map(|t| Stat::new("choice/not-uniform", format!("{name}: a member of third {t} chosen"), thirds[t], trials, 1.0 / 3.0)).collect())
            }),
        });
    }
    jobs
}

/// `num_choices()` asked through references to a choice distribution (`&d`, `&&d`, `&mut d`, `&mut &mut d`,
/// `&dyn ChoicesDistribution`, a generic function taking `D: ChoicesDistribution` by value): the forwarding
/// impls must report the count of the distribution they point to.  Run by `vprobe c18-forwarding` (an unoptimised build) in
/// a process of its own (see `forwarding_check`).
pub fn forwarding_probe() -> Result<usize, String> {
    fn by_value<D: ChoicesDistribution>(d: D) -> usize {
        d.num_choices().get()
    }
    let mut asked = 0;
    for len in [1usize, 3, 8, 100] {
        let items: Vec<u32> = (0..len as u32).collect();
        macro_rules! ask {
            ($what:literal, $d:expr) => {{
                let mut d = $d;
                let direct = ChoicesDistribution::num_choices(&d).get();
                let shared = by_value(&d);
                let shared2 = by_value(&&d);
                let dynamic = {
                    let r: &dyn ChoicesDistribution = &d;
                    by_value(r)
                };
                let exclusive = by_value(&mut d);
                let exclusive2 = {
                    let mut m = &mut d;
                    by_value(&mut m)
                };
                let shared_exclusive = {
                    let m = &mut d;
                    by_value(&m)
                };
                let dynamic_exclusive = {
                    let r: &mut dyn ChoicesDistribution = &mut d;
                    by_value(r)
                };
                for (how, n) in [("d", direct), ("&d", shared), ("&&d", shared2), ("&dyn", dynamic), ("&mut d", exclusive), ("&mut &mut d", exclusive2), ("&&mut d", shared_exclusive), ("&mut dyn", dynamic_exclusive)] {
                    asked += 1;
                    if n != len {
                        return Err(format!("{} over {len} members asked through {how}: num_choices() = {n}", $what));
                    }
                }
            }};
        }
        ask!("Vec into_distribution (owned)", items.clone().into_distribution().map_err(|_| "rejected".to_string())?);
        ask!("&[T] into_distribution::<&T>", IntoDistribution::<&u32>::into_distribution(items.as_slice()).map_err(|_| "rejected".to_string())?);
        ask!("&[T] into_distribution::<T>", IntoDistribution::<u32>::into_distribution(items.as_slice()).map_err(|_| "rejected".to_string())?);
    }
    Ok(asked)
}

/// The probe above in a child process: a forwarding impl that calls itself does not return - it overflows the
/// stack, which ends the process it runs in. A child that dies that way is a violation (the crash is the code
/// under test's, on trivial inputs); a child that runs into the time limit makes the run inconclusive.
fn forwarding_check(ctx: &mut Ctx) {
    // built without optimisation, so that a call that never returns overflows the stack instead of spinning
    let dir = format!("{}/harness", std::env::var("VERIF_DIR_REAL").unwrap_or_else(|_| crate::VERIF_DIR.to_string()));
    let built = std::process::Command::new("cargo")
        .args(["build", "--offline", "--profile", "probe", "--bin", "vprobe"])
        .current_dir(&dir)
        .env("CARGO_NET_OFFLINE", "true")
        .output();
    match built {
        Ok(o) if o.status.success() => {}
        Ok(o) => {
            let e = String::from_utf8_lossy(&o.stderr);
            ctx.inconclusive.push(format!("forwarding probe does not build: {:?}", e.lines().filter(|l| l.starts_with("error")).take(3).collect::<Vec<_>>()));
            return;
        }
        Err(e) => {
            ctx.inconclusive.push(format!("forwarding probe: cannot run cargo: {e}"));
            return;
        }
    }
    let child = std::process::Command::new(format!("{dir}/target/probe/vprobe")).arg("c18-forwarding").stdout(std::process::Stdio::piped()).stderr(std::process::Stdio::piped()).spawn();
    let Ok(mut child) = child else {
        ctx.inconclusive.push("forwarding probe: cannot start the child process".into());
        return;
    };
    let t0 = std::time::Instant::now();
    let status = loop {
        match child.try_wait() {
            Ok(Some(s)) => break Some(s),
            Ok(None) if t0.elapsed().as_secs() < 120 => std::thread::sleep(std::time::Duration::from_millis(20)),
            _ => {
                let _ = child.kill();
                let _ = child.wait();
                break None;
            }
        }
    };
    let mut out = String::new();
    let mut err = String::new();
    if let Some(mut o) = child.stdout.take() {
        let _ = std::io::Read::read_to_string(&mut o, &mut out);
    }
    if let Some(mut e) = child.stderr.take() {
        let _ = std::io::Read::read_to_string(&mut e, &mut err);
    }
    ctx.count("num_choices_through_references", 96);
    match status {
        None => ctx.inconclusive.push("forwarding probe: the child process did not finish within 120 s (num_choices() through a reference does not return)".into()),
        Some(s) if s.success() && out.contains("forwarding ok") => {
            ctx.note_nontrivial(crate::fnv("forwarding"));
        }
        Some(s) => {
            let first = out.lines().chain(err.lines()).find(|l| l.contains("num_choices") || l.contains("overflow") || l.contains("panicked")).unwrap_or("no output").to_string();
            let f = if out.contains("WRONG:") {
                Fail::new("choice/num_choices-through-a-reference", format!("num_choices() asked through a reference: {first}"))
            } else {
                Fail::new(
                    "choice/num_choices-through-a-reference-crashes",
                    format!("asking num_choices() through references (&d, &&d, &dyn, &mut d, &mut &mut d, &&mut d, &mut dyn) ended the probe process abnormally ({s}): {first}"),
                )
            };
            ctx.violation("num_choices_through_references", &f, serde_json::json!({"probe": "harness/target/probe/vprobe c18-forwarding"}));
        }
    }
}

/// Member counts beyond 16 and 32 bits, reachable at no cost with zero-sized members: every flavour must
/// accept the collection, report exactly its length and hand out a member.
fn wide_count_check(ctx: &mut Ctx) {
    let lens: Vec<u64> = vec![255, 256, 65_535, 65_536, 65_537, (1 << 32) - 1, 1 << 32, (1 << 32) + 5, (1 << 33) + 1];
    let seed = ctx.seed;
    ctx.run_cases("wide_member_counts", lens, |len, probe| {
        let len = *len as usize;
        probe.nontrivial = true;
        let items: Vec<()> = vec![(); len];
        let mut rng = StdRng::seed_from_u64(seed ^ len as u64);
        macro_rules! flavour {
            ($name:expr, $build:expr) => {{
                match guarded(|| $build.map(|d| (ChoicesDistribution::num_choices(&d).get(), { let _ = d.sample(&mut rng); }))) {
                    Err(p) => fail!("choice/panic", "{} over {len} zero-sized members panicked: {p}", $name),
                    Ok(Err(_)) => fail!("choice/spurious-empty-error", "{} over {len} zero-sized members was rejected as empty", $name),
                    Ok(Ok((n, ()))) => ensure!(n == len, "choice/num_choices", "{} over {len} zero-sized members reports num_choices() = {n}", $name),
                }
            }};
        }
        flavour!(FLAVOURS[0], items.clone().into_distribution());
        flavour!(FLAVOURS[1], IntoDistribution::<&()>::into_distribution(&items));
        flavour!(FLAVOURS[2], IntoDistribution::<()>::into_distribution(&items));
        flavour!(FLAVOURS[3], ToDistribution::<()>::to_distribution(&items));
        flavour!(FLAVOURS[4], ToDistribution::<&()>::to_distribution(&items));
        flavour!(FLAVOURS[10], IntoDistribution::<&()>::into_distribution(items.as_slice()));
        flavour!(FLAVOURS[11], IntoDistribution::<()>::into_distribution(items.as_slice()));
        flavour!(FLAVOURS[12], ToDistribution::<&()>::to_distribution(items.as_slice()));
        flavour!(FLAVOURS[13], ToDistribution::<()>::to_distribution(items.as_slice()));
        Ok(())
    });
}

pub fn run(ctx: &mut Ctx) {
    ctx.rule = "collections: sizes 0..300 plus boundary sizes up to 5000 (and 100000 once per run; bitstrings of 2^24+1, 2^25+1 and 2^26+2 bits once per run, also through Bitstring::random / random_with_probability, which are exercised at all other sizes too) through Generator for Vec<T>, Bitstring, Plushy, populations of scored individuals and nested collections, into_ and to_ flavours, with an element generator that counts how often it is asked and tags what it emits (length = size, asked exactly size times, elements are exactly the generator's output). choices: all 14 conversion flavours of conversion.rs (Vec / array / slice x into / to x owned-cloning / borrowing / cloning) plus uniform_distribution_of!, sources of length 0..8 (membership) and 1..200 (frequencies) with and without duplicates, plus the Vec / slice flavours built once over 255..65537 members and sampled many times (16 index buckets and the end members), two sources of 25 and 33 million members (index residues mod 2, 3, 5, 8 and 16 buckets: beyond the resolution of a 24-bit draw), and sources of up to 2^33+1 zero-sized members (accepted, num_choices exact); num_choices() asked through &d, &&d, &dyn, &mut d, &mut &mut d, &&mut d, &mut dyn (in a child process: a forwarding impl that never returns ends that process, not the check): empty => rejected at construction without panic; samples are members (pointer identity for borrowing flavours), num_choices = length; member frequencies = multiplicity / length (Chernoff/KL). non-trivial = size >= 2 / source length >= 2; statistics with 0 < p < 1".into();
    let (n, trials, max) = ctx.tier.pick((300_000u32, 1_000_000u64, 300usize), (5_000_000, 10_000_000, 2_000));
    // one very large request per run
    ctx.run_cases(
        "large_requests",
        vec![
            Case::Collection { kind: 0, size: 100_000, seed: ctx.seed, borrowed: false },
            Case::Collection { kind: 1, size: 100_000, seed: ctx.seed, borrowed: true },
            Case::Collection { kind: 2, size: 65_537, seed: ctx.seed, borrowed: false },
            Case::Collection { kind: 3, size: 10_000, seed: ctx.seed, borrowed: false },
            // beyond the integers an f32 represents exactly (2^24), at sizes that are one or two past a multiple of 64
            Case::RandomBits { len: (1 << 24) + 1, p: None, seed: ctx.seed },
            Case::RandomBits { len: (1 << 24) + 1, p: Some(0.25), seed: ctx.seed },
            Case::RandomBits { len: (1 << 25) + 1, p: None, seed: ctx.seed },
            Case::RandomBits { len: (1 << 26) + 2, p: None, seed: ctx.seed },
            Case::Collection { kind: 1, size: (1 << 24) + 1, seed: ctx.seed, borrowed: false },
        ],
        oracle,
    );
    ctx.run_prop("generated", n, move || strategy(max), oracle);
    run_jobs(ctx, "choice_uniformity", uniformity_jobs(), trials);
    run_jobs(ctx, "choice_uniformity_long_sources", long_choice_jobs(), trials);
    run_jobs(ctx, "choice_uniformity_huge_sources", huge_choice_jobs(), trials);
    run_jobs(ctx, "choice_uniformity_rejection_heavy_sources", rejection_heavy_jobs(), trials);
    wide_count_check(ctx);
    forwarding_check(ctx);
    // coverage-guided search over the same strategies and oracles (thorough tier; see ptfuzz.rs)
    crate::ptfuzz::thorough(ctx, &[("c18", 16, 1_000_000)]);
}

pub fn replay(ctx: &mut Ctx, sub: &str, case: &Value) {
    if sub == "choice_uniformity" {
        let trials = ctx.tier.pick(1_000_000u64, 10_000_000);
        run_jobs(ctx, "choice_uniformity", uniformity_jobs(), trials);
    } else if sub == "choice_uniformity_huge_sources" {
        let trials = ctx.tier.pick(1_000_000u64, 10_000_000);
        run_jobs(ctx, "choice_uniformity_huge_sources", huge_choice_jobs(), trials);
    } else if sub == "wide_member_counts" {
        wide_count_check(ctx);
    } else if sub == "num_choices_through_references" {
        forwarding_check(ctx);
    } else if sub == "choice_uniformity_long_sources" {
        let trials = ctx.tier.pick(1_000_000u64, 10_000_000);
        run_jobs(ctx, "choice_uniformity_long_sources", long_choice_jobs(), trials);
    } else {
        ctx.replay_case::<Case, _>(sub, case, oracle);
    }
}
