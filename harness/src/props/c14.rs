//! C14 — composed operators run their parts in order and stop at the first failure.

use std::cell::RefCell;
use std::collections::BTreeMap;

use ec_core::individual::ec::EcIndividual;
use ec_core::individual::scorer::Scorer;
use ec_core::operator::constant::Constant;
use ec_core::operator::genome_extractor::GenomeExtractor;
use ec_core::operator::genome_scorer::GenomeScorer;
use ec_core::operator::identity::Identity;
use ec_core::operator::mutator::{Mutate, Mutator};
use ec_core::operator::recombinator::{Recombinator, Recombine};
use ec_core::operator::selector::{Select, Selector};
use ec_core::operator::{Composable, DynOperator, Operator};
use std::error::Error as StdError;
use std::marker::PhantomData;
use ec_core::test_results::Score;
use proptest::prelude::*;
use rand::{Rng, RngCore};
use serde::{Deserialize, Serialize};
use serde_json::Value;

use crate::props::c06::population;
use crate::rngs::Counting;
use crate::selharness::{build, Pop, Sel, Spec};
use crate::{ensure, fail, guarded, panic_key, Ctx, Fail, Probe};

#[derive(Clone, Debug, PartialEq, Serialize, Deserialize)]
pub enum V {
    Int(i64),
    Tag(u8, Box<V>),
    Pair(Box<V>, Box<V>),
    List(Vec<V>),
}

fn as_pair(v: V) -> (V, V) {
    match v {
        V::Pair(a, b) => (*a, *b),
        other => (other.clone(), V::Tag(255, Box::new(other))),
    }
}
fn as_list(v: V) -> Vec<V> {
    match v {
        V::List(l) => l,
        V::Pair(a, b) => vec![*a, *b],
        other => vec![other.clone(), V::Tag(254, Box::new(other.clone())), other],
    }
}

#[derive(Clone, Debug, PartialEq, Serialize, Deserialize)]
pub enum OpSpec {
    Probe { id: u8, draws: u8, fail_on_call: Option<u8> },
    Identity,
    Constant(i64),
    Then(Box<OpSpec>, Box<OpSpec>),
    And(Box<OpSpec>, Box<OpSpec>),
    MapArr(Box<OpSpec>),
    MapTup(Box<OpSpec>),
    MapVec(Box<OpSpec>),
    Repeat(u8, Box<OpSpec>),
    /// f.apply_twice().then_map(g)
    TwiceThenMap(Box<OpSpec>, Box<OpSpec>),
}

impl OpSpec {
    fn depth(&self) -> usize {
        match self {
            Self::Probe { .. } | Self::Identity | Self::Constant(_) => 1,
            Self::Then(a, b) | Self::And(a, b) | Self::TwiceThenMap(a, b) => 1 + a.depth().max(b.depth()),
            Self::MapArr(a) | Self::MapTup(a) | Self::MapVec(a) | Self::Repeat(_, a) => 1 + a.depth(),
        }
    }
    fn drawing_probes(&self) -> usize {
        match self {
            Self::Probe { draws, .. } => usize::from(*draws > 0),
            Self::Identity | Self::Constant(_) => 0,
            Self::Then(a, b) | Self::And(a, b) | Self::TwiceThenMap(a, b) => a.drawing_probes() + b.drawing_probes(),
            Self::MapArr(a) | Self::MapTup(a) | Self::MapVec(a) | Self::Repeat(_, a) => a.drawing_probes(),
        }
    }
    fn has_failure(&self) -> bool {
        match self {
            Self::Probe { fail_on_call, .. } => fail_on_call.is_some(),
            Self::Identity | Self::Constant(_) => false,
            Self::Then(a, b) | Self::And(a, b) | Self::TwiceThenMap(a, b) => a.has_failure() || b.has_failure(),
            Self::MapArr(a) | Self::MapTup(a) | Self::MapVec(a) | Self::Repeat(_, a) => a.has_failure(),
        }
    }
}

/// where in the composition the failure happened (expected: from the reference interpreter; real: recovered from the error value)
#[derive(Clone, Debug, PartialEq)]
pub enum Path {
    Probe(u8),
    First(Box<Path>),
    Second(Box<Path>),
    Elem(usize, Box<Path>),
}

#[derive(Debug)]
pub struct ProbeFail(pub u8);
impl std::fmt::Display for ProbeFail {
    fn fmt(&self, f: &mut std::fmt::Formatter<'_>) -> std::fmt::Result {
        write!(f, "probe {} failed as scripted", self.0)
    }
}
impl StdError for ProbeFail {}

/// transparent, nameable error wrapper so that the crate's (unnameable) combinator error types can be boxed
pub struct HErr(pub Box<dyn StdError + Send + Sync>);
impl std::fmt::Debug for HErr {
    fn fmt(&self, f: &mut std::fmt::Formatter<'_>) -> std::fmt::Result {
        std::fmt::Debug::fmt(&self.0, f)
    }
}
impl std::fmt::Display for HErr {
    fn fmt(&self, f: &mut std::fmt::Formatter<'_>) -> std::fmt::Result {
        std::fmt::Display::fmt(&self.0, f)
    }
}
impl StdError for HErr {
    fn source(&self) -> Option<&(dyn StdError + 'static)> {
        self.0.source()
    }
}

#[derive(Clone, Debug, PartialEq)]
pub struct Event {
    pub id: u8,
    pub input: V,
    pub words: Vec<u64>,
}

thread_local! {
    static LOG: RefCell<Vec<Event>> = const { RefCell::new(Vec::new()) };
    static CALLS: RefCell<BTreeMap<u8, u8>> = const { RefCell::new(BTreeMap::new()) };
}

fn reset_log() {
    LOG.with(|l| l.borrow_mut().clear());
    CALLS.with(|c| c.borrow_mut().clear());
}
fn take_log() -> Vec<Event> {
    LOG.with(|l| std::mem::take(&mut *l.borrow_mut()))
}
fn next_call(id: u8) -> u8 {
    CALLS.with(|c| {
        let mut c = c.borrow_mut();
        let e = c.entry(id).or_insert(0);
        let k = *e;
        *e = e.saturating_add(1);
        k
    })
}

pub struct ProbeOp {
    id: u8,
    draws: u8,
    fail_on_call: Option<u8>,
}
impl Composable for ProbeOp {}
impl Operator<V> for ProbeOp {
    type Output = V;
    type Error = HErr;
    fn apply<R: Rng + ?Sized>(&self, input: V, rng: &mut R) -> Result<V, HErr> {
        let words: Vec<u64> = (0..self.draws).map(|_| rng.next_u64()).collect();
        let call = next_call(self.id);
        LOG.with(|l| {
            l.borrow_mut().push(Event {
                id: self.id,
                input: input.clone(),
                words,
            });
        });
        if self.fail_on_call == Some(call) {
            Err(HErr(Box::new(ProbeFail(self.id))))
        } else {
            Ok(V::Tag(self.id, Box::new(input)))
        }
    }
}

pub trait FromV {
    fn from_v(v: V) -> Self;
}
impl FromV for V {
    fn from_v(v: V) -> Self {
        v
    }
}
impl FromV for [V; 2] {
    fn from_v(v: V) -> Self {
        let (a, b) = as_pair(v);
        [a, b]
    }
}
impl FromV for (V, V) {
    fn from_v(v: V) -> Self {
        as_pair(v)
    }
}
impl FromV for Vec<V> {
    fn from_v(v: V) -> Self {
        as_list(v)
    }
}
pub trait IntoV {
    fn into_v(self) -> V;
}
impl IntoV for V {
    fn into_v(self) -> V {
        self
    }
}
impl IntoV for (V, V) {
    fn into_v(self) -> V {
        V::Pair(Box::new(self.0), Box::new(self.1))
    }
}
impl<const N: usize> IntoV for [V; N] {
    fn into_v(self) -> V {
        V::List(self.into_iter().collect())
    }
}
impl IntoV for Vec<V> {
    fn into_v(self) -> V {
        V::List(self)
    }
}

/// Gives a real (unnameable) combinator value the uniform interface V -> V with a nameable error.
pub struct Adapt<O, I>(O, PhantomData<fn(I)>);
impl<O, I> Adapt<O, I> {
    fn new(o: O) -> Self {
        Self(o, PhantomData)
    }
}
impl<O, I> Composable for Adapt<O, I> {}
impl<O, I> Operator<V> for Adapt<O, I>
where
    I: FromV,
    O: Operator<I>,
    O::Output: IntoV,
    O::Error: StdError + Send + Sync + 'static,
{
    type Output = V;
    type Error = HErr;
    fn apply<R: Rng + ?Sized>(&self, input: V, rng: &mut R) -> Result<V, HErr> {
        self.0.apply(I::from_v(input), rng).map(IntoV::into_v).map_err(|e| HErr(Box::new(e)))
    }
}

type Child = Box<dyn DynOperator<V, HErr, Output = V>>;

pub fn build_op(spec: &OpSpec) -> Child {
    match spec {
        OpSpec::Probe { id, draws, fail_on_call } => Box::new(ProbeOp {
            id: *id,
            draws: *draws,
            fail_on_call: *fail_on_call,
        }),
        OpSpec::Identity => Box::new(Adapt::<_, V>::new(Identity)),
        OpSpec::Constant(c) => Box::new(Adapt::<_, V>::new(Constant::new(V::Int(*c)))),
        OpSpec::Then(a, b) => Box::new(Adapt::<_, V>::new(build_op(a).then(build_op(b)))),
        OpSpec::And(a, b) => Box::new(Adapt::<_, V>::new(build_op(a).and(build_op(b)))),
        OpSpec::MapArr(a) => Box::new(Adapt::<_, [V; 2]>::new(Identity.map(build_op(a)))),
        OpSpec::MapTup(a) => Box::new(Adapt::<_, (V, V)>::new(Identity.map(build_op(a)))),
        OpSpec::MapVec(a) => Box::new(Adapt::<_, Vec<V>>::new(Identity.map(build_op(a)))),
        OpSpec::Repeat(n, a) => match n % 4 {
            0 => Box::new(Adapt::<_, V>::new(build_op(a).apply_n_times::<0>())),
            1 => Box::new(Adapt::<_, V>::new(build_op(a).apply_n_times::<1>())),
            2 => Box::new(Adapt::<_, V>::new(build_op(a).apply_twice())),
            _ => Box::new(Adapt::<_, V>::new(build_op(a).apply_n_times::<3>())),
        },
        OpSpec::TwiceThenMap(a, g) => Box::new(Adapt::<_, V>::new(build_op(a).apply_twice().then_map(build_op(g)))),
    }
}

/// Reference interpreter of the spec: what must be called with which input, which words each call draws
/// from the shared stream (strictly left to right), and where the first failure stops everything.
pub fn interp(spec: &OpSpec, input: V, stream: &mut Counting, log: &mut Vec<Event>, calls: &mut BTreeMap<u8, u8>) -> Result<V, Path> {
    match spec {
        OpSpec::Probe { id, draws, fail_on_call } => {
            let words: Vec<u64> = (0..*draws).map(|_| stream.next_u64()).collect();
            let e = calls.entry(*id).or_insert(0);
            let call = *e;
            *e = e.saturating_add(1);
            log.push(Event {
                id: *id,
                input: input.clone(),
                words,
            });
            if *fail_on_call == Some(call) {
                Err(Path::Probe(*id))
            } else {
                Ok(V::Tag(*id, Box::new(input)))
            }
        }
        OpSpec::Identity => Ok(input),
        OpSpec::Constant(c) => Ok(V::Int(*c)),
        OpSpec::Then(a, b) => {
            let mid = interp(a, input, stream, log, calls).map_err(|p| Path::First(Box::new(p)))?;
            interp(b, mid, stream, log, calls).map_err(|p| Path::Second(Box::new(p)))
        }
        OpSpec::And(a, b) => {
            let x = interp(a, input.clone(), stream, log, calls).map_err(|p| Path::First(Box::new(p)))?;
            let y = interp(b, input, stream, log, calls).map_err(|p| Path::Second(Box::new(p)))?;
            Ok(V::Pair(Box::new(x), Box::new(y)))
        }
        OpSpec::MapArr(a) | OpSpec::MapTup(a) => {
            let (x, y) = as_pair(input);
            let rx = interp(a, x, stream, log, calls).map_err(|p| Path::Elem(0, Box::new(p)))?;
            let ry = interp(a, y, stream, log, calls).map_err(|p| Path::Elem(1, Box::new(p)))?;
            Ok(if matches!(spec, OpSpec::MapArr(_)) {
                V::List(vec![rx, ry])
            } else {
                V::Pair(Box::new(rx), Box::new(ry))
            })
        }
        OpSpec::MapVec(a) => {
            let mut out = vec![];
            for (i, x) in as_list(input).into_iter().enumerate() {
                out.push(interp(a, x, stream, log, calls).map_err(|p| Path::Elem(i, Box::new(p)))?);
            }
            Ok(V::List(out))
        }
        OpSpec::Repeat(n, a) => {
            let mut out = vec![];
            for _ in 0..(n % 4) {
                // repetition has no error wrapper of its own: the part's error is passed through
                out.push(interp(a, input.clone(), stream, log, calls)?);
            }
            Ok(V::List(out))
        }
        OpSpec::TwiceThenMap(a, g) => {
            let x = interp(a, input.clone(), stream, log, calls).map_err(|p| Path::First(Box::new(p)))?;
            let y = interp(a, input, stream, log, calls).map_err(|p| Path::First(Box::new(p)))?;
            let rx = interp(g, x, stream, log, calls).map_err(|p| Path::Second(Box::new(Path::Elem(0, Box::new(p)))))?;
            let ry = interp(g, y, stream, log, calls).map_err(|p| Path::Second(Box::new(Path::Elem(1, Box::new(p)))))?;
            Ok(V::List(vec![rx, ry]))
        }
    }
}

/// Recover the failure path from the real error value. `None` components = not observable.
pub fn real_path(e: &HErr) -> (Vec<String>, Option<u8>) {
    let mut steps = vec![];
    let mut cur: Option<&(dyn StdError + 'static)> = Some(e.0.as_ref());
    let mut leaf = None;
    let mut guard = 0;
    while let Some(c) = cur {
        guard += 1;
        if guard > 200 {
            break;
        }
        if let Some(p) = c.downcast_ref::<ProbeFail>() {
            leaf = Some(p.0);
            break;
        }
        if let Some(h) = c.downcast_ref::<HErr>() {
            cur = Some(h.0.as_ref());
            continue;
        }
        let dbg = format!("{c:?}");
        let disp = format!("{c}");
        if dbg.starts_with("First(") {
            steps.push("First".to_string());
        } else if dbg.starts_with("Second(") {
            steps.push("Second".to_string());
        } else if dbg.starts_with("MapError(") || disp.contains("-th element") {
            let from_dbg = dbg.rsplit_once(", ").and_then(|(_, t)| t.trim_end_matches(')').parse::<usize>().ok());
            let from_disp = disp.split("on the ").nth(1).and_then(|t| t.split("-th").next()).and_then(|t| t.parse::<usize>().ok());
            match (from_dbg, from_disp) {
                (Some(a), Some(b)) if a != b => steps.push(format!("Elem(debug {a} / display {b})")),
                (Some(a), _) | (None, Some(a)) => steps.push(format!("Elem({a})")),
                (None, None) => steps.push("Elem(?)".to_string()),
            }
        } else {
            steps.push("?".to_string());
        }
        cur = c.source();
    }
    (steps, leaf)
}

fn path_steps(p: &Path) -> (Vec<String>, u8) {
    let mut steps = vec![];
    let mut cur = p;
    loop {
        match cur {
            Path::Probe(id) => return (steps, *id),
            Path::First(n) => {
                steps.push("First".into());
                cur = n;
            }
            Path::Second(n) => {
                steps.push("Second".into());
                cur = n;
            }
            Path::Elem(i, n) => {
                steps.push(format!("Elem({i})"));
                cur = n;
            }
        }
    }
}

#[derive(Clone, Debug, Serialize, Deserialize)]
pub struct Case {
    pub spec: OpSpec,
    pub input: V,
    pub seed: u64,
}

pub fn oracle(c: &Case, probe: &mut Probe) -> Result<(), Fail> {
    let op = build_op(&c.spec);
    let mut real_rng = Counting::new(c.seed);
    let mut ref_rng = real_rng.clone();
    // reference
    let mut exp_log = vec![];
    let expected = interp(&c.spec, c.input.clone(), &mut ref_rng, &mut exp_log, &mut BTreeMap::new());
    // real
    reset_log();
    let input = c.input.clone();
    let got = guarded(|| op.apply(input, &mut real_rng));
    let log = take_log();
    let got = match got {
        Ok(g) => g,
        Err(p) => fail!(format!("compose/panic:{}", panic_key(&p)), "applying {:?} panicked: {p}", c.spec),
    };
    // calls: same probes, same order, same inputs, same words
    for (i, (a, b)) in log.iter().zip(&exp_log).enumerate() {
        ensure!(
            a.id == b.id,
            "compose/call-order",
            "call #{i} went to probe {} but probe {} is next in order; spec {:?}",
            a.id,
            b.id,
            c.spec
        );
        ensure!(
            a.input == b.input,
            "compose/wrong-input",
            "call #{i} (probe {}) saw input {:?}, expected {:?}; spec {:?}",
            a.id,
            a.input,
            b.input,
            c.spec
        );
        ensure!(
            a.words == b.words,
            "compose/random-stream-order",
            "call #{i} (probe {}) drew {:?} from the shared stream but the words at its position are {:?} (the stream must be consumed strictly left to right)",
            a.id,
            a.words,
            b.words
        );
    }
    if log.len() > exp_log.len() {
        let extra = &log[exp_log.len()];
        let sig = if expected.is_err() { "compose/ran-after-failure" } else { "compose/extra-call" };
        fail!(sig, "probe {} was called (call #{}) although the composition was over{}; spec {:?}", extra.id, exp_log.len(), if expected.is_err() { " after the first failure" } else { "" }, c.spec);
    }
    ensure!(
        log.len() == exp_log.len(),
        "compose/missing-call",
        "only {} of {} expected probe calls happened; spec {:?}",
        log.len(),
        exp_log.len(),
        c.spec
    );
    let (rf, ef) = (real_rng.fingerprint(), ref_rng.fingerprint());
    ensure!(
        rf == ef,
        "compose/random-stream-consumption",
        "after the run the generator has drawn {} words (next {:#x}); expected {} words (next {:#x}) - something other than the logged probes consumed randomness; spec {:?}",
        rf.words,
        rf.next,
        ef.words,
        ef.next,
        c.spec
    );
    match (&got, &expected) {
        (Ok(v), Ok(w)) => ensure!(v == w, "compose/wrong-value", "result {v:?}, expected {w:?}; spec {:?}", c.spec),
        (Ok(v), Err(p)) => fail!("compose/failure-swallowed", "result {v:?} although probe failure {p:?} must stop the pipeline; spec {:?}", c.spec),
        (Err(e), Ok(w)) => fail!("compose/spurious-error", "error {e:?} but expected value {w:?}; spec {:?}", c.spec),
        (Err(e), Err(p)) => {
            let (real_steps, leaf) = real_path(e);
            let (exp_steps, exp_leaf) = path_steps(p);
            ensure!(
                leaf == Some(exp_leaf),
                "compose/wrong-failing-part",
                "the error names probe {leaf:?} as the failing part, expected probe {exp_leaf}; error {e:?}"
            );
            let observable = !real_steps.iter().any(|s| s.contains('?'));
            if observable {
                ensure!(
                    real_steps == exp_steps,
                    "compose/error-path",
                    "the error identifies the failing part as {real_steps:?} but it is {exp_steps:?}; spec {:?}; error {e:?}",
                    c.spec
                );
            } else {
                probe.label("error path not observable from Debug/Display text");
            }
        }
    }
    probe.nontrivial = c.spec.depth() >= 2 && (c.spec.has_failure() || c.spec.drawing_probes() >= 2);
    if expected.is_err() {
        probe.label("pipeline stopped by a failure");
    }
    if c.spec.depth() >= 4 {
        probe.label("depth >= 4");
    }
    Ok(())
}

fn value() -> BoxedStrategy<V> {
    let leaf = (-5i64..100).prop_map(V::Int);
    let long = prop::collection::vec((-5i64..100).prop_map(V::Int), 10..70).prop_map(V::List);
    let small = leaf.prop_recursive(2, 8, 3, |inner| {
        prop_oneof![
            (inner.clone(), inner.clone()).prop_map(|(a, b)| V::Pair(Box::new(a), Box::new(b))),
            prop::collection::vec(inner, 0..4).prop_map(V::List),
        ]
    });
    // occasionally a long vector: element order, the failing element's index and the draw order must not depend on its length
    prop_oneof![9 => small, 1 => long].boxed()
}

fn spec() -> BoxedStrategy<OpSpec> {
    let leaf = prop_oneof![
        8 => (0u8..6, 0u8..4, prop_oneof![6 => Just(None), 2 => (0u8..3).prop_map(Some), 1 => (3u8..60).prop_map(Some)]).prop_map(|(id, draws, fail_on_call)| OpSpec::Probe { id, draws, fail_on_call }),
        1 => Just(OpSpec::Identity),
        1 => (0i64..9).prop_map(OpSpec::Constant),
    ];
    leaf.prop_recursive(5, 24, 2, |inner| {
        let b = |s: BoxedStrategy<OpSpec>| s.prop_map(Box::new);
        prop_oneof![
            4 => (b(inner.clone()), b(inner.clone())).prop_map(|(a, c)| OpSpec::Then(a, c)),
            3 => (b(inner.clone()), b(inner.clone())).prop_map(|(a, c)| OpSpec::And(a, c)),
            1 => b(inner.clone()).prop_map(OpSpec::MapArr),
            1 => b(inner.clone()).prop_map(OpSpec::MapTup),
            2 => b(inner.clone()).prop_map(OpSpec::MapVec),
            2 => (0u8..4, b(inner.clone())).prop_map(|(n, a)| OpSpec::Repeat(n, a)),
            2 => (b(inner.clone()), b(inner)).prop_map(|(a, g)| OpSpec::TwiceThenMap(a, g)),
        ]
    })
    .boxed()
}

pub fn strategy() -> BoxedStrategy<Case> {
    (spec(), value(), any::<u64>()).prop_map(|(spec, input, seed)| Case { spec, input, seed }).boxed()
}

// ------------------------------------------------------------------ wrappers

/// mutator / recombinator / scorer probes for the wrapper checks
pub struct PMut {
    pub fail: bool,
}
impl Mutator<Vec<u64>> for PMut {
    type Error = ProbeFail;
    fn mutate<R: Rng + ?Sized>(&self, mut g: Vec<u64>, rng: &mut R) -> Result<Vec<u64>, ProbeFail> {
        g.push(rng.next_u64());
        if self.fail {
            Err(ProbeFail(100))
        } else {
            Ok(g)
        }
    }
}
pub struct PRec {
    pub fail: bool,
}
impl Recombinator<[Vec<u64>; 2]> for PRec {
    type Output = Vec<u64>;
    type Error = ProbeFail;
    fn recombine<R: Rng + ?Sized>(&self, [mut a, b]: [Vec<u64>; 2], rng: &mut R) -> Result<Vec<u64>, ProbeFail> {
        a.extend(b);
        a.push(rng.next_u64() | 1);
        if self.fail {
            Err(ProbeFail(101))
        } else {
            Ok(a)
        }
    }
}
pub struct CountingScorer {
    pub calls: RefCell<Vec<Vec<u64>>>,
}
impl Scorer<Vec<u64>> for CountingScorer {
    type Score = u64;
    fn score(&self, g: &Vec<u64>) -> u64 {
        self.calls.borrow_mut().push(g.clone());
        g.iter().fold(17u64, |a, x| a.wrapping_mul(31).wrapping_add(*x))
    }
}

#[derive(Clone, Debug, Serialize, Deserialize)]
pub struct WrapCase {
    pub sel: Spec,
    pub n: usize,
    pub seed: u64,
    pub fail_mut: bool,
    pub fail_rec: bool,
}

type GPop = Vec<EcIndividual<Vec<u64>, u64>>;

pub fn wrapper_oracle(c: &WrapCase, probe: &mut Probe) -> Result<(), Fail> {
    // (a) Select / by reference, on the score-typed populations of the selector harness
    let results: Vec<Vec<i64>> = (0..c.n).map(|i| vec![(i as i64 * 7) % 5, (i as i64 * 3) % 4]).collect();
    let pop: Pop<Score<i64>> = population(&results, |r| Score(r.iter().sum()));
    let Ok(sel) = build::<Score<i64>>(&c.sel) else { return Ok(()) };
    let base = Counting::new(c.seed);
    let (mut r1, mut r2, mut r3) = (base.clone(), base.clone(), base.clone());
    let direct = sel.select(&pop, &mut r1).map(std::ptr::from_ref).map_err(|e| e.to_string());
    let wrapped = Select::new(&sel).apply(&pop, &mut r2).map(std::ptr::from_ref).map_err(|e| e.to_string());
    let sel_ref: &Sel<Score<i64>> = &sel;
    let by_ref = (&sel_ref).select(&pop, &mut r3).map(std::ptr::from_ref).map_err(|e| e.to_string());
    let (f1, f2, f3) = (r1.fingerprint(), r2.fingerprint(), r3.fingerprint());
    ensure!(
        direct == wrapped && f1 == f2,
        "wrapper/Select",
        "Select::new(s).apply differs from s.select: {direct:?} vs {wrapped:?} (or consumed randomness differently)"
    );
    ensure!(
        direct == by_ref && f1 == f3,
        "wrapper/selector-by-reference",
        "(&s).select differs from s.select: {direct:?} vs {by_ref:?} (or consumed randomness differently)"
    );
    if let Ok(owned) = build::<Score<i64>>(&c.sel) {
        let mut r4 = base.clone();
        let mut r5 = base.clone();
        let expected = sel.select(&pop, &mut r5).map(std::ptr::from_ref).map_err(|e| e.to_string());
        let by_value = Select::new(owned).apply(&pop, &mut r4).map(std::ptr::from_ref).map_err(|e| e.to_string());
        ensure!(
            expected == by_value && r4.fingerprint() == r5.fingerprint(),
            "wrapper/Select",
            "Select::new(s) (by value) differs from s.select: {expected:?} vs {by_value:?}"
        );
    }
    // (b) Mutate / Recombine / GenomeExtractor / Identity / Constant / GenomeScorer on u64-vector genomes
    let gpop: GPop = (0..c.n.max(1)).map(|i| EcIndividual::new(vec![i as u64, 1000 + i as u64], i as u64)).collect();
    let g = vec![1u64, 2, 3];
    let (pm, pr) = (PMut { fail: c.fail_mut }, PRec { fail: c.fail_rec });
    for by_ref in [false, true] {
        let (mut a, mut b) = (base.clone(), base.clone());
        let x = pm.mutate(g.clone(), &mut a).map_err(|e| e.0);
        let y = if by_ref { Mutate::new(&pm).apply(g.clone(), &mut b).map_err(|e| e.0) } else { Mutate::new(PMut { fail: c.fail_mut }).apply(g.clone(), &mut b).map_err(|e| e.0) };
        ensure!(x == y && a.fingerprint() == b.fingerprint(), "wrapper/Mutate", "Mutate (by_ref={by_ref}) differs from the mutator: {x:?} vs {y:?}");
        {
            // `impl Mutator for &mut M`
            let mut pm2 = PMut { fail: c.fail_mut };
            let (mut a, mut b) = (base.clone(), base.clone());
            let x = pm.mutate(g.clone(), &mut a).map_err(|e| e.0);
            let mref: &mut PMut = &mut pm2;
            let y = Mutator::mutate(&mref, g.clone(), &mut b).map_err(|e| e.0);
            ensure!(x == y && a.fingerprint() == b.fingerprint(), "wrapper/mutator-by-mut-reference", "(&mut m).mutate differs from m.mutate: {x:?} vs {y:?}");
        }
        let (mut a, mut b) = (base.clone(), base.clone());
        let x = pr.recombine([g.clone(), vec![9]], &mut a).map_err(|e| e.0);
        let y = if by_ref { Recombine::new(&pr).apply([g.clone(), vec![9]], &mut b).map_err(|e| e.0) } else { Recombine::new(PRec { fail: c.fail_rec }).apply([g.clone(), vec![9]], &mut b).map_err(|e| e.0) };
        ensure!(x == y && a.fingerprint() == b.fingerprint(), "wrapper/Recombine", "Recombine (by_ref={by_ref}) differs from the recombinator: {x:?} vs {y:?}");
    }
    {
        let mut a = base.clone();
        let Ok(got) = GenomeExtractor.apply(&gpop[0], &mut a);
        ensure!(got == gpop[0].genome && a.fingerprint() == base.clone().fingerprint(), "wrapper/GenomeExtractor", "GenomeExtractor changed the genome or drew randomness");
        let mut a = base.clone();
        let Ok(got) = Identity.apply(g.clone(), &mut a);
        ensure!(got == g && a.fingerprint() == base.clone().fingerprint(), "wrapper/Identity", "Identity changed its input or drew randomness");
        let mut a = base.clone();
        let Ok(got) = Constant::new(41u8).apply(g.clone(), &mut a);
        ensure!(got == 41 && a.fingerprint() == base.clone().fingerprint(), "wrapper/Constant", "Constant returned {got} or drew randomness");
    }
    // (c) the usual pipeline: select twice -> extract genomes -> recombine -> mutate -> score
    struct FirstOrLast;
    impl Selector<GPop> for FirstOrLast {
        type Error = ProbeFail;
        fn select<'p, R: Rng + ?Sized>(&self, p: &'p GPop, rng: &mut R) -> Result<&'p EcIndividual<Vec<u64>, u64>, ProbeFail> {
            let k = (rng.next_u64() % p.len().max(1) as u64) as usize;
            p.get(k).ok_or(ProbeFail(102))
        }
    }
    let scorer = CountingScorer { calls: RefCell::new(vec![]) };
    let pipeline = Select::new(FirstOrLast)
        .apply_twice()
        .then_map(GenomeExtractor)
        .then(Recombine::new(&pr))
        .then(Mutate::new(&pm))
        .wrap::<GenomeScorer<_, _>>(&scorer);
    let (mut a, mut b) = (base.clone(), base.clone());
    let got = guarded(|| pipeline.apply(&gpop, &mut a).map_err(|e| format!("{e:?}")));
    // by hand, from an equal generator state
    let by_hand: Result<(Vec<u64>, u64), String> = (|| {
        let p1 = FirstOrLast.select(&gpop, &mut b).map_err(|e| format!("select {e}"))?.genome.clone();
        let p2 = FirstOrLast.select(&gpop, &mut b).map_err(|e| format!("select {e}"))?.genome.clone();
        let child = pr.recombine([p1, p2], &mut b).map_err(|e| format!("recombine {e}"))?;
        let child = pm.mutate(child, &mut b).map_err(|e| format!("mutate {e}"))?;
        let score = child.iter().fold(17u64, |acc, x| acc.wrapping_mul(31).wrapping_add(*x));
        Ok((child, score))
    })();
    let got = match got {
        Ok(g) => g,
        Err(p) => fail!("wrapper/pipeline-panic", "the pipeline panicked: {p}"),
    };
    match (&got, &by_hand) {
        (Ok(ind), Ok((genome, score))) => {
            ensure!(&ind.genome == genome && ind.test_results == *score, "wrapper/pipeline-result", "pipeline produced {ind:?}, by hand ({genome:?}, {score})");
            let calls = scorer.calls.borrow();
            ensure!(calls.len() == 1 && &calls[0] == genome, "wrapper/scorer-calls", "the scorer was called {} times (with {:?}); expected once with the child genome", calls.len(), *calls);
        }
        (Err(_), Err(_)) => {
            ensure!(scorer.calls.borrow().is_empty(), "wrapper/scored-after-failure", "the scorer ran although an earlier stage failed");
        }
        (g, h) => fail!("wrapper/pipeline-outcome", "pipeline {g:?} vs by hand {h:?}"),
    }
    ensure!(
        a.fingerprint() == b.fingerprint(),
        "wrapper/pipeline-randomness",
        "the pipeline consumed the random stream differently from its stages run by hand"
    );
    probe.nontrivial = true;
    if c.fail_mut || c.fail_rec {
        probe.label("failing stage");
    }
    Ok(())
}

pub fn wrap_strategy() -> BoxedStrategy<WrapCase> {
    (
        prop_oneof![Just(Spec::Best), Just(Spec::Random), (1usize..4).prop_map(Spec::Tournament), Just(Spec::Lexicase(2)), Just(Spec::Worst)],
        0usize..6,
        any::<u64>(),
        prop::bool::weighted(0.2),
        prop::bool::weighted(0.2),
    )
        .prop_map(|(sel, n, seed, fail_mut, fail_rec)| WrapCase { sel, n, seed, fail_mut, fail_rec })
        .boxed()
}

// ------------------------------------------------------------------ statically typed error chains

/// The error of a statically typed composition names the failing part level by level.  It can be walked
/// in two ways - `std::error::Error::source` and `miette::Diagnostic::diagnostic_source` (all of the crate's
/// combinator errors implement both) - and both walks have to show the same levels down to the probe's
/// own error, and the element index where a `map` is involved.
#[derive(Debug)]
pub struct SErr(pub u8);
impl std::fmt::Display for SErr {
    fn fmt(&self, f: &mut std::fmt::Formatter<'_>) -> std::fmt::Result {
        write!(f, "static probe {} failed", self.0)
    }
}
impl StdError for SErr {}
impl miette::Diagnostic for SErr {}

pub struct SP {
    id: u8,
    /// fails on this call (counted per probe value)
    fail_on_call: Option<u32>,
    calls: std::cell::Cell<u32>,
}
impl SP {
    fn new(id: u8, fail_on_call: Option<u32>) -> Self {
        Self { id, fail_on_call, calls: std::cell::Cell::new(0) }
    }
}
impl Composable for SP {}
impl Operator<i64> for SP {
    type Output = i64;
    type Error = SErr;
    fn apply<R: Rng + ?Sized>(&self, x: i64, _: &mut R) -> Result<i64, SErr> {
        let n = self.calls.get();
        self.calls.set(n + 1);
        if self.fail_on_call == Some(n) { Err(SErr(self.id)) } else { Ok(x + i64::from(self.id)) }
    }
}
/// makes a vector of three copies
pub struct SV;
impl Composable for SV {}
impl Operator<i64> for SV {
    type Output = Vec<i64>;
    type Error = SErr;
    fn apply<R: Rng + ?Sized>(&self, x: i64, _: &mut R) -> Result<Vec<i64>, SErr> {
        Ok(vec![x, x + 1, x + 2])
    }
}

/// makes a vector of `n` consecutive values
pub struct SVn(pub usize);
impl Composable for SVn {}
impl Operator<i64> for SVn {
    type Output = Vec<i64>;
    type Error = SErr;
    fn apply<R: Rng + ?Sized>(&self, x: i64, _: &mut R) -> Result<Vec<i64>, SErr> {
        Ok((0..self.0 as i64).map(|i| x + i).collect())
    }
}
/// a probe with a 4 KiB output (so that anything sized in bytes reaches its limit after few elements)
pub struct SPwide {
    fail_on_call: Option<u32>,
    calls: std::cell::Cell<u32>,
}
impl Composable for SPwide {}
impl Operator<i64> for SPwide {
    type Output = [u64; 512];
    type Error = SErr;
    fn apply<R: Rng + ?Sized>(&self, x: i64, _: &mut R) -> Result<[u64; 512], SErr> {
        let n = self.calls.get();
        self.calls.set(n + 1);
        if self.fail_on_call == Some(n) { Err(SErr(9)) } else { Ok([x as u64; 512]) }
    }
}

/// a probe whose output is zero-sized (a validator: it only accepts or rejects)
pub struct SPunit {
    fail_on_call: Option<u32>,
    calls: std::rc::Rc<std::cell::Cell<u32>>,
}
impl Composable for SPunit {}
impl Operator<i64> for SPunit {
    type Output = ();
    type Error = SErr;
    fn apply<R: Rng + ?Sized>(&self, _: i64, rng: &mut R) -> Result<(), SErr> {
        let n = self.calls.get();
        self.calls.set(n + 1);
        let _ = rng.next_u32();
        if self.fail_on_call == Some(n) { Err(SErr(8)) } else { Ok(()) }
    }
}

/// an error type without any payload (zero-sized, but very much inhabited)
#[derive(Debug, Clone, Copy, PartialEq, Eq)]
pub struct SZ;
impl std::fmt::Display for SZ {
    fn fmt(&self, f: &mut std::fmt::Formatter<'_>) -> std::fmt::Result {
        write!(f, "static unit probe failed")
    }
}
impl StdError for SZ {}
impl miette::Diagnostic for SZ {}

/// a probe whose error type is the zero-sized `SZ`; draws one word per call
pub struct SPz {
    fail_on_call: Option<u32>,
    calls: std::rc::Rc<std::cell::Cell<u32>>,
}
impl Composable for SPz {}
impl Operator<i64> for SPz {
    type Output = i64;
    type Error = SZ;
    fn apply<R: Rng + ?Sized>(&self, x: i64, rng: &mut R) -> Result<i64, SZ> {
        let n = self.calls.get();
        self.calls.set(n + 1);
        let _ = rng.next_u32();
        if self.fail_on_call == Some(n) { Err(SZ) } else { Ok(x + 1) }
    }
}
/// three copies, with the zero-sized error type
pub struct SVz;
impl Composable for SVz {}
impl Operator<i64> for SVz {
    type Output = Vec<i64>;
    type Error = SZ;
    fn apply<R: Rng + ?Sized>(&self, x: i64, _: &mut R) -> Result<Vec<i64>, SZ> {
        Ok(vec![x, x + 1, x + 2])
    }
}

/// a probe that logs its id into a shared sequence, draws one word and fails at a scripted call
pub struct SLog {
    id: u8,
    fail_on_call: Option<u32>,
    calls: std::cell::Cell<u32>,
    log: std::rc::Rc<RefCell<Vec<u8>>>,
}
impl Composable for SLog {}
impl Operator<i64> for SLog {
    type Output = i64;
    type Error = SErr;
    fn apply<R: Rng + ?Sized>(&self, x: i64, rng: &mut R) -> Result<i64, SErr> {
        let n = self.calls.get();
        self.calls.set(n + 1);
        self.log.borrow_mut().push(self.id);
        let _ = rng.next_u32();
        if self.fail_on_call == Some(n) { Err(SErr(self.id)) } else { Ok(x + i64::from(self.id)) }
    }
}

/// a probe whose result tells which application produced it (the i-th application returns x + 100 * (i + 1) and
/// draws one word)
pub struct SSeq {
    calls: std::cell::Cell<i64>,
}
impl Composable for SSeq {}
impl Operator<i64> for SSeq {
    type Output = (i64, u32);
    type Error = SErr;
    fn apply<R: Rng + ?Sized>(&self, x: i64, rng: &mut R) -> Result<(i64, u32), SErr> {
        let n = self.calls.get() + 1;
        self.calls.set(n);
        Ok((x + 100 * n, rng.next_u32()))
    }
}

/// Repetition: slot i of the result holds what the i-th application returned (and drew).
fn repeat_order_case(kind: u8) -> Result<bool, Fail> {
    let mut rng = Counting::new(7);
    let mut expect_rng = Counting::new(7);
    let words: Vec<u32> = (0..5).map(|_| expect_rng.next_u32()).collect();
    let probe = SSeq { calls: std::cell::Cell::new(0) };
    let got: Vec<(i64, u32)> = match kind {
        20 => probe.apply_n_times::<3>().apply(5, &mut rng).map(|a| a.to_vec()),
        21 => probe.apply_n_times::<4>().apply(5, &mut rng).map(|a| a.to_vec()),
        _ => probe.apply_n_times::<5>().apply(5, &mut rng).map(|a| a.to_vec()),
    }
    .map_err(|e| Fail::new("compose/spurious-error", format!("repeating an operator that cannot fail: {e}")))?;
    let want: Vec<(i64, u32)> = (0..got.len()).map(|i| (5 + 100 * (i as i64 + 1), words[i])).collect();
    ensure!(
        got == want,
        "compose/repeat-result-order",
        "apply_n_times::<{}>: the result is {got:?}; slot i must hold what the i-th application returned and drew: {want:?}",
        got.len()
    );
    Ok(false)
}

/// A statically typed chain *inside* a map: `make_vec.then_map(a.then(b))` (and `a.and(b)`, and a chain
/// inside a chain) visits the elements one after the other, running the whole inner chain on each -
/// a b a b a b, never a a a b b b - and stops at the first failure.
fn chain_inside_map_case(kind: u8, failing: u8, call: u32) -> Result<bool, Fail> {
    let mut rng = Counting::new(1);
    let log = std::rc::Rc::new(RefCell::new(Vec::<u8>::new()));
    let mk = |id: u8| SLog { id, fail_on_call: if id == failing { Some(call) } else { None }, calls: std::cell::Cell::new(0), log: log.clone() };
    let (what, outcome, per_element): (&str, Result<usize, Vec<String>>, Vec<u8>) = match kind {
        16 => ("make_vec.then_map(a.then(b))", SV.then_map(mk(1).then(mk(2))).apply(5, &mut rng).map(|v| v.len()).map_err(|e| std_chain(&e)), vec![1, 2]),
        17 => ("make_vec.then_map(a.and(b))", SV.then_map(mk(1).and(mk(2))).apply(5, &mut rng).map(|v| v.len()).map_err(|e| std_chain(&e)), vec![1, 2]),
        18 => ("make_vec.then_map(a.then(b).then(c))", SV.then_map(mk(1).then(mk(2)).then(mk(3))).apply(5, &mut rng).map(|v| v.len()).map_err(|e| std_chain(&e)), vec![1, 2, 3]),
        _ => ("make_vec.then_map(a.then(b).and(c))", SV.then_map(mk(1).then(mk(2)).and(mk(3))).apply(5, &mut rng).map(|v| v.len()).map_err(|e| std_chain(&e)), vec![1, 2, 3]),
    };
    // the order the probes must have been called in: element by element, the inner chain in order, up to the failure
    let mut want = vec![];
    let mut seen = std::collections::BTreeMap::<u8, u32>::new();
    let mut failed = false;
    'outer: for _element in 0..3 {
        for id in &per_element {
            want.push(*id);
            let n = seen.entry(*id).or_insert(0);
            let this_call = *n;
            *n += 1;
            if *id == failing && this_call == call {
                failed = true;
                break 'outer;
            }
        }
    }
    let got = log.borrow().clone();
    let words = rng.fingerprint().words;
    ensure!(
        got == want && words == want.len() as u64,
        "compose/call-order",
        "{what}, probe {failing} failing at its call {call}: the probes ran in the order {got:?} ({words} words drawn), expected {want:?}"
    );
    match outcome {
        Err(chain) => {
            ensure!(failed, "compose/spurious-error", "{what} with nothing failing reported {chain:?}");
            ensure!(chain.last() == Some(&format!("static probe {failing} failed")), "compose/error-path", "{what}: the source() chain {chain:?} does not lead to probe {failing}");
            Ok(true)
        }
        Ok(n) => {
            ensure!(!failed, "compose/failure-swallowed", "{what}: probe {failing} failed at its call {call} but {n} results came back");
            Ok(false)
        }
    }
}

/// Compositions over operators whose error type is zero-sized: a failure is still a failure - the
/// pipeline stops there (calls and words drawn), reports an error that leads to the probe's, and does not panic.
fn unit_error_case(kind: u8, failing: u8, call: u32) -> Result<bool, Fail> {
    let mut rng = Counting::new(1);
    let calls = std::rc::Rc::new(std::cell::Cell::new(0u32));
    let fail_on_call = if failing == 1 { Some(call) } else { None };
    let mk = || SPz { fail_on_call, calls: calls.clone() };
    // (what, outcome as the chain of messages or the number of results, calls the complete pipeline makes)
    let (what, outcome, full): (&str, Result<usize, Vec<String>>, u32) = match kind {
        10 => ("p.apply_twice()", mk().apply_twice().apply(5, &mut rng).map(|v| v.len()).map_err(|e| std_chain(&e)), 2),
        11 => ("p.apply_n_times::<3>()", mk().apply_n_times::<3>().apply(5, &mut rng).map(|v| v.len()).map_err(|e| std_chain(&e)), 3),
        12 => ("p.then(p)", mk().then(mk()).apply(5, &mut rng).map(|_| 1).map_err(|e| std_chain(&e)), 2),
        13 => ("p.and(p)", mk().and(mk()).apply(5, &mut rng).map(|_| 2).map_err(|e| std_chain(&e)), 2),
        14 => ("make_vec.then_map(p)", SVz.then_map(mk()).apply(5, &mut rng).map(|v| v.len()).map_err(|e| std_chain(&e)), 3),
        _ => {
            // the library's own zero-sized error: selecting twice from an empty population
            let nobody: Vec<EcIndividual<u8, Score<i64>>> = if failing == 1 { vec![] } else { vec![EcIndividual::new(1, Score(1))] };
            let r = Select::new(ec_core::operator::selector::best::Best).apply_twice().apply(&nobody, &mut rng);
            return match r {
                Ok(_) => {
                    ensure!(failing != 1, "compose/ran-after-failure", "selecting twice from an empty population succeeded");
                    Ok(false)
                }
                Err(e) => {
                    ensure!(failing == 1, "compose/spurious-error", "selecting twice from one individual failed: {e}");
                    Ok(true)
                }
            };
        }
    };
    let words = rng.fingerprint().words;
    match outcome {
        Err(chain) => {
            ensure!(fail_on_call.is_some_and(|c| c < full), "compose/spurious-error", "{what} with nothing failing reported {chain:?}");
            ensure!(chain.last().map(String::as_str) == Some("static unit probe failed"), "compose/error-path", "{what}: the source() chain {chain:?} does not lead to the failing probe's error");
            ensure!(
                calls.get() == call + 1 && words == u64::from(call) + 1,
                "compose/ran-after-failure",
                "{what} failing at call {call}: {} calls were made and {words} words drawn",
                calls.get()
            );
            Ok(true)
        }
        Ok(n) => {
            ensure!(!fail_on_call.is_some_and(|c| c < full), "compose/failure-swallowed", "{what}: the probe failed at call {call} but the pipeline returned {n} results");
            ensure!(calls.get() == full && words == u64::from(full), "compose/value", "{what}: {} calls and {words} words for a complete run", calls.get());
            Ok(false)
        }
    }
}

fn std_chain(e: &(dyn StdError + 'static)) -> Vec<String> {
    let mut out = vec![e.to_string()];
    let mut cur = e.source();
    while let Some(c) = cur {
        out.push(c.to_string());
        cur = c.source();
    }
    out
}
fn diag_chain(e: &dyn miette::Diagnostic) -> Vec<String> {
    let mut out = vec![e.to_string()];
    let mut cur = e.diagnostic_source();
    while let Some(c) = cur {
        out.push(c.to_string());
        cur = c.diagnostic_source();
    }
    out
}

fn judge_chains<E: StdError + miette::Diagnostic + 'static>(what: &str, e: &E, depth: usize, probe_id: u8, element: Option<usize>) -> Result<(), Fail> {
    let (s, d) = (std_chain(e), diag_chain(e));
    let leaf = format!("static probe {probe_id} failed");
    // the number of levels is not prescribed (a combinator may add one of its own), only that the walk ends at the failing probe
    let _ = depth;
    ensure!(s.last() == Some(&leaf), "compose/error-path", "{what}: the source() chain {s:?} does not lead to '{leaf}'");
    ensure!(
        s == d,
        "compose/diagnostic-chain-differs-from-source-chain",
        "{what}: walking the error by diagnostic_source() gives {d:?}, by source() {s:?}; the level that says which part failed must not be skipped"
    );
    if let Some(i) = element {
        ensure!(
            s.iter().any(|l| l.contains(&format!("{i}-th element"))),
            "compose/error-path",
            "{what}: no level of {s:?} names element {i}"
        );
    }
    Ok(())
}

fn static_chain_case(kind: u8, failing: u8, call: u32) -> Result<bool, Fail> {
    if kind >= 20 {
        return repeat_order_case(kind);
    }
    if kind >= 16 {
        return chain_inside_map_case(kind, failing, call);
    }
    if kind >= 10 {
        return unit_error_case(kind, failing, call);
    }
    let mut rng = Counting::new(1);
    let f = |id: u8| if id == failing { Some(call) } else { None };
    match kind {
        0 => {
            let op = SP::new(1, f(1)).then(SP::new(2, f(2)));
            match op.apply(5, &mut rng) {
                Err(e) => judge_chains("p1.then(p2)", &e, 2, failing, None).map(|()| true),
                Ok(_) => Ok(false),
            }
        }
        1 => {
            let op = SP::new(1, f(1)).and(SP::new(2, f(2)));
            match op.apply(5, &mut rng) {
                Err(e) => judge_chains("p1.and(p2)", &e, 2, failing, None).map(|()| true),
                Ok(_) => Ok(false),
            }
        }
        2 => {
            // array: p0 twice, then map p1.then(p2) over the two results
            let op = SP::new(0, f(0)).apply_twice().then_map(SP::new(1, f(1)).then(SP::new(2, f(2))));
            match op.apply(5, &mut rng) {
                Err(e) => {
                    let (depth, element) = if failing == 0 { (2, None) } else { (4, Some(call as usize)) };
                    judge_chains("p0.apply_twice().then_map(p1.then(p2))", &e, depth, failing, element).map(|()| true)
                }
                Ok(_) => Ok(false),
            }
        }
        3 => {
            // tuple
            let op = SP::new(0, f(0)).and(SP::new(3, f(3))).then_map(SP::new(1, f(1)).and(SP::new(2, f(2))));
            match op.apply(5, &mut rng) {
                Err(e) => {
                    let (depth, element) = if failing == 0 || failing == 3 { (3, None) } else { (4, Some(call as usize)) };
                    judge_chains("p0.and(p3).then_map(p1.and(p2))", &e, depth, failing, element).map(|()| true)
                }
                Ok(_) => Ok(false),
            }
        }
        4 => {
            // Vec
            let op = SV.then_map(SP::new(1, f(1)).then(SP::new(2, f(2))));
            match op.apply(5, &mut rng) {
                Err(e) => judge_chains("make_vec.then_map(p1.then(p2))", &e, 4, failing, Some(call as usize)).map(|()| true),
                Ok(_) => Ok(false),
            }
        }
        6 => {
            // a long vector: the failing element's index is reported whatever its magnitude
            let at = [140_000u32, 131_072, 65_536, 70_001][call as usize % 4];
            let op = SVn(150_000).then_map(SP::new(1, if failing == 1 { Some(at) } else { None }));
            match op.apply(5, &mut rng) {
                Err(e) => judge_chains("make_vec(150000).then_map(p1)", &e, 3, failing, Some(at as usize)).map(|()| true),
                Ok(v) => {
                    ensure!(v.len() == 150_000 && v[149_999] == 5 + 149_999 + 1, "compose/value", "mapping a vector of 150000 elements gave {} elements", v.len());
                    Ok(false)
                }
            }
        }
        7 => {
            // wide outputs (4 KiB each)
            let at = [300u32, 256, 599, 257][call as usize % 4];
            let op = SVn(600).then_map(SPwide { fail_on_call: if failing == 1 { Some(at) } else { None }, calls: std::cell::Cell::new(0) });
            match op.apply(5, &mut rng) {
                Err(e) => judge_chains("make_vec(600).then_map(wide probe)", &e, 3, 9, Some(at as usize)).map(|()| true),
                Ok(v) => {
                    ensure!(v.len() == 600 && v[599][0] == 5 + 599, "compose/value", "mapping a vector of 600 elements gave {} elements", v.len());
                    Ok(false)
                }
            }
        }
        8 => {
            // zero-sized outputs: every element is still visited, in order, drawing from the stream
            let calls = std::rc::Rc::new(std::cell::Cell::new(0u32));
            let op = SV.then_map(SPunit { fail_on_call: if failing == 1 { Some(call) } else { None }, calls: calls.clone() });
            let r = op.apply(5, &mut rng);
            let words = rng.fingerprint().words;
            match r {
                Err(e) => {
                    ensure!(calls.get() == call + 1 && words == u64::from(call) + 1, "compose/ran-after-failure", "mapping a validator over 3 elements, failing at {call}: {} calls, {words} words drawn", calls.get());
                    judge_chains("make_vec.then_map(validator with a zero-sized output)", &e, 3, 8, Some(call as usize)).map(|()| true)
                }
                Ok(v) => {
                    ensure!(v.len() == 3 && calls.get() == 3 && words == 3, "compose/value", "mapping a validator (zero-sized output) over 3 elements gave {} results after {} calls and {words} words", v.len(), calls.get());
                    Ok(false)
                }
            }
        }
        _ => {
            // a plain operator under map, and a map nested in a map
            let op = SV.then_map(SP::new(1, f(1)));
            match op.apply(5, &mut rng) {
                Err(e) => judge_chains("make_vec.then_map(p1)", &e, 3, failing, Some(call as usize)).map(|()| true),
                Ok(_) => Ok(false),
            }
        }
    }
}

fn static_error_chains(ctx: &mut Ctx) {
    let mut cases = vec![];
    for kind in 0u8..23 {
        for failing in 0u8..4 {
            for call in 0u32..3 {
                cases.push((kind, failing, call));
            }
        }
    }
    ctx.run_cases("static_error_chains", cases, |(kind, failing, call), probe| {
        let failed = match guarded(|| static_chain_case(*kind, *failing, *call)) {
            Ok(r) => r?,
            Err(p) => fail!(format!("compose/panic:{}", panic_key(&p)), "statically typed composition {kind} panicked: {p}"),
        };
        probe.nontrivial = failed;
        if failed {
            probe.label("failing statically typed composition");
        }
        Ok(())
    });
}

pub fn run(ctx: &mut Ctx) {
    ctx.rule = "compositions: generated spec trees (depth <= 6) over then / and / map (array, tuple, Vec) / apply_n_times<0..3> / apply_twice().then_map / Identity / Constant around probe operators that log (call order, input seen, words drawn) and fail at a scripted call; every combinator node is the crate's real type (children boxed as the crate's Box<dyn DynOperator>), compared with a reference interpreter of the spec: same calls in the same order with the same inputs, same words at the same stream offsets, nothing after the first failure, final generator state, value, and the failing part recovered from the error value. static error chains: statically typed then / and / then_map (array, tuple, Vec) compositions of probes with an error type that is both std Error and miette Diagnostic - the source() and diagnostic_source() walks show the same levels down to the failing probe and name the failing element; the same combinators over probes whose error type is zero-sized (and the library's own EmptyPopulation under apply_twice): a failure stops the pipeline and comes back as an error; statically typed chains (then, and, then.then) as the mapped operator of a Vec map: the elements are visited one after the other with the whole inner chain run on each (order of calls and of draws); apply_n_times::<3..5> with a probe whose results tell the applications apart (slot i holds the i-th result). wrappers: Select / Mutate / Recombine (by value and by reference), GenomeExtractor, Identity, Constant and the usual select-twice -> extract -> recombine -> mutate -> score pipeline against the stages run by hand from an equal generator state. non-trivial = depth >= 2 and (a scripted failure or >= 2 random-drawing probes); distinct by JSON encoding".into();
    ctx.assumptions.push("the failing part is read from the error's Debug/Display text (the error types' fields are private); if that text cannot be parsed the path is reported as unobservable, not as a violation".into());
    let (n, nw) = ctx.tier.pick((300_000u32, 100_000u32), (6_000_000, 1_000_000));
    ctx.run_prop("compositions", n, strategy, oracle);
    ctx.run_prop("wrappers", nw, wrap_strategy, wrapper_oracle);
    static_error_chains(ctx);
    // coverage-guided search over the same strategies and oracles (thorough tier; see ptfuzz.rs)
    crate::ptfuzz::thorough(ctx, &[("c14c", 12, 1_000_000), ("c14w", 4, 1_000_000)]);
}

pub fn replay(ctx: &mut Ctx, sub: &str, case: &Value) {
    if sub == "wrappers" {
        ctx.replay_case::<WrapCase, _>(sub, case, wrapper_oracle);
    } else if sub == "static_error_chains" {
        static_error_chains(ctx);
    } else {
        ctx.replay_case::<Case, _>(sub, case, oracle);
    }
}
