//! C12 — configured probabilities are the probabilities applied.
//!
//! Every claim is reduced to counts with an exactly known success probability
//! and decided by the Chernoff/KL rule of `stats` (alpha = 1e-12 per count,
//! confirmation stage with 8x the trials).

use ec_core::distributions::collection::ConvertToCollectionGenerator;
use ec_core::distributions::conversion::IntoDistribution;
use ec_core::operator::mutator::Mutator;
use ec_core::operator::recombinator::Recombinator;
use ec_linear::genome::bitstring::{Bitstring, BoolGenerator};
use ec_linear::genome::vector::Vector;
use ec_linear::mutator::umad::Umad;
use ec_linear::mutator::with_one_over_length::WithOneOverLength;
use ec_linear::mutator::with_rate::WithRate;
use ec_linear::recombinator::uniform_xo::UniformXo;
use push::genome::plushy::{ConvertToGeneGenerator, GeneGenerator, Plushy, PushGene};
use push::instruction::PushInstruction;
use rand::distr::Distribution;
use rand::rngs::StdRng;
use rand::{Rng, SeedableRng};
use serde_json::Value;

use crate::stats::{run_jobs, Job, Stat};
use crate::{guarded, splitmix, Ctx, Fail};

fn job(name: String, f: impl Fn(u64, u64) -> Result<Vec<Stat>, Fail> + Send + Sync + 'static) -> Job {
    let n2 = name.clone();
    Job {
        name,
        run: Box::new(move |n, seed| match guarded(|| f(n, seed)) {
            Ok(r) => r,
            Err(p) => Err(Fail::new(format!("{}/panic", n2.split(' ').next().unwrap_or("job")), format!("{n2}: panicked: {p}"))),
        }),
    }
}

fn rates(seed: u64, extra: usize) -> Vec<f64> {
    let mut v = vec![0.0, 0.01, 0.1, 0.25, 0.5, 0.9, 1.0];
    for k in 0..extra {
        let r = (splitmix(seed ^ (k as u64).wrapping_mul(0x1234_5678_9ABC)) >> 11) as f64 / (1u64 << 53) as f64;
        v.push((r * 1000.0).round() / 1000.0);
    }
    v
}

fn flip_stats(sig: &str, label: &str, len: usize, muts: u64, p: f64, flips_at: &[u64], pair_both: u64) -> Vec<Stat> {
    let total: u64 = flips_at.iter().sum();
    let mut v = vec![Stat::new(format!("{sig}/flip-rate"), format!("{label}: flips per gene"), total, muts * len as u64, p)];
    if len <= 10 {
        for (i, k) in flips_at.iter().enumerate() {
            v.push(Stat::new(format!("{sig}/flip-rate-by-position"), format!("{label}: flips at position {i}"), *k, muts, p));
        }
    }
    if len >= 2 {
        v.push(Stat::new(
            format!("{sig}/flips-not-independent"),
            format!("{label}: disjoint adjacent gene pairs (2i, 2i+1) both flipped"),
            pair_both,
            muts * (len as u64 / 2),
            p * p,
        ));
    }
    v
}

fn flip_jobs(seed: u64, jobs: &mut Vec<Job>) {
    for bits in [false, true] {
        let kind = if bits { "Bitstring" } else { "Vec<bool>" };
        for (ri, rate) in rates(seed, 12).into_iter().enumerate() {
            let lens: &[usize] = if ri < 7 { &[1, 2, 5, 10, 64] } else { &[5, 10] };
            for &len in lens {
                let r32 = rate as f32;
                let p = f64::from(r32);
                let sig = format!("WithRate<{kind}>");
                let label = format!("WithRate({r32}) on {kind} of {len}");
                jobs.push(job(label.clone(), move |n, seed| {
                    let muts = (n / len as u64).max(n / 8);
                    let mut rng = StdRng::seed_from_u64(seed);
                    let m = WithRate::new(r32);
                    let parent = vec![false; len];
                    let mut at = vec![0u64; len];
                    let mut both = 0u64;
                    for _ in 0..muts {
                        let child: Vec<bool> = if bits {
                            let Ok(c) = m.mutate(Bitstring { bits: parent.clone() }, &mut rng);
                            c.bits
                        } else {
                            let Ok(c) = m.mutate(parent.clone(), &mut rng);
                            c
                        };
                        if child.len() != len {
                            return Err(Fail::new(format!("{sig}/length-changed"), format!("{label}: child has {} genes", child.len())));
                        }
                        for i in 0..len {
                            at[i] += u64::from(child[i]);
                            if i % 2 == 1 && child[i] && child[i - 1] {
                                both += 1;
                            }
                        }
                    }
                    Ok(flip_stats(&sig, &label, len, muts, p, &at, both))
                }));
            }
        }
        for len in [1usize, 2, 5, 10, 64] {
            let p = f64::from(1.0f32 / len as f32);
            let sig = format!("WithOneOverLength<{kind}>");
            let label = format!("WithOneOverLength on {kind} of {len}");
            jobs.push(job(label.clone(), move |n, seed| {
                let muts = (n / len as u64).max(n / 8);
                let mut rng = StdRng::seed_from_u64(seed);
                let parent = vec![true; len];
                let mut at = vec![0u64; len];
                let mut both = 0u64;
                for _ in 0..muts {
                    let child: Vec<bool> = if bits {
                        WithOneOverLength
                            .mutate(Bitstring { bits: parent.clone() }, &mut rng)
                            .map_err(|e| Fail::new(format!("{sig}/error"), e.to_string()))?
                            .bits
                    } else {
                        WithOneOverLength
                            .mutate(parent.clone(), &mut rng)
                            .map_err(|e| Fail::new(format!("{sig}/error"), e.to_string()))?
                    };
                    if child.len() != len {
                        return Err(Fail::new(format!("{sig}/length-changed"), format!("{label}: child has {} genes", child.len())));
                    }
                    for i in 0..len {
                        at[i] += u64::from(!child[i]);
                        if i % 2 == 1 && !child[i] && !child[i - 1] {
                            both += 1;
                        }
                    }
                }
                Ok(flip_stats(&sig, &label, len, muts, p, &at, both))
            }));
        }
    }
}

#[derive(Clone, Copy, PartialEq, Eq, Debug)]
enum Tg {
    Parent(u32),
    New,
}

struct NewGene;
impl Distribution<Tg> for NewGene {
    fn sample<R: Rng + ?Sized>(&self, rng: &mut R) -> Tg {
        let _ = rng.next_u32();
        Tg::New
    }
}
struct NewPushGene;
impl Distribution<PushGene> for NewPushGene {
    fn sample<R: Rng + ?Sized>(&self, _rng: &mut R) -> PushGene {
        PushGene::Instruction(PushInstruction::push_bool(true))
    }
}

fn umad_jobs(seed: u64, jobs: &mut Vec<Job>) {
    let mut grid: Vec<(f64, f64)> = vec![(0.0, 0.0), (0.5, 1.0 / 3.0), (0.1, 0.1 / 1.1), (1.0, 0.0), (0.0, 1.0), (1.0, 1.0), (0.3, 0.3), (0.9, 0.2), (0.09, 0.5), (1.0, 0.5)];
    let rs = rates(seed ^ 0xAD, 8);
    for k in 0..4 {
        grid.push((rs[7 + k], rs[7 + 4 + k]));
    }
    for (a, d) in grid {
        // single parent gene: the exact four-outcome law
        let label = format!("Umad({a}, {d}) on Vector of 1");
        jobs.push(job(label.clone(), move |n, seed| {
            let mut rng = StdRng::seed_from_u64(seed);
            let u = Umad::new(a, d, NewGene);
            let mut out = [0u64; 4]; // PN, P, N, empty
            for _ in 0..n {
                let Ok(c) = u.mutate(Vector { genes: vec![Tg::Parent(0)] }, &mut rng);
                let code = match c.genes.as_slice() {
                    [Tg::Parent(0), Tg::New] => 0,
                    [Tg::Parent(0)] => 1,
                    [Tg::New] => 2,
                    [] => 3,
                    other => {
                        return Err(Fail::new("Umad<Vector>/structure", format!("{label}: child {other:?}")));
                    }
                };
                out[code] += 1;
            }
            let pn = a * (1.0 - d);
            let law = [(1.0 - d) * pn, (1.0 - d) * (1.0 - pn), d * pn, d * (1.0 - pn)];
            let names = ["parent kept and new gene kept", "parent kept, no new gene", "parent deleted, new gene kept", "both absent"];
            let mut v: Vec<Stat> = (0..4)
                .map(|i| Stat::new("Umad<Vector>/joint-law-single-gene", format!("{label}: {}", names[i]), out[i], n, law[i]))
                .collect();
            v.push(Stat::new("Umad<Vector>/deletion-rate", format!("{label}: parent survives"), out[0] + out[1], n, 1.0 - d));
            v.push(Stat::new("Umad<Vector>/addition-rate", format!("{label}: new gene present (added and not deleted)"), out[0] + out[2], n, pn));
            Ok(v)
        }));
        for (len, plushy, ctor) in [(5usize, false, 0u8), (64, false, 0), (5, true, 0), (5, false, 1), (5, false, 2), (9, true, 1), (9, false, 3)] {
            {
                let kind = if plushy { "Plushy" } else { "Vector" };
                // the other constructors must apply the same per-gene rates to non-empty genomes
                let empty_rate = match ctor { 1 => 0.77, 3 => 0.0, _ => a };
                let ctor_name = match ctor { 0 => "new", 1 | 3 => "new_with_empty_rate", _ => "new_without_empty" };
                let label = format!("Umad::{ctor_name}({a}, {}{d}) on {kind} of {len}", if ctor == 1 || ctor == 3 { format!("empty {empty_rate}, ") } else { String::new() });
                fn mk<G>(ctor: u8, a: f64, e: f64, d: f64, g: G) -> Umad<G> {
                    match ctor {
                        0 => Umad::new(a, d, g),
                        1 | 3 => Umad::new_with_empty_rate(a, e, d, g),
                        _ => Umad::new_without_empty(a, d, g),
                    }
                }
                jobs.push(job(label.clone(), move |n, seed| {
                    let muts = (n / len as u64).max(n / 16);
                    let mut rng = StdRng::seed_from_u64(seed);
                    let (mut surv, mut news, mut size) = (0u64, 0u64, 0u64);
                    let mut surv_at = vec![0u64; len];
                    for _ in 0..muts {
                        if plushy {
                            let u = mk(ctor, a, empty_rate, d, NewPushGene);
                            // close markers at the front, inside and at the end are genes like any other
                            let parent = Plushy::new((0..len as i64).map(|i| if i == 0 || i == 3 || i == len as i64 - 1 { PushGene::Close } else { PushGene::Instruction(PushInstruction::push_int(i)) }));
                            let Ok(c) = u.mutate(parent, &mut rng);
                            for g in c.get_genes() {
                                size += 1;
                                if g == PushGene::Instruction(PushInstruction::push_bool(true)) {
                                    news += 1;
                                } else {
                                    surv += 1;
                                }
                            }
                        } else {
                            let u = mk(ctor, a, empty_rate, d, NewGene);
                            let Ok(c) = u.mutate(Vector { genes: (0..len as u32).map(Tg::Parent).collect::<Vec<_>>() }, &mut rng);
                            for g in &c.genes {
                                size += 1;
                                match g {
                                    Tg::New => news += 1,
                                    Tg::Parent(j) => {
                                        surv += 1;
                                        surv_at[*j as usize] += 1;
                                    }
                                }
                            }
                        }
                    }
                    let sig = format!("Umad<{kind}>");
                    let trials = muts * len as u64;
                    let mut v = vec![
                        Stat::new(format!("{sig}/deletion-rate"), format!("{label}: parent genes surviving"), surv, trials, 1.0 - d),
                        Stat::new(format!("{sig}/addition-rate"), format!("{label}: new genes per parent position"), news, trials, a * (1.0 - d)),
                    ];
                    if !plushy && len <= 10 {
                        for (j, k) in surv_at.iter().enumerate() {
                            v.push(Stat::new(format!("{sig}/deletion-rate-by-position"), format!("{label}: parent {j} survives"), *k, muts, 1.0 - d));
                        }
                    }
                    let _ = size;
                    Ok(v)
                }));
            }
        }
    }
}


/// Independence of per-gene decisions at a distance: for lag d the disjoint position pairs
/// (j, j + d), j < min(d, len - d), agree (both events or both non-events) with probability
/// p^2 + (1-p)^2 when every gene is decided independently with probability p; per-position
/// rates are kept as well.  A decision word that is reused, refilled late or cycled shows up
/// at the lag of its period.
pub struct LagAcc {
    len: usize,
    lags: Vec<usize>,
    agree: Vec<u64>,
    pairs: Vec<u64>,
    at: Vec<u64>,
    rows: u64,
}

const LAGS: [usize; 27] = [1, 2, 3, 4, 5, 7, 8, 9, 15, 16, 17, 24, 31, 32, 33, 48, 63, 64, 65, 96, 127, 128, 129, 192, 255, 256, 257];

impl LagAcc {
    #[must_use]
    pub fn new(len: usize) -> Self {
        let lags: Vec<usize> = LAGS.iter().copied().filter(|d| *d < len).collect();
        Self { len, agree: vec![0; lags.len()], pairs: vec![0; lags.len()], lags, at: vec![0; len], rows: 0 }
    }
    pub fn add(&mut self, events: &[bool]) {
        self.rows += 1;
        for (i, e) in events.iter().enumerate().take(self.len) {
            self.at[i] += u64::from(*e);
        }
        for (k, &d) in self.lags.iter().enumerate() {
            let m = d.min(self.len - d);
            for j in 0..m {
                self.agree[k] += u64::from(events[j] == events[j + d]);
            }
            self.pairs[k] += m as u64;
        }
    }
    #[must_use]
    pub fn stats(&self, sig: &str, label: &str, p: f64) -> Vec<Stat> {
        let q = p * p + (1.0 - p) * (1.0 - p);
        let mut v: Vec<Stat> = self
            .lags
            .iter()
            .enumerate()
            .map(|(k, d)| Stat::new(format!("{sig}/decisions-not-independent"), format!("{label}: positions {d} apart decided alike"), self.agree[k], self.pairs[k], q))
            .collect();
        for (i, k) in self.at.iter().enumerate() {
            v.push(Stat::new(format!("{sig}/rate-by-position"), format!("{label}: event at position {i}"), *k, self.rows, p));
        }
        v
    }
}

/// Long genomes (beyond any machine-word or byte-counter period) through every per-gene operator.
fn long_genome_jobs(jobs: &mut Vec<Job>) {
    for len in [130usize, 600] {
        for bits in [false, true] {
            let kind = if bits { "Bitstring" } else { "Vec" };
            let label = format!("UniformXo on {kind} of {len} (long)");
            jobs.push(job(label.clone(), move |n, seed| {
                let rows = (n / len as u64).max(2000);
                let mut rng = StdRng::seed_from_u64(seed);
                let mut acc = LagAcc::new(len);
                for _ in 0..rows {
                    let child: Vec<bool> = if bits {
                        UniformXo
                            .recombine((Bitstring { bits: vec![false; len] }, Bitstring { bits: vec![true; len] }), &mut rng)
                            .map_err(|e| Fail::new("UniformXo<Bitstring>/error", e.to_string()))?
                            .bits
                    } else {
                        UniformXo.recombine((vec![false; len], vec![true; len]), &mut rng).map_err(|e| Fail::new("UniformXo<Vec>/error", e.to_string()))?
                    };
                    if child.len() != len {
                        return Err(Fail::new(format!("UniformXo<{kind}>/length-changed"), format!("{label}: child has {} genes", child.len())));
                    }
                    acc.add(&child);
                }
                Ok(acc.stats(&format!("UniformXo<{kind}>"), &label, 0.5))
            }));
            for rate in [0.5f32, 0.125] {
                let label = format!("WithRate({rate}) on {kind} of {len} (long)");
                jobs.push(job(label.clone(), move |n, seed| {
                    let rows = (n / len as u64).max(2000);
                    let mut rng = StdRng::seed_from_u64(seed);
                    let mut acc = LagAcc::new(len);
                    let m = WithRate::new(rate);
                    for _ in 0..rows {
                        let child: Vec<bool> = if bits {
                            let Ok(c) = m.mutate(Bitstring { bits: vec![false; len] }, &mut rng);
                            c.bits
                        } else {
                            let Ok(c) = m.mutate(vec![false; len], &mut rng);
                            c
                        };
                        if child.len() != len {
                            return Err(Fail::new(format!("WithRate<{kind}>/length-changed"), format!("{label}: child has {} genes", child.len())));
                        }
                        acc.add(&child);
                    }
                    Ok(acc.stats(&format!("WithRate<{kind}>"), &label, f64::from(rate)))
                }));
            }
        }
        for p in [0.5f64, 0.3] {
            let label = format!("Bitstring::random_with_probability({len}, {p}) (long)");
            jobs.push(job(label.clone(), move |n, seed| {
                let rows = (n / len as u64).max(2000);
                let mut rng = StdRng::seed_from_u64(seed);
                let mut acc = LagAcc::new(len);
                for _ in 0..rows {
                    let b = if p == 0.5 { Bitstring::random(len, &mut rng) } else { Bitstring::random_with_probability(len, p, &mut rng) };
                    if b.bits.len() != len {
                        return Err(Fail::new("Bitstring::random/size", format!("{label}: {} bits", b.bits.len())));
                    }
                    acc.add(&b.bits);
                }
                Ok(acc.stats("Bitstring::random", &label, p))
            }));
        }
        // UMAD deletions on tagged parents (no additions, so survivors identify themselves)
        let d = 0.25f64;
        let label = format!("Umad(0, {d}) on Vector of {len} (long)");
        jobs.push(job(label.clone(), move |n, seed| {
            let rows = (n / len as u64).max(2000);
            let mut rng = StdRng::seed_from_u64(seed);
            let mut acc = LagAcc::new(len);
            let u = Umad::new(0.0, d, NewGene);
            for _ in 0..rows {
                let Ok(c) = u.mutate(Vector { genes: (0..len as u32).map(Tg::Parent).collect::<Vec<_>>() }, &mut rng);
                let mut deleted = vec![true; len];
                for g in &c.genes {
                    match g {
                        Tg::Parent(j) => deleted[*j as usize] = false,
                        Tg::New => return Err(Fail::new("Umad<Vector>/addition-rate", format!("{label}: a gene was added at addition rate 0"))),
                    }
                }
                acc.add(&deleted);
            }
            Ok(acc.stats("Umad<Vector>", &label, d))
        }));
        // UMAD additions (no deletions): after which parent positions a new gene follows
        let a = 0.25f64;
        let label = format!("Umad({a}, 0) on Vector of {len} (long)");
        jobs.push(job(label.clone(), move |n, seed| {
            let rows = (n / len as u64).max(2000);
            let mut rng = StdRng::seed_from_u64(seed);
            let mut acc = LagAcc::new(len);
            let u = Umad::new(a, 0.0, NewGene);
            for _ in 0..rows {
                let Ok(c) = u.mutate(Vector { genes: (0..len as u32).map(Tg::Parent).collect::<Vec<_>>() }, &mut rng);
                let mut added = vec![false; len];
                let mut last: Option<usize> = None;
                for g in &c.genes {
                    match g {
                        Tg::Parent(j) => last = Some(*j as usize),
                        Tg::New => match last {
                            Some(j) if !added[j] => added[j] = true,
                            _ => return Err(Fail::new("Umad<Vector>/structure", format!("{label}: a new gene that does not follow a parent gene of its own"))),
                        },
                    }
                }
                acc.add(&added);
            }
            Ok(acc.stats("Umad<Vector>", &label, a))
        }));
    }
}

/// Empty parents: the configured empty-genome addition rate is the rate at which one gene appears
/// (`new` uses the addition rate, `new_without_empty` never adds).  Whether that single new gene is
/// "subject to deletion too" is not stated, so both e and e(1-d) are accepted (best fit).
fn umad_empty_parent_jobs(jobs: &mut Vec<Job>) {
    for (ctor, a, e, d) in [(0u8, 0.3f64, 0.3f64, 0.0f64), (0, 0.7, 0.7, 0.25), (1, 0.1, 0.6, 0.0), (1, 0.9, 0.2, 0.5), (1, 0.5, 1.0, 0.0), (1, 0.5, 0.0, 0.3), (2, 0.8, 0.0, 0.1)] {
        let ctor_name = ["new", "new_with_empty_rate", "new_without_empty"][usize::from(ctor)];
        let label = format!("Umad::{ctor_name}(add {a}, empty {e}, del {d}) on an empty Vector");
        jobs.push(job(label.clone(), move |n, seed| {
            let mut rng = StdRng::seed_from_u64(seed);
            let u = match ctor {
                0 => Umad::new(a, d, NewGene),
                1 => Umad::new_with_empty_rate(a, e, d, NewGene),
                _ => Umad::new_without_empty(a, d, NewGene),
            };
            let mut one = 0u64;
            for _ in 0..n {
                let Ok(c) = u.mutate(Vector { genes: Vec::<Tg>::new() }, &mut rng);
                match c.genes.as_slice() {
                    [] => {}
                    [Tg::New] => one += 1,
                    other => return Err(Fail::new("Umad<Vector>/structure", format!("{label}: child {other:?}"))),
                }
            }
            let readings = [e, e * (1.0 - d)];
            let p = readings.into_iter().find(|p| !crate::stats::flags(one, n, *p, crate::stats::ALPHA)).unwrap_or(e);
            Ok(vec![Stat::new("Umad<Vector>/empty-genome-addition-rate", format!("{label}: one gene added"), one, n, p)])
        }));
    }
}

/// Very small positive rates.  A 24-bit draw cannot realise them exactly (the applied rate is the next
/// multiple of 2^-24), so no law is tested - but a positive rate must still flip genes now and then, and
/// not far more often than configured: with G genes at rate q the flip count is judged against the window
/// [q G / 4, 4 q G + 50] only (the expectation is >= 40, so an empty count has probability < e^-40).
fn tiny_rate_jobs(jobs: &mut Vec<Job>) {
    use rayon::prelude::*;
    for (what, len, muts) in [("WithRate(1e-7) on Vec<bool>", 1_000_000usize, 400u64), ("WithOneOverLength on Vec<bool> of 2^23 + 9 genes", (1usize << 23) + 9, 48)] {
        let label = format!("{what}, {muts} mutations");
        jobs.push(job(label.clone(), move |n, seed| {
            // thorough runs four times as many mutations
            let muts = if n > 10_000_000 { muts * 4 } else { muts };
            let one_over = what.starts_with("WithOneOverLength");
            let q = if one_over { 1.0 / len as f64 } else { 1e-7 };
            let flips: u64 = (0..muts)
                .into_par_iter()
                .map(|k| {
                    let mut rng = StdRng::seed_from_u64(seed ^ k.wrapping_mul(0x9E37_79B9_7F4A_7C15));
                    let parent = vec![false; len];
                    let child: Vec<bool> = if one_over {
                        match WithOneOverLength.mutate(parent, &mut rng) {
                            Ok(c) => c,
                            Err(_) => return u64::MAX / (muts * 2),
                        }
                    } else {
                        let Ok(c) = WithRate::new(1e-7).mutate(parent, &mut rng);
                        c
                    };
                    if child.len() != len {
                        return u64::MAX / (muts * 2);
                    }
                    child.iter().filter(|b| **b).count() as u64
                })
                .sum();
            let genes = muts * len as u64;
            let expect = q * genes as f64;
            if flips > genes {
                return Err(Fail::new("WithRate<Vec<bool>>/tiny-rate", format!("{label}: an error or a child of another length was returned")));
            }
            if (flips as f64) < expect / 4.0 || (flips as f64) > 4.0 * expect + 50.0 {
                return Err(Fail::new(
                    "WithRate<Vec<bool>>/tiny-rate",
                    format!("{label}: {flips} flips in {genes} genes at rate {q:e} (expected about {expect:.0}); a positive rate, however small, is not rate 0"),
                ));
            }
            Ok(vec![Stat::new("WithRate<Vec<bool>>/tiny-rate", format!("{label}: window check passed"), 1, 1, 1.0)])
        }));
    }
}

fn uniform_xo_jobs(jobs: &mut Vec<Job>) {
    for bits in [false, true] {
        for len in [1usize, 10, 64] {
            let kind = if bits { "Bitstring" } else { "Vec" };
            let label = format!("UniformXo on {kind} of {len}");
            jobs.push(job(label.clone(), move |n, seed| {
                let muts = (n / len as u64).max(n / 8);
                let mut rng = StdRng::seed_from_u64(seed);
                let mut at = vec![0u64; len];
                for _ in 0..muts {
                    let child: Vec<bool> = if bits {
                        UniformXo
                            .recombine([Bitstring { bits: vec![false; len] }, Bitstring { bits: vec![true; len] }], &mut rng)
                            .map_err(|e| Fail::new("UniformXo<Bitstring>/error", e.to_string()))?
                            .bits
                    } else {
                        UniformXo
                            .recombine([vec![false; len], vec![true; len]], &mut rng)
                            .map_err(|e| Fail::new("UniformXo<Vec>/error", e.to_string()))?
                    };
                    for i in 0..len.min(child.len()) {
                        at[i] += u64::from(child[i]);
                    }
                }
                let sig = format!("UniformXo<{kind}>/half-rate");
                let mut v = vec![Stat::new(sig.clone(), format!("{label}: genes from parent 2"), at.iter().sum(), muts * len as u64, 0.5)];
                if len <= 10 {
                    for (i, k) in at.iter().enumerate() {
                        v.push(Stat::new(sig.clone(), format!("{label}: position {i} from parent 2"), *k, muts, 0.5));
                    }
                }
                Ok(v)
            }));
        }
    }
}

fn bitstring_jobs(seed: u64, jobs: &mut Vec<Job>) {
    for len in [1usize, 7, 64] {
        let label = format!("Bitstring::random({len})");
        jobs.push(job(label.clone(), move |n, seed| {
            let muts = (n / len as u64).max(n / 8);
            let mut rng = StdRng::seed_from_u64(seed);
            let mut at = vec![0u64; len];
            for _ in 0..muts {
                let b = Bitstring::random(len, &mut rng);
                if b.bits.len() != len {
                    return Err(Fail::new("Bitstring::random/size", format!("{label}: {} bits", b.bits.len())));
                }
                for i in 0..len {
                    at[i] += u64::from(b.bits[i]);
                }
            }
            let mut v = vec![Stat::new("Bitstring::random/bit-probability", format!("{label}: bits set"), at.iter().sum(), muts * len as u64, 0.5)];
            if len <= 10 {
                for (i, k) in at.iter().enumerate() {
                    v.push(Stat::new("Bitstring::random/bit-probability", format!("{label}: bit {i} set"), *k, muts, 0.5));
                }
            }
            Ok(v)
        }));
    }
    for p in rates(seed ^ 0xB17, 6) {
        for len in [1usize, 9] {
            let label = format!("Bitstring::random_with_probability({len}, {p})");
            jobs.push(job(label.clone(), move |n, seed| {
                let muts = (n / len as u64).max(n / 8);
                let mut rng = StdRng::seed_from_u64(seed);
                let mut at = vec![0u64; len];
                for _ in 0..muts {
                    let b = Bitstring::random_with_probability(len, p, &mut rng);
                    if b.bits.len() != len {
                        return Err(Fail::new("Bitstring::random_with_probability/size", format!("{label}: {} bits", b.bits.len())));
                    }
                    for i in 0..len {
                        at[i] += u64::from(b.bits[i]);
                    }
                }
                let sig = "Bitstring::random_with_probability/bit-probability";
                let mut v = vec![Stat::new(sig, format!("{label}: bits set"), at.iter().sum(), muts * len as u64, p)];
                for (i, k) in at.iter().enumerate() {
                    v.push(Stat::new(sig, format!("{label}: bit {i} set"), *k, muts, p));
                }
                Ok(v)
            }));
        }
    }
}

/// `BoolGenerator` (the element generator behind random bitstrings) used directly, through a collection
/// generator, and after being *re-tuned*: its probability and the collection generator's size are public
/// fields, and what is configured at the time of sampling is what must act.
fn bool_generator_jobs(seed: u64, jobs: &mut Vec<Job>) {
    let ps = rates(seed ^ 0xB001, 3);
    for (k, p) in ps.iter().copied().enumerate() {
        let before = ps[(k + 3) % ps.len()];
        for mode in 0..4u8 {
            let label = match mode {
                0 => format!("BoolGenerator::new({p}) sampled directly"),
                1 => format!("BoolGenerator::new({p}).into_collection_generator(9) as a Bitstring"),
                2 => format!("BoolGenerator::new({before}), sampled, then true_probability = {p}"),
                _ => format!("BoolGenerator::new({before}).into_collection_generator(4), sampled, then element_generator.true_probability = {p} and size = 9"),
            };
            jobs.push(job(label.clone(), move |n, seed| {
                let mut rng = StdRng::seed_from_u64(seed);
                let sig = if mode >= 2 { "BoolGenerator/reconfigured-probability-not-applied" } else { "BoolGenerator/bit-probability" };
                match mode {
                    0 | 2 => {
                        let mut g = BoolGenerator::new(if mode == 0 { p } else { before });
                        if mode == 2 {
                            for _ in 0..5 {
                                let _: bool = g.sample(&mut rng);
                            }
                            g.true_probability = p;
                        }
                        let mut ones = 0u64;
                        for _ in 0..n {
                            ones += u64::from(g.sample(&mut rng));
                        }
                        Ok(vec![Stat::new(sig, format!("{label}: true"), ones, n, p)])
                    }
                    _ => {
                        let mut g = BoolGenerator::new(if mode == 1 { p } else { before }).into_collection_generator(if mode == 1 { 9 } else { 4 });
                        if mode == 3 {
                            for _ in 0..3 {
                                let _: Bitstring = g.sample(&mut rng);
                            }
                            g.element_generator.true_probability = p;
                            g.size = 9;
                        }
                        let muts = n / 8;
                        let mut at = vec![0u64; 9];
                        for _ in 0..muts {
                            let b: Bitstring = g.sample(&mut rng);
                            if b.bits.len() != 9 {
                                return Err(Fail::new("BoolGenerator/size", format!("{label}: {} bits", b.bits.len())));
                            }
                            for i in 0..9 {
                                at[i] += u64::from(b.bits[i]);
                            }
                        }
                        let mut v = vec![Stat::new(sig, format!("{label}: bits set"), at.iter().sum(), muts * 9, p)];
                        for (i, c) in at.iter().enumerate() {
                            v.push(Stat::new(sig, format!("{label}: bit {i} set"), *c, muts, p));
                        }
                        Ok(v)
                    }
                }
            }));
        }
    }
}

/// instruction j with weight j+1
struct Skewed(Vec<PushInstruction>);
impl Distribution<PushInstruction> for Skewed {
    fn sample<R: Rng + ?Sized>(&self, rng: &mut R) -> PushInstruction {
        let n = self.0.len() as u64;
        let total = n * (n + 1) / 2;
        let mut x = rng.random_range(0..total);
        for j in 0..n {
            if x <= j {
                return self.0[j as usize].clone();
            }
            x -= j + 1;
        }
        self.0[0].clone()
    }
}

fn gene_stats(label: &str, genes: &[PushGene], instrs: &[PushInstruction], close_p: f64, weights: &[f64]) -> Result<Vec<Stat>, Fail> {
    let n = genes.len() as u64;
    let closes = genes.iter().filter(|g| **g == PushGene::Close).count() as u64;
    let mut v = vec![Stat::new("GeneGenerator/close-probability", format!("{label}: close markers"), closes, n, close_p)];
    let mut per = vec![0u64; instrs.len()];
    for g in genes {
        if let PushGene::Instruction(i) = g {
            match instrs.iter().position(|x| x == i) {
                Some(j) => per[j] += 1,
                None => return Err(Fail::new("GeneGenerator/foreign-instruction", format!("{label}: produced {i}, which is not in the supplied set"))),
            }
        }
    }
    for (j, k) in per.iter().enumerate() {
        v.push(Stat::new(
            "GeneGenerator/instruction-distribution",
            format!("{label}: instruction #{j}"),
            *k,
            n,
            (1.0 - close_p) * weights[j],
        ));
    }
    Ok(v)
}

fn gene_generator_jobs(jobs: &mut Vec<Job>) {
    for n_instr in [1usize, 2, 3, 4, 9, 20] {
        let instrs: Vec<PushInstruction> = (0..n_instr as i64).map(PushInstruction::push_int).collect();
        let uniform: Vec<f64> = vec![1.0 / n_instr as f64; n_instr];
        // default close probability 1/(n+1)
        {
            let instrs = instrs.clone();
            let uniform = uniform.clone();
            let label = format!("default gene generator over {n_instr} instructions");
            jobs.push(job(label.clone(), move |n, seed| {
                let mut rng = StdRng::seed_from_u64(seed);
                let dist = instrs.clone().into_distribution().map_err(|e| Fail::new("GeneGenerator/construction", e.to_string()))?;
                let genes: Vec<PushGene> = if n_instr % 2 == 0 {
                    let gg = dist.into_gene_generator();
                    (0..n).map(|_| gg.sample(&mut rng)).collect()
                } else {
                    let gg = GeneGenerator::with_uniform_close_probability(dist);
                    (0..n).map(|_| gg.sample(&mut rng)).collect()
                };
                let c = f64::from(1.0f32 / (n_instr as f32 + 1.0));
                gene_stats(&label, &genes, &instrs, c, &uniform)
            }));
        }
        {
            // borrowed flavour, through a Plushy collection generator
            let instrs = instrs.clone();
            let uniform = uniform.clone();
            let label = format!("borrowed default gene generator over {n_instr} instructions, via Plushy genomes of 8");
            jobs.push(job(label.clone(), move |n, seed| {
                let mut rng = StdRng::seed_from_u64(seed);
                let dist = instrs.clone().into_distribution().map_err(|e| Fail::new("GeneGenerator/construction", e.to_string()))?;
                let gg = dist.to_gene_generator();
                let cg = gg.to_collection_generator(8);
                let mut genes: Vec<PushGene> = Vec::with_capacity(n as usize);
                for _ in 0..n / 8 {
                    let p: Plushy = cg.sample(&mut rng);
                    let g = p.get_genes();
                    if g.len() != 8 {
                        return Err(Fail::new("GeneGenerator/plushy-size", format!("{label}: genome of {} genes", g.len())));
                    }
                    genes.extend(g);
                }
                let c = f64::from(1.0f32 / (n_instr as f32 + 1.0));
                gene_stats(&label, &genes, &instrs, c, &uniform)
            }));
        }
        for close in [0.0f32, 0.1, 0.5, 0.93, 1.0] {
            if n_instr > 4 && close != 0.1 {
                continue;
            }
            let instrs = instrs.clone();
            let uniform = uniform.clone();
            let label = format!("gene generator with close probability {close} over {n_instr} instructions");
            jobs.push(job(label.clone(), move |n, seed| {
                let mut rng = StdRng::seed_from_u64(seed);
                let dist = instrs.clone().into_distribution().map_err(|e| Fail::new("GeneGenerator/construction", e.to_string()))?;
                // the constructor flavours must all apply the same probability: by value, borrowed, and `new` directly
                let genes: Vec<PushGene> = match (n_instr + (close * 100.0) as usize) % 3 {
                    0 => {
                        let gg = dist.into_gene_generator_with_close_probability(close);
                        (0..n).map(|_| gg.sample(&mut rng)).collect()
                    }
                    1 => {
                        let gg = dist.to_gene_generator_with_close_probability(close);
                        (0..n).map(|_| gg.sample(&mut rng)).collect()
                    }
                    _ => {
                        let gg = GeneGenerator::new(close, &dist);
                        (0..n).map(|_| gg.sample(&mut rng)).collect()
                    }
                };
                gene_stats(&label, &genes, &instrs, f64::from(close), &uniform)
            }));
        }
        if n_instr >= 2 {
            let total = (n_instr * (n_instr + 1) / 2) as f64;
            let weights: Vec<f64> = (0..n_instr).map(|j| (j + 1) as f64 / total).collect();
            let label = format!("gene generator over a skewed distribution of {n_instr} instructions, close 0.25");
            let instrs2 = instrs.clone();
            jobs.push(job(label.clone(), move |n, seed| {
                let mut rng = StdRng::seed_from_u64(seed);
                let gg = GeneGenerator::new(0.25, Skewed(instrs2.clone()));
                let genes: Vec<PushGene> = (0..n).map(|_| gg.sample(&mut rng)).collect();
                gene_stats(&label, &genes, &instrs2, 0.25, &weights)
            }));
        }
    }
}

pub fn run(ctx: &mut Ctx) {
    let trials = ctx.tier.pick(2_000_000u64, 40_000_000);
    ctx.rule = format!("one job per (operator, configuration): WithRate / WithOneOverLength flips (total, per position, adjacent pairs = p^2) on Vec<bool> and Bitstring over a rate grid incl. generated rates and lengths 1..64; UMAD four-outcome law on a single gene, survivor / new-gene rates on Vector and Plushy genomes and the empty-genome addition rate of all three constructors; very small positive rates (1e-7, and 1/length for 2^23 + 9 genes) still flip genes (window check only, no law); uniform crossover per position; long genomes (130 and 600 genes) through UniformXo, WithRate, Bitstring::random*, and UMAD deletions / additions with per-position rates and the agreement law p^2+(1-p)^2 of disjoint position pairs at lags 1..257 (independence beyond any machine-word or byte-counter period); Bitstring::random / random_with_probability per bit; BoolGenerator directly, as the element generator of a collection generator, and re-tuned after use (true_probability, size); GeneGenerator close probability (default 1/(n+1) and explicit) and instruction frequencies (uniform and skewed) for n in 1..20. {trials} seeded trials per job, each statistic compared with its exact law (p = 0 and p = 1 decided exactly). non-trivial = a (statistic, configuration) pair with 0 < p < 1, counted once");
    ctx.assumptions.push("not detectable: < vs <= on a continuous draw, f32/f64 rounding of a rate (< 1e-7), rate errors below the stated resolution".into());
    let mut jobs = vec![];
    flip_jobs(ctx.seed, &mut jobs);
    umad_jobs(ctx.seed, &mut jobs);
    umad_empty_parent_jobs(&mut jobs);
    tiny_rate_jobs(&mut jobs);
    uniform_xo_jobs(&mut jobs);
    long_genome_jobs(&mut jobs);
    bitstring_jobs(ctx.seed, &mut jobs);
    bool_generator_jobs(ctx.seed, &mut jobs);
    gene_generator_jobs(&mut jobs);
    run_jobs(ctx, "rate_laws", jobs, trials);
}

pub fn replay(ctx: &mut Ctx, _sub: &str, _case: &Value) {
    // a statistical violation is reproduced by re-running the jobs (same seed => same counts)
    run(ctx);
}
