//! C03 — evaluation is total and bounded; only stack overflow aborts it.
//!
//! Programs are assembled from growth / looping / nesting / numeric blow-up
//! templates plus random pieces, run under tiny stack limits with large step
//! limits (and vice versa), and checked with the C01 differential oracle plus
//! explicit invariants: returns, never panics, every stack within its maximum,
//! `Err` only as stack overflow, exactly min(limit, steps-to-halt) steps.

use proptest::prelude::*;
use proptest::sample::select;
use serde::{Deserialize, Serialize};
use serde_json::Value;

use crate::gen_vm::{float_val, int_val, leaf, lit};
use crate::model::real::{Tables, VmCase};
use crate::model::vm::{Common, ExecOp, FloatOp, Ins, IntOp, Lit, Prog, F};
use crate::vm_oracle::{vm_oracle, VmOpts};
use crate::{Ctx, Fail, Probe};

#[derive(Clone, Debug, Serialize, Deserialize)]
pub enum Piece {
    Plain(Vec<Prog>),
    /// `depth` nested blocks around `inner`
    Nest { depth: u32, inner: Vec<Prog> },
    /// [Exec-Dup|DupBlock, Block[body..., Exec-Dup|DupBlock]]: runs until the step limit or an overflow
    Loop { body: Vec<Prog>, dup_block: bool },
    /// literal that pushes a block onto exec which pushes itself again ...
    SelfPush { levels: u8, body: Vec<Prog> },
    /// PushInt(x) followed by `reps` x [Dup, Multiply] or [Square]
    IntBlowup { x: i64, reps: u8, square: bool },
    /// PushInt(exp), PushInt(base), Power
    Power { base: i64, exp: i64 },
    /// PushFloat(x) followed by reps x [Dup, op]; then FromFloatApprox
    FloatBlowup { x: F, reps: u8, mul: bool },
    /// k copies of Exec-Dup in a row followed by a block (exponential unfolding)
    DupChain { k: u8, block: Vec<Prog> },
}

#[derive(Clone, Debug, Serialize, Deserialize)]
pub struct C03Case {
    pub pieces: Vec<Piece>,
    pub int: Vec<i64>,
    pub float: Vec<F>,
    pub boolean: Vec<bool>,
    pub limits: [usize; 4],
    pub inputs: Vec<Lit>,
    pub steps: usize,
}

fn nest(depth: u32, inner: Vec<Prog>) -> Prog {
    let mut p = Prog::B(inner);
    for _ in 1..depth.max(1) {
        p = Prog::B(vec![p]);
    }
    p
}

impl C03Case {
    #[must_use]
    pub fn expand(&self) -> VmCase {
        let edup = |db: bool| Prog::I(Ins::Exec(if db { ExecOp::DupBlock } else { ExecOp::C(Common::Dup) }));
        let mut exec: Vec<Prog> = vec![];
        for piece in &self.pieces {
            match piece {
                Piece::Plain(v) => exec.extend(v.iter().cloned()),
                Piece::Nest { depth, inner } => exec.push(nest(*depth, inner.clone())),
                Piece::Loop { body, dup_block } => {
                    let mut b = body.clone();
                    b.push(edup(*dup_block));
                    exec.push(edup(*dup_block));
                    exec.push(Prog::B(b));
                }
                Piece::SelfPush { levels, body } => {
                    let mut p = Prog::B(body.clone());
                    for _ in 0..*levels {
                        p = Prog::I(Ins::PushExec(Box::new(p)));
                    }
                    exec.push(p);
                }
                Piece::IntBlowup { x, reps, square } => {
                    exec.push(Prog::I(Ins::PushInt(*x)));
                    for _ in 0..*reps {
                        if *square {
                            exec.push(Prog::I(Ins::Int(IntOp::Square)));
                        } else {
                            exec.push(Prog::I(Ins::Int(IntOp::C(Common::Dup))));
                            exec.push(Prog::I(Ins::Int(IntOp::Multiply)));
                        }
                    }
                }
                Piece::Power { base, exp } => {
                    exec.push(Prog::I(Ins::PushInt(*exp)));
                    exec.push(Prog::I(Ins::PushInt(*base)));
                    exec.push(Prog::I(Ins::Int(IntOp::Power)));
                }
                Piece::FloatBlowup { x, reps, mul } => {
                    exec.push(Prog::I(Ins::PushFloat(*x)));
                    for _ in 0..*reps {
                        exec.push(Prog::I(Ins::Flt(FloatOp::C(Common::Dup))));
                        exec.push(Prog::I(Ins::Flt(if *mul { FloatOp::Multiply } else { FloatOp::Add })));
                    }
                    exec.push(Prog::I(Ins::Flt(FloatOp::C(Common::Dup))));
                    exec.push(Prog::I(Ins::Int(IntOp::FromFloatApprox)));
                }
                Piece::DupChain { k, block } => {
                    for _ in 0..*k {
                        exec.push(edup(false));
                    }
                    exec.push(Prog::B(block.clone()));
                }
            }
        }
        let mut c = VmCase {
            instr: None,
            max_exec: self.limits[0],
            max_int: self.limits[1],
            max_float: self.limits[2],
            max_bool: self.limits[3],
            exec,
            int: self.int.clone(),
            float: self.float.clone(),
            boolean: self.boolean.clone(),
            inputs: self.inputs.clone(),
            steps: self.steps,
        };
        // initial contents must fit (not reachable otherwise): trim data stacks to their limits
        c.int.truncate(c.max_int);
        c.float.truncate(c.max_float);
        c.boolean.truncate(c.max_bool);
        c.normalise();
        c
    }
}

fn exec_heavy_leaf(ops: Vec<Ins>) -> BoxedStrategy<Prog> {
    let exec_ops: Vec<Ins> = ops.iter().filter(|i| matches!(i, Ins::Exec(_))).cloned().collect();
    let growers = vec![
        Ins::Int(IntOp::C(Common::Dup)),
        Ins::Flt(FloatOp::C(Common::Dup)),
        Ins::Bool(crate::model::vm::BoolOp::C(Common::Dup)),
        Ins::Int(IntOp::C(Common::StackDepth)),
        Ins::Exec(ExecOp::C(Common::StackDepth)),
        Ins::Exec(ExecOp::C(Common::IsEmpty)),
        Ins::Int(IntOp::Multiply),
        Ins::Int(IntOp::Square),
        Ins::Int(IntOp::Power),
        Ins::Int(IntOp::Negate),
        Ins::Int(IntOp::Abs),
        Ins::Int(IntOp::Mod),
        Ins::Int(IntOp::ProtectedDivide),
    ];
    prop_oneof![
        4 => select(exec_ops).prop_map(Prog::I),
        3 => select(growers).prop_map(Prog::I),
        3 => leaf(ops.clone()).prop_map(Prog::I),
        1 => prop::collection::vec(leaf(ops).prop_map(Prog::I), 0..4).prop_map(Prog::B),
    ]
    .boxed()
}

fn piece(ops: Vec<Ins>, max_depth: u32) -> BoxedStrategy<Piece> {
    let body = || prop::collection::vec(exec_heavy_leaf(ops.clone()), 0..5);
    let pow_base = select(vec![0i64, 1, -1, 2, -2, 3, 10, i64::MIN, i64::MAX, 3_037_000_500]);
    let pow_exp = select(vec![
        0i64,
        1,
        2,
        62,
        63,
        64,
        65,
        i64::from(u32::MAX) - 1,
        i64::from(u32::MAX),
        i64::from(u32::MAX) + 1,
        i64::from(u32::MAX) + 2,
        i64::MAX,
        i64::MAX - 1,
        -1,
        i64::MIN,
    ]);
    prop_oneof![
        4 => body().prop_map(Piece::Plain),
        3 => (prop_oneof![3 => 1u32..12, 2 => 10u32..=max_depth.min(60), 1 => (max_depth / 2)..=max_depth], body()).prop_map(|(depth, inner)| Piece::Nest { depth, inner }),
        5 => (body(), any::<bool>()).prop_map(|(body, dup_block)| Piece::Loop { body, dup_block }),
        2 => (0u8..6, body()).prop_map(|(levels, body)| Piece::SelfPush { levels, body }),
        2 => (int_val(), 0u8..9, any::<bool>()).prop_map(|(x, reps, square)| Piece::IntBlowup { x, reps, square }),
        2 => (pow_base, pow_exp).prop_map(|(base, exp)| Piece::Power { base, exp }),
        2 => (float_val(), 0u8..14, any::<bool>()).prop_map(|(x, reps, mul)| Piece::FloatBlowup { x, reps, mul }),
        2 => (0u8..12, body()).prop_map(|(k, block)| Piece::DupChain { k, block }),
    ]
    .boxed()
}

pub fn case_strategy(t: &Tables, max_depth: u32, max_steps: usize) -> BoxedStrategy<C03Case> {
    let ops = t.all_ops();
    let tiny = || prop_oneof![2 => Just(0usize), 2 => Just(1usize), 2 => Just(2usize), 3 => 3usize..=8];
    let limits_and_steps = prop_oneof![
        // tiny stacks, many steps
        4 => ((tiny(), tiny(), tiny(), tiny()).prop_map(|(a, b, c, d)| [a, b, c, d]), prop_oneof![3 => 0usize..400, 2 => 400usize..3000, 1 => 3000usize..=max_steps]),
        // mixed
        3 => ((3usize..40, tiny(), tiny(), tiny()).prop_map(|(a, b, c, d)| [a, b, c, d]), 0usize..2000),
        // large stacks, few steps
        2 => ((50usize..2000, 50usize..2000, 50usize..2000, 50usize..2000).prop_map(|(a, b, c, d)| [a, b, c, d]), prop_oneof![3 => 0usize..300, 1 => 0usize..4]),
    ];
    (
        prop::collection::vec(piece(ops, max_depth), 0..5),
        prop::collection::vec(int_val(), 0..4),
        prop::collection::vec(float_val(), 0..4),
        prop::collection::vec(any::<bool>(), 0..4),
        limits_and_steps,
        prop::collection::vec(lit(), 4),
    )
        .prop_map(|(pieces, int, float, boolean, (limits, steps), inputs)| C03Case {
            pieces,
            int,
            float,
            boolean,
            limits,
            inputs,
            steps,
        })
        .boxed()
}

pub const OPTS: VmOpts = VmOpts {
    sweep: true,
    full_sweep_upto: 24,
    labels: false,
};

pub fn oracle(t: &Tables, c: &C03Case, p: &mut Probe) -> Result<(), Fail> {
    let vc = c.expand();
    let s = vm_oracle(t, &vc, &OPTS, p)?;
    let tiny_limit_hit = s.aborted && c.limits.iter().any(|l| *l <= 1);
    p.nontrivial = s.hit_limit_with_work || s.aborted || s.max_depth >= 10 || tiny_limit_hit;
    if s.hit_limit_with_work {
        p.label("step limit reached with work left");
    }
    if s.aborted {
        p.label("ended in stack overflow");
    }
    if s.max_depth >= 10 {
        p.label("nesting depth >= 10");
    }
    if s.max_depth >= 100 {
        p.label("nesting depth >= 100");
    }
    if tiny_limit_hit {
        p.label("overflow with a stack limit of 0 or 1");
    }
    if s.steps >= 1000 {
        p.label(">= 1000 steps executed");
    }
    if s.steps >= 10_000 {
        p.label(">= 10000 steps executed");
    }
    if s.skips >= 10 {
        p.label(">= 10 recoverable failures in one run");
    }
    Ok(())
}

pub fn run(ctx: &mut Ctx) {
    let t = Tables::build();
    if !t.uncovered.is_empty() {
        ctx.inconclusive.push(format!("instruction variants unknown to the reference semantics: {:?}", t.uncovered));
    }
    let (n, depth, steps) = ctx.tier.pick((30_000u32, 200u32, 20_000usize), (200_000, 2_000, 20_000));
    ctx.rule = format!("programs assembled from looping (exec duplication), self-pushing, nesting (depth up to {depth}), integer/float blow-up and Power templates plus exec-heavy random pieces; stack limits 0..8 with step limits up to {steps}, or large limits with small step limits; all inputs bound. Oracle: lock-step reference model + run_to_completion under sampled step limits + invariants (no panic, sizes within maxima, Err only as overflow). non-trivial = reached the step limit with exec non-empty, or ended in overflow, or nesting depth >= 10, or an overflow under a limit of 0/1; distinct by JSON encoding of the template case");
    ctx.assumptions.push("native-stack exhaustion for nests deeper than the stated bound is out of scope; a hang is reported by the watchdog as inconclusive (exit 2)".into());
    ctx.run_prop("growth_programs", n, move || case_strategy(&Tables::build(), depth, steps), |c, p| {
        thread_local! { static T: Tables = Tables::build(); }
        T.with(|t| oracle(t, c, p))
    });
    if ctx.tier == crate::Tier::Thorough && ctx.violations().is_empty() {
        let t = Tables::build();
        for bytes in crate::fuzzrun::campaign(ctx, "vm_diff", 8, 80_000, 768) {
            let c = crate::fuzzdec::decode_vm(&bytes, &t);
            let mut p = Probe::default();
            let opts = crate::vm_oracle::VmOpts { sweep: true, full_sweep_upto: 24, labels: false };
            if let Err(f) = crate::vm_oracle::vm_oracle(&t, &c, &opts, &mut p) {
                ctx.violation("fuzz_vm_diff", &f, serde_json::to_value(&c).unwrap_or(Value::Null));
            }
        }
    }
}

pub fn replay(ctx: &mut Ctx, sub: &str, case: &Value) {
    let t = Tables::build();
    if sub == "fuzz_vm_diff" {
        ctx.replay_case::<VmCase, _>(sub, case, |c, p| crate::props::c01::oracle_program(&t, c, p, 24));
        return;
    }
    ctx.replay_case::<C03Case, _>(sub, case, |c, p| oracle(&t, c, p));
}
