//! C17 — type-erased (dyn) forms behave exactly like the operators they wrap.
//!
//! Two stages, both outside the main harness library so that a missing erased
//! flavour cannot break the build of the other properties' checks:
//!  1. a *generated compile probe* (one erased flavour per line; `cargo check
//!     --message-format=json`) decides that every flavour of the cross product
//!     5 traits x 7 pointer kinds x 4 auto-trait sets x 2 error types exists;
//!  2. the companion binary `vdyn` (crate /verif/harness-dyn) runs the concrete
//!     value and every erased flavour from cloned generators on generated cases.

use std::path::Path;
use std::process::Command;

use serde_json::{json, Value};

use crate::{Ctx, Fail};

pub const POINTERS: [(&str, &str); 7] = [
    ("&", "&'a {D}"),
    ("&mut", "&'a mut {D}"),
    ("Box", "Box<{D}>"),
    ("Rc", "std::rc::Rc<{D}>"),
    ("Arc", "std::sync::Arc<{D}>"),
    ("Ref", "std::cell::Ref<'a, {D}>"),
    ("RefMut", "std::cell::RefMut<'a, {D}>"),
];
pub const AUTOS: [&str; 4] = ["", " + Send", " + Sync", " + Send + Sync"];
pub const ERRORS: [(&str, &str); 2] = [("boxed", "Box<dyn std::error::Error + Send + Sync>"), ("concrete", "std::fmt::Error")];

struct TraitSpec {
    name: &'static str,
    /// dyn type with {E} for the error parameter
    dyn_ty: &'static str,
    /// assertion function call with {E}
    need: &'static str,
}

const TRAITS: [TraitSpec; 5] = [
    TraitSpec {
        name: "Selector",
        dyn_ty: "dyn ec_core::operator::selector::DynSelector<Pop, {E}>",
        need: "need_selector::<_, {E}>(x)",
    },
    TraitSpec {
        name: "Mutator",
        dyn_ty: "dyn ec_core::operator::mutator::DynMutator<Vec<u8>, {E}>",
        need: "need_mutator::<_, {E}>(x)",
    },
    TraitSpec {
        name: "Recombinator",
        dyn_ty: "dyn ec_core::operator::recombinator::DynRecombinator<[Vec<u8>; 2], {E}, Output = Vec<u8>>",
        need: "need_recombinator::<_, {E}>(x)",
    },
    TraitSpec {
        name: "Operator",
        dyn_ty: "dyn ec_core::operator::DynOperator<u8, {E}, Output = u16>",
        need: "need_operator::<_, {E}>(x)",
    },
    TraitSpec {
        name: "ChildMaker",
        dyn_ty: "dyn ec_core::child_maker::DynChildMaker<Pop, ec_core::operator::selector::best::Best, {E}>",
        need: "need_child_maker::<_, {E}>(x)",
    },
];

const PRELUDE: &str = r"#![allow(dead_code, unused_variables, clippy::all)]
type Pop = Vec<u8>;
fn need_selector<S: ec_core::operator::selector::Selector<Pop, Error = E>, E>(_: S) {}
fn need_mutator<S: ec_core::operator::mutator::Mutator<Vec<u8>, Error = E>, E>(_: S) {}
fn need_recombinator<S: ec_core::operator::recombinator::Recombinator<[Vec<u8>; 2], Output = Vec<u8>, Error = E>, E>(_: S) {}
fn need_operator<S: ec_core::operator::Operator<u8, Output = u16, Error = E>, E>(_: S) {}
fn need_child_maker<S: ec_core::child_maker::ChildMaker<Pop, ec_core::operator::selector::best::Best, Error = E>, E>(_: S) {}
";

/// (line number, flavour name, source line)
#[must_use]
pub fn flavour_lines() -> Vec<(usize, String, String)> {
    let first_line = PRELUDE.lines().count() + 1;
    let mut out = vec![];
    for t in &TRAITS {
        for (pname, ptr) in POINTERS {
            for auto in AUTOS {
                for (ename, ety) in ERRORS {
                    let d = format!("({}{auto})", t.dyn_ty.replace("{E}", ety));
                    let ty = ptr.replace("{D}", &d);
                    let name = format!("{pname}<dyn Dyn{}{auto}> [{ename} error]", t.name);
                    let idx = out.len();
                    let line = format!("fn f{idx}<'a>(x: {ty}) {{ {}; }}", t.need.replace("{E}", ety));
                    out.push((first_line + idx, name, line));
                }
            }
        }
    }
    out
}

fn verif_dir() -> String {
    std::env::var("VERIF_DIR_REAL").unwrap_or_else(|_| crate::VERIF_DIR.to_string())
}

/// Run `cargo check --message-format=json` on the generated crate; returns (error lines with code+message, other errors)
pub fn compile_probe(dir: &str, source: &str) -> Result<Vec<(usize, String, String)>, String> {
    std::fs::create_dir_all(format!("{dir}/src")).map_err(|e| e.to_string())?;
    std::fs::create_dir_all(format!("{dir}/.cargo")).map_err(|e| e.to_string())?;
    std::fs::write(format!("{dir}/.cargo/config.toml"), "[net]\noffline = true\n").map_err(|e| e.to_string())?;
    std::fs::write(
        format!("{dir}/Cargo.toml"),
        format!("[package]\nname = \"verif-probe\"\nversion = \"0.0.0\"\nedition = \"2021\"\npublish = false\n\n[workspace]\n\n[lib]\npath = \"src/lib.rs\"\n\n[dependencies]\nec-core = {{ path = \"{repo}/packages/ec-core\" }}\npush = {{ path = \"{repo}/packages/push\" }}\nordered-float = \"5.0.0\"\n", repo = crate::repo_dir()),
    )
    .map_err(|e| e.to_string())?;
    if !Path::new(&format!("{dir}/Cargo.lock")).exists() {
        std::fs::copy(format!("{}/Cargo.lock", crate::repo_dir()), format!("{dir}/Cargo.lock")).map_err(|e| e.to_string())?;
    }
    std::fs::write(format!("{dir}/src/lib.rs"), source).map_err(|e| e.to_string())?;
    let target = format!("{}/harness/target/probe", verif_dir());
    let out = Command::new("cargo")
        .args(["check", "--offline", "--message-format=json", "--lib"])
        .current_dir(dir)
        .env("CARGO_TARGET_DIR", &target)
        .env("CARGO_NET_OFFLINE", "true")
        .output()
        .map_err(|e| format!("cannot run cargo: {e}"))?;
    let mut errors = vec![];
    let mut other = vec![];
    for line in String::from_utf8_lossy(&out.stdout).lines() {
        let Ok(v) = serde_json::from_str::<Value>(line) else { continue };
        if v["reason"] != "compiler-message" {
            continue;
        }
        let m = &v["message"];
        if m["level"] != "error" {
            continue;
        }
        let code = m["code"]["code"].as_str().unwrap_or("").to_string();
        let text = m["message"].as_str().unwrap_or("").to_string();
        let in_probe = v["target"]["name"].as_str().is_some_and(|n| n.contains("verif") || n.contains("probe"));
        let span_line = m["spans"]
            .as_array()
            .and_then(|s| s.iter().find(|sp| sp["is_primary"] == true && sp["file_name"].as_str().is_some_and(|f| f.ends_with("src/lib.rs"))))
            .and_then(|sp| sp["line_start"].as_u64());
        match (in_probe, span_line) {
            (true, Some(l)) => errors.push((l as usize, code, text)),
            _ => {
                if !text.starts_with("aborting due to") && !text.starts_with("could not compile") {
                    other.push(format!("{code} {text}"));
                }
            }
        }
    }
    if !other.is_empty() {
        return Err(format!("compile probe hit errors outside the probed lines: {:?}", &other[..other.len().min(3)]));
    }
    if errors.is_empty() && !out.status.success() {
        return Err(format!("cargo check failed without diagnostics: {}", String::from_utf8_lossy(&out.stderr).lines().rev().take(5).collect::<Vec<_>>().join(" | ")));
    }
    Ok(errors)
}

pub fn run(ctx: &mut Ctx) {
    let dir = format!("{}/gen/c17probe", verif_dir());
    let lines = flavour_lines();
    let mut src = String::from(PRELUDE);
    for (_, _, l) in &lines {
        src.push_str(l);
        src.push('\n');
    }
    ctx.rule = "stage 1 (compile probe): one generated function per erased flavour - 5 traits x {&, &mut, Box, Rc, Arc, Ref, RefMut} x {none, Send, Sync, Send+Sync} x {boxed std error, concrete error} = 280 - asserting that the pointer-to-dyn type implements the original trait with the erased error type; a missing-impl diagnostic (E0277/E0599) on a line is a violation naming the flavour. stage 2 (vdyn): for generated selectors / mutators / recombinators / operators / child makers (incl. failing ones), arguments and seeds, the concrete value and each erased flavour run from cloned word-counting generators: same individual (pointer identity) / genome / value, same error text and downcast to the original type, same words consumed and same next word. non-trivial = a (trait, pointer, auto-trait, error) flavour exercised with an implementation that consumed randomness; counted per flavour and per generated case".into();
    let t0 = std::time::Instant::now();
    match compile_probe(&dir, &src) {
        Err(e) => {
            ctx.inconclusive.push(format!("compile probe could not be evaluated: {e}"));
            return;
        }
        Ok(errors) => {
            ctx.count("compile_probe", lines.len() as u64);
            let mut missing = vec![];
            for (line, code, text) in &errors {
                let fl = lines.iter().find(|(l, _, _)| l == line);
                match (fl, code.as_str()) {
                    (Some((_, name, src_line)), "E0277" | "E0599" | "E0271") => {
                        missing.push(name.clone());
                        let f = Fail::new(
                            format!("erased-flavour-missing/{name}"),
                            format!("the erased form {name} does not implement the original trait: {code} {text}\n  probe line: {src_line}"),
                        );
                        ctx.violation("compile_probe", &f, json!({"flavour": name, "line": src_line}));
                    }
                    _ => ctx.inconclusive.push(format!("compile probe: unexpected diagnostic {code} at line {line}: {text}")),
                }
            }
            for (_, name, _) in &lines {
                if !missing.contains(name) {
                    ctx.note_nontrivial(crate::fnv(&format!("probe {name}")));
                }
            }
            ctx.extra.insert(
                "compile_probe".into(),
                json!({"flavours": lines.len(), "missing": missing, "wall_s": t0.elapsed().as_secs_f64(), "sample_lines": lines.iter().step_by(47).map(|(_, n, l)| json!({"flavour": n, "line": l})).collect::<Vec<_>>()}),
            );
            for (_, n, l) in lines.iter().step_by(97) {
                ctx.add_sample(json!({"sub": "compile_probe", "flavour": n, "line": l}));
            }
            if !missing.is_empty() || !ctx.inconclusive.is_empty() {
                return; // the runtime crate cannot build without the missing flavours
            }
        }
    }
    // stage 2: build and run the companion binary
    let hd = format!("{}/harness-dyn", verif_dir());
    if !Path::new(&format!("{hd}/Cargo.lock")).exists() {
        let _ = std::fs::copy(format!("{}/harness/Cargo.lock", verif_dir()), format!("{hd}/Cargo.lock"));
    }
    let target = format!("{}/harness/target", verif_dir());
    let build = Command::new("cargo")
        .args(["build", "--release", "--offline", "--bin", "vdyn"])
        .current_dir(&hd)
        .env("CARGO_TARGET_DIR", &target)
        .env("CARGO_NET_OFFLINE", "true")
        .output();
    match build {
        Ok(o) if o.status.success() => {}
        Ok(o) => {
            let err = String::from_utf8_lossy(&o.stderr);
            let first: Vec<&str> = err.lines().filter(|l| l.starts_with("error")).take(4).collect();
            ctx.inconclusive.push(format!("the runtime comparison crate does not build although every probed flavour exists: {first:?}"));
            return;
        }
        Err(e) => {
            ctx.inconclusive.push(format!("cannot run cargo: {e}"));
            return;
        }
    }
    let out_file = format!("{}/gen/c17_runtime.json", verif_dir());
    let _ = std::fs::remove_file(&out_file);
    let status = Command::new(format!("{target}/release/vdyn"))
        .args(["--tier", ctx.tier.name(), "--seed", &ctx.seed.to_string(), "--out", &out_file])
        .status();
    let Ok(text) = std::fs::read_to_string(&out_file) else {
        ctx.inconclusive.push(format!("vdyn produced no result file (status {status:?})"));
        return;
    };
    let Ok(v) = serde_json::from_str::<Value>(&text) else {
        ctx.inconclusive.push("vdyn result file is not JSON".into());
        return;
    };
    ctx.count("runtime", v["evaluations"].as_u64().unwrap_or(0));
    for k in v["nontrivial_keys"].as_array().into_iter().flatten() {
        if let Some(k) = k.as_u64() {
            ctx.note_nontrivial(k);
        }
    }
    for s in v["samples"].as_array().into_iter().flatten().take(6) {
        ctx.add_sample(s.clone());
    }
    ctx.extra.insert("runtime_flavour_case_counts".into(), v["flavour_counts"].clone());
    ctx.extra.insert("runtime_flavours_exercised".into(), v["flavours_exercised"].clone());
    for viol in v["violations"].as_array().into_iter().flatten() {
        let f = Fail::new(viol["signature"].as_str().unwrap_or("runtime"), viol["message"].as_str().unwrap_or(""));
        ctx.violation(viol["sub"].as_str().unwrap_or("runtime"), &f, viol["case"].clone());
    }
    for m in v["inconclusive"].as_array().into_iter().flatten() {
        ctx.inconclusive.push(m.as_str().unwrap_or("").to_string());
    }
}

pub fn replay(ctx: &mut Ctx, _sub: &str, _case: &Value) {
    run(ctx);
}
