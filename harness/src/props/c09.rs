//! C09 — a generation step atomically replaces the population with as many fresh children.

use std::collections::BTreeSet;
use std::sync::atomic::{AtomicU64, Ordering};
use std::sync::{Mutex, OnceLock};

use ec_core::generation::Generation;
use ec_core::operator::{Composable, Operator};
use proptest::prelude::*;
use rand::Rng;
use serde::{Deserialize, Serialize};
use serde_json::Value;

use crate::{ensure, fail, guarded, hash64, panic_key, Ctx, Fail, Probe};

#[derive(Clone, Debug, PartialEq, Eq, Hash, PartialOrd, Ord)]
pub struct Child {
    pub call: u64,
    pub word: u64,
}

#[derive(Clone, Debug)]
struct Rec {
    call: u64,
    pop_addr: usize,
    data_addr: usize,
    pop_hash: u64,
    pop_len: usize,
    word: u64,
    failed: bool,
}

#[derive(Debug)]
pub struct ProbeErr(pub u64);

pub struct Shared {
    counter: AtomicU64,
    log: Mutex<Vec<Rec>>,
    /// absolute call numbers that fail
    fail_at: Mutex<BTreeSet<u64>>,
}

/// The generation owns its child maker and offers no accessor, so the probe's
/// bookkeeping lives behind an `Arc` of which the oracle keeps a clone.
pub struct Maker {
    shared: std::sync::Arc<Shared>,
    delays: Vec<u8>,
}

impl Composable for Maker {}

impl<'a> Operator<&'a Vec<Child>> for Maker {
    type Output = Child;
    type Error = ProbeErr;

    fn apply<R: Rng + ?Sized>(&self, pop: &'a Vec<Child>, rng: &mut R) -> Result<Child, ProbeErr> {
        let call = self.shared.counter.fetch_add(1, Ordering::SeqCst);
        let word = rng.next_u64();
        let d = self.delays.get(call as usize % self.delays.len().max(1)).copied().unwrap_or(0);
        match d {
            0 => {}
            1..=3 => std::thread::yield_now(),
            _ => std::thread::sleep(std::time::Duration::from_micros(u64::from(d))),
        }
        let failed = self.shared.fail_at.lock().map(|f| f.contains(&call)).unwrap_or(false);
        let rec = Rec {
            call,
            pop_addr: std::ptr::from_ref(pop) as usize,
            data_addr: pop.as_ptr() as usize,
            pop_hash: hash64(pop),
            pop_len: pop.len(),
            word,
            failed,
        };
        if let Ok(mut l) = self.shared.log.lock() {
            l.push(rec);
        }
        if failed {
            Err(ProbeErr(call))
        } else {
            Ok(Child { call, word })
        }
    }
}

#[derive(Clone, Debug, Serialize, Deserialize)]
pub struct Round {
    pub parallel: bool,
    /// index into POOL_SIZES
    pub pool: u8,
    /// calls (relative to the start of the round) that fail
    pub fail_calls: Vec<u16>,
}

#[derive(Clone, Debug, Serialize, Deserialize)]
pub struct Case {
    pub size: usize,
    pub rounds: Vec<Round>,
    pub delays: Vec<u8>,
}

pub const POOL_SIZES: [usize; 6] = [1, 2, 3, 4, 8, 16];

fn pool(i: u8) -> &'static rayon::ThreadPool {
    static POOLS: OnceLock<Vec<rayon::ThreadPool>> = OnceLock::new();
    let pools = POOLS.get_or_init(|| {
        POOL_SIZES
            .iter()
            .map(|n| rayon::ThreadPoolBuilder::new().num_threads(*n).build().expect("rayon pool"))
            .collect()
    });
    &pools[usize::from(i) % pools.len()]
}

pub fn oracle(c: &Case, probe: &mut Probe) -> Result<(), Fail> {
    let initial: Vec<Child> = (0..c.size as u64).map(|i| Child { call: u64::MAX - i, word: i.wrapping_mul(0x9E37_79B9) }).collect();
    let shared = std::sync::Arc::new(Shared {
        counter: AtomicU64::new(0),
        log: Mutex::new(vec![]),
        fail_at: Mutex::new(BTreeSet::new()),
    });
    let maker = Maker {
        shared: shared.clone(),
        delays: c.delays.clone(),
    };
    let mut generation = Generation::new(maker, initial);
    let mut all_words: BTreeSet<u64> = BTreeSet::new();
    let mut had_failure = false;
    let mut max_threads = 1;
    for (ri, round) in c.rounds.iter().enumerate() {
        let name = if round.parallel { "par_next" } else { "serial_next" };
        let threads = if round.parallel { POOL_SIZES[usize::from(round.pool) % POOL_SIZES.len()] } else { 1 };
        max_threads = max_threads.max(threads);
        let old = generation.population().clone();
        let old_hash = hash64(&old);
        let old_addr = std::ptr::from_ref(generation.population()) as usize;
        let old_data = generation.population().as_ptr() as usize;
        let start_call = shared.counter.load(Ordering::SeqCst);
        {
            let mut f = shared.fail_at.lock().map_err(|_| Fail::new("harness/lock", "poisoned"))?;
            f.clear();
            for rel in &round.fail_calls {
                f.insert(start_call + u64::from(*rel));
            }
        }
        let scripted_failure = round.fail_calls.iter().any(|r| usize::from(*r) < old.len());
        let result = guarded(|| {
            if round.parallel {
                pool(round.pool).install(|| generation.par_next())
            } else {
                generation.serial_next()
            }
        });
        let log: Vec<Rec> = {
            let mut l = shared.log.lock().map_err(|_| Fail::new("harness/lock", "poisoned"))?;
            std::mem::take(&mut *l)
        };
        let result = match result {
            Ok(r) => r,
            Err(p) => fail!(format!("{name}/panic:{}", panic_key(&p)), "round {ri}: {name} on {} individuals ({threads} threads) panicked: {p}", old.len()),
        };
        // every call was shown the previous, unmodified population
        for r in &log {
            ensure!(
                r.pop_len == old.len() && r.pop_hash == old_hash,
                format!("{name}/child-maker-saw-modified-population"),
                "round {ri}: call {} was shown a population of {} individuals that differs from the previous population ({} individuals)",
                r.call,
                r.pop_len,
                old.len()
            );
            let _ = (r.pop_addr, r.data_addr, old_addr, old_data); // addresses are recorded but not judged: a faithful copy of the old population would also satisfy the property
            ensure!(
                all_words.insert(r.word),
                format!("{name}/children-share-randomness"),
                "round {ri}: call {} drew the random word {:#x} that an earlier child (this or an earlier round) had already drawn - children must be made with their own live randomness ({} individuals, {threads} threads)",
                r.call,
                r.word,
                old.len()
            );
        }
        match result {
            Ok(()) => {
                ensure!(
                    !scripted_failure || log.iter().all(|r| !r.failed),
                    format!("{name}/failure-swallowed"),
                    "round {ri}: a child maker call failed but {name} returned Ok"
                );
                let new = generation.population();
                ensure!(
                    new.len() == old.len(),
                    format!("{name}/population-size-changed"),
                    "round {ri}: population went from {} to {} individuals",
                    old.len(),
                    new.len()
                );
                ensure!(
                    log.len() == old.len(),
                    format!("{name}/wrong-number-of-children-made"),
                    "round {ri}: the child maker was called {} times for a population of {}",
                    log.len(),
                    old.len()
                );
                let mut made: Vec<Child> = log.iter().map(|r| Child { call: r.call, word: r.word }).collect();
                let mut got: Vec<Child> = new.clone();
                if round.parallel {
                    made.sort();
                    got.sort();
                } else {
                    made.sort_by_key(|c| c.call);
                }
                ensure!(
                    made == got,
                    format!("{name}/population-is-not-the-children-made"),
                    "round {ri}: the new population is not exactly the children produced in this round (old members kept, children lost or duplicated): new {:?} made {:?}",
                    &got[..got.len().min(6)],
                    &made[..made.len().min(6)]
                );
            }
            Err(ProbeErr(call)) => {
                had_failure = true;
                ensure!(
                    log.iter().any(|r| r.failed && r.call == call),
                    format!("{name}/foreign-error"),
                    "round {ri}: returned the error of call {call}, which did not fail in this round"
                );
                let now = generation.population();
                ensure!(
                    *now == old,
                    format!("{name}/population-changed-on-error"),
                    "round {ri}: child creation failed (call {call}) but the population changed: {} -> {} individuals",
                    old.len(),
                    now.len()
                );
            }
        }
    }
    probe.nontrivial = c.size >= 2 && (had_failure || max_threads >= 2);
    if had_failure {
        probe.label("round with a failing child");
    }
    if c.size >= 128 {
        probe.label("population >= 128");
    }
    if max_threads >= 8 {
        probe.label(">= 8 threads");
    }
    Ok(())
}

fn strategy() -> BoxedStrategy<Case> {
    let size = prop_oneof![
        1 => Just(0usize),
        1 => Just(1usize),
        6 => 2usize..=64,
        2 => prop::sample::select(vec![127usize, 128, 129, 200, 256, 300]),
        1 => Just(1000usize),
    ];
    size.prop_flat_map(|size| {
        let n = size as u16;
        let fail = prop_oneof![
            5 => Just(vec![]),
            2 => prop::collection::vec(0u16..n.max(1), 1..=1),
            1 => prop::collection::vec(0u16..n.max(1), 1..4),
            1 => Just(vec![0u16]),
            1 => Just(vec![n.saturating_sub(1)]),
        ];
        let round = (any::<bool>(), 0u8..6, fail).prop_map(|(parallel, pool, fail_calls)| Round { parallel, pool, fail_calls });
        let delays = if size <= 64 {
            prop::collection::vec(prop_oneof![4 => Just(0u8), 2 => 1u8..4, 1 => 4u8..40], 1..8).boxed()
        } else {
            prop::collection::vec(prop_oneof![6 => Just(0u8), 1 => 1u8..4], 1..8).boxed()
        };
        (Just(size), prop::collection::vec(round, 1..5), delays)
    })
    .prop_map(|(size, rounds, delays)| Case { size, rounds, delays })
    .boxed()
}

pub fn run(ctx: &mut Ctx) {
    ctx.rule = "population sizes {0, 1, 2..64, 127..300, 1000}; 1-4 consecutive generation steps per case, each serial or parallel inside a rayon pool of 1/2/3/4/8/16 threads; the child maker is a probe that records the address and a hash of the population it is shown, draws one word from the generator it is handed, yields/sleeps according to a generated delay script and fails at generated call positions. Oracle after Ok: same size, the new population is exactly the children made in this round (sequence for serial, multiset for parallel), every call saw the old population at the old address, all drawn words pairwise distinct within and across rounds; after Err: the error is one the probe raised and the population is unchanged. non-trivial = size >= 2 and (a failing child or >= 2 threads); distinct by JSON encoding".into();
    ctx.assumptions.push("interleavings are perturbed (pool size x delay script), not enumerated: rayon's scheduler is not under the harness's control".into());
    let n = ctx.tier.pick(12_000u32, 400_000);
    let saved = ctx.threads;
    ctx.threads = saved.min(8); // the rayon pools need cores of their own
    ctx.run_prop("generation_steps", n, strategy, oracle);
    ctx.threads = saved;
}

pub fn replay(ctx: &mut Ctx, sub: &str, case: &Value) {
    ctx.replay_case::<Case, _>(sub, case, oracle);
}
