//! C09 — a generation step atomically replaces the population with as many fresh children.

use std::collections::BTreeSet;
use std::sync::atomic::{AtomicU64, Ordering};
use std::sync::{Mutex, OnceLock};

use ec_core::generation::Generation;
use ec_core::operator::{Composable, Operator};
use proptest::prelude::*;
use rand::Rng;
use serde::{Deserialize, Serialize};
use serde_json::Value;

use crate::{ensure, fail, guarded, hash64, panic_key, Ctx, Fail, Probe};

#[derive(Clone, Debug, PartialEq, Eq, Hash, PartialOrd, Ord)]
pub struct Child {
    pub call: u64,
    pub word: u64,
    /// what the merging population kinds compare by (`word % modulus`, or the call number)
    pub key: u64,
}

/// An individual that is equal to every other individual with the same key: a set-like
/// population merges such children, so a generation step can shrink the population.
#[derive(Clone, Debug)]
pub struct Keyed(pub Child);
impl PartialEq for Keyed {
    fn eq(&self, o: &Self) -> bool {
        self.0.key == o.0.key
    }
}
impl Eq for Keyed {}
impl PartialOrd for Keyed {
    fn partial_cmp(&self, o: &Self) -> Option<std::cmp::Ordering> {
        Some(self.cmp(o))
    }
}
impl Ord for Keyed {
    fn cmp(&self, o: &Self) -> std::cmp::Ordering {
        self.0.key.cmp(&o.0.key)
    }
}
impl std::hash::Hash for Keyed {
    fn hash<H: std::hash::Hasher>(&self, h: &mut H) {
        self.0.key.hash(h);
    }
}
impl From<Child> for Keyed {
    fn from(c: Child) -> Self {
        Self(c)
    }
}
/// An individual with a large inline payload (`BYTES` bytes next to the child record): block sizes,
/// chunk lengths or buffers that are computed from `size_of::<Individual>()` see unusual values.
#[derive(Clone, Debug)]
pub struct Bulky<const BYTES: usize> {
    pub child: Child,
    pub pad: [u8; BYTES],
}
impl<const BYTES: usize> From<Child> for Bulky<BYTES> {
    fn from(child: Child) -> Self {
        let fill = child.word as u8;
        Self { child, pad: [fill; BYTES] }
    }
}
impl<const BYTES: usize> IndLike for Bulky<BYTES> {
    fn child(&self) -> &Child {
        &self.child
    }
}
impl<const BYTES: usize> PopLike for Vec<Bulky<BYTES>> {
    type Ind = Bulky<BYTES>;
    const NAME: &'static str = "Vec of individuals with a large inline payload";
    const SEQUENCE: bool = true;
    fn members(&self) -> Vec<Child> {
        self.iter().map(|b| b.child.clone()).collect()
    }
}

pub trait IndLike: From<Child> + Clone + Send + Sync + 'static {
    fn child(&self) -> &Child;
}
impl IndLike for Child {
    fn child(&self) -> &Child {
        self
    }
}
impl IndLike for Keyed {
    fn child(&self) -> &Child {
        &self.0
    }
}

/// The population kinds a `Generation` is exercised with (everything the blanket `Population`
/// impl admits that rayon can collect into).
pub trait PopLike: ec_core::population::Population<Individual = Self::Ind> + FromIterator<Self::Ind> + rayon::iter::FromParallelIterator<Self::Ind> + Clone + Send + Sync + 'static {
    type Ind: IndLike;
    const NAME: &'static str;
    /// keeps insertion order and never merges
    const SEQUENCE: bool;
    /// members in iteration order
    fn members(&self) -> Vec<Child>;
    /// what a child maker call records about the population it is shown (must agree with `fingerprint_of(&self.members())`)
    fn fingerprint(&self) -> (usize, u64) {
        fingerprint_of(&self.members())
    }
}
impl PopLike for Vec<Child> {
    type Ind = Child;
    const NAME: &'static str = "Vec";
    const SEQUENCE: bool = true;
    fn members(&self) -> Vec<Child> {
        self.clone()
    }
    fn fingerprint(&self) -> (usize, u64) {
        fingerprint_of(self) // no copy: large Vec populations are the common large case
    }
}
impl PopLike for std::collections::VecDeque<Child> {
    type Ind = Child;
    const NAME: &'static str = "VecDeque";
    const SEQUENCE: bool = true;
    fn members(&self) -> Vec<Child> {
        self.iter().cloned().collect()
    }
}
impl PopLike for BTreeSet<Keyed> {
    type Ind = Keyed;
    const NAME: &'static str = "BTreeSet";
    const SEQUENCE: bool = false;
    fn members(&self) -> Vec<Child> {
        self.iter().map(|k| k.0.clone()).collect()
    }
}
impl PopLike for std::collections::HashSet<Keyed> {
    type Ind = Keyed;
    const NAME: &'static str = "HashSet";
    const SEQUENCE: bool = false;
    fn members(&self) -> Vec<Child> {
        let mut v: Vec<Child> = self.iter().map(|k| k.0.clone()).collect();
        v.sort_by_key(|c| c.key);
        v
    }
}

/// what a child-maker call saw: the keys (sets) or full members (sequences) of the population
fn fingerprint<P: PopLike>(pop: &P) -> (usize, u64) {
    pop.fingerprint()
}

/// full hash for populations of up to 300 members; for larger ones (every child maker call computes
/// this) the length, 64 evenly spaced members and both ends
fn fingerprint_of(m: &[Child]) -> (usize, u64) {
    if m.len() <= 300 {
        (m.len(), hash64(m))
    } else {
        let step = m.len() / 64;
        let sampled: Vec<&Child> = m.iter().step_by(step.max(1)).chain(m.last()).collect();
        (m.len(), hash64(&sampled))
    }
}

#[derive(Clone, Debug)]
struct Rec {
    call: u64,
    pop_hash: u64,
    pop_len: usize,
    word: u64,
    key: u64,
    failed: bool,
}

#[derive(Debug)]
pub struct ProbeErr(pub u64);

pub struct Shared {
    counter: AtomicU64,
    log: Mutex<Vec<Rec>>,
    /// words drawn by the children of the inner generations a nesting child maker steps (island model)
    inner_words: Mutex<Vec<u64>>,
    /// absolute call numbers that fail
    fail_at: Mutex<BTreeSet<u64>>,
}

/// The generation owns its child maker and offers no accessor, so the probe's
/// bookkeeping lives behind an `Arc` of which the oracle keeps a clone.
/// child maker of the inner generations: draws one word per child
pub struct InnerMaker {
    shared: std::sync::Arc<Shared>,
}
impl Composable for InnerMaker {}
impl<'a> Operator<&'a Vec<Child>> for InnerMaker {
    type Output = Child;
    type Error = ProbeErr;
    fn apply<R: Rng + ?Sized>(&self, _: &'a Vec<Child>, rng: &mut R) -> Result<Child, ProbeErr> {
        let word = rng.next_u64();
        if let Ok(mut w) = self.shared.inner_words.lock() {
            w.push(word);
        }
        Ok(Child { call: 0, word, key: word })
    }
}

pub struct Maker<P> {
    shared: std::sync::Arc<Shared>,
    /// 0: plain. k > 0: every k-th call first steps a small generation of its own (serially for odd k, in parallel
    /// for even k) - an island model, generation steps nested inside the child maker of a generation step
    nested: u8,
    delays: Vec<u8>,
    /// 0: every child gets a key of its own; m > 0: key = word % m, so set-like populations merge children
    modulus: u64,
    _p: std::marker::PhantomData<fn() -> P>,
}

impl<P> Composable for Maker<P> {}

impl<'a, P: PopLike> Operator<&'a P> for Maker<P> {
    type Output = P::Ind;
    type Error = ProbeErr;

    fn apply<R: Rng + ?Sized>(&self, pop: &'a P, rng: &mut R) -> Result<P::Ind, ProbeErr> {
        let call = self.shared.counter.fetch_add(1, Ordering::SeqCst);
        if self.nested > 0 && call % u64::from(self.nested) == 0 {
            let island: Vec<Child> = (0..3).map(|i| Child { call: 0, word: i, key: i }).collect();
            let mut inner = Generation::new(InnerMaker { shared: self.shared.clone() }, island);
            let _ = if self.nested % 2 == 1 { inner.serial_next() } else { inner.par_next() };
        }
        let word = rng.next_u64();
        let d = self.delays.get(call as usize % self.delays.len().max(1)).copied().unwrap_or(0);
        match d {
            0 => {}
            1..=3 => std::thread::yield_now(),
            _ => std::thread::sleep(std::time::Duration::from_micros(u64::from(d))),
        }
        let failed = self.shared.fail_at.lock().map(|f| f.contains(&call)).unwrap_or(false);
        let key = if self.modulus == 0 { call } else { word % self.modulus };
        let (pop_len, pop_hash) = fingerprint(pop);
        let rec = Rec { call, pop_hash, pop_len, word, key, failed };
        if let Ok(mut l) = self.shared.log.lock() {
            l.push(rec);
        }
        if failed {
            Err(ProbeErr(call))
        } else {
            Ok(P::Ind::from(Child { call, word, key }))
        }
    }
}

#[derive(Clone, Debug, Serialize, Deserialize)]
pub struct Round {
    pub parallel: bool,
    /// index into POOL_SIZES
    pub pool: u8,
    /// calls (relative to the start of the round) that fail
    pub fail_calls: Vec<u16>,
}

#[derive(Clone, Debug, Serialize, Deserialize)]
pub struct Case {
    pub size: usize,
    pub rounds: Vec<Round>,
    pub delays: Vec<u8>,
    /// 0 Vec, 1 VecDeque, 2 BTreeSet, 3 HashSet, 4..6 Vec of individuals with 5000 / 40000 / 70000 bytes inline
    #[serde(default)]
    pub kind: u8,
    /// see `Maker::modulus`
    #[serde(default)]
    pub modulus: u8,
    /// see `Maker::nested`
    #[serde(default)]
    pub nested: u8,
}

pub const POOL_SIZES: [usize; 6] = [1, 2, 3, 4, 8, 16];

fn pool(i: u8) -> &'static rayon::ThreadPool {
    static POOLS: OnceLock<Vec<rayon::ThreadPool>> = OnceLock::new();
    let pools = POOLS.get_or_init(|| {
        POOL_SIZES
            .iter()
            .map(|n| rayon::ThreadPoolBuilder::new().num_threads(*n).build().expect("rayon pool"))
            .collect()
    });
    &pools[usize::from(i) % pools.len()]
}

pub fn oracle(c: &Case, probe: &mut Probe) -> Result<(), Fail> {
    probe.label(format!(
        "population kind {}",
        ["Vec", "VecDeque", "BTreeSet", "HashSet", "Vec of 5000-byte individuals", "Vec of 40000-byte individuals", "Vec of 70000-byte individuals"][usize::from(c.kind % 7)]
    ));
    match c.kind % 7 {
        0 => oracle_for::<Vec<Child>>(c, probe),
        1 => oracle_for::<std::collections::VecDeque<Child>>(c, probe),
        2 => oracle_for::<BTreeSet<Keyed>>(c, probe),
        3 => oracle_for::<std::collections::HashSet<Keyed>>(c, probe),
        4 => oracle_for::<Vec<Bulky<5000>>>(c, probe),
        5 => oracle_for::<Vec<Bulky<40_000>>>(c, probe),
        _ => oracle_for::<Vec<Bulky<70_000>>>(c, probe),
    }
}

fn oracle_for<P: PopLike>(c: &Case, probe: &mut Probe) -> Result<(), Fail> {
    let initial: P = (0..c.size as u64).map(|i| P::Ind::from(Child { call: u64::MAX - i, word: i.wrapping_mul(0x9E37_79B9), key: 1_000_000 + i })).collect();
    let shared = std::sync::Arc::new(Shared {
        counter: AtomicU64::new(0),
        log: Mutex::new(vec![]),
        fail_at: Mutex::new(BTreeSet::new()),
        inner_words: Mutex::new(vec![]),
    });
    let maker: Maker<P> = Maker {
        shared: shared.clone(),
        nested: c.nested,
        delays: c.delays.clone(),
        modulus: u64::from(c.modulus),
        _p: std::marker::PhantomData,
    };
    let kind = P::NAME;
    let mut generation = Generation::new(maker, initial);
    let mut all_words: BTreeSet<u64> = BTreeSet::new();
    let mut had_failure = false;
    let mut max_threads = 1;
    let mut shrank = false;
    // children made in failed rounds since the population last changed
    let mut pending: Vec<Child> = vec![];
    for (ri, round) in c.rounds.iter().enumerate() {
        let name = if round.parallel { "par_next" } else { "serial_next" };
        let threads = if round.parallel { POOL_SIZES[usize::from(round.pool) % POOL_SIZES.len()] } else { 1 };
        max_threads = max_threads.max(threads);
        let old = generation.population().members();
        let old_size = ec_core::population::Population::size(generation.population());
        ensure!(
            old_size == old.len() && ec_core::population::Population::is_empty(generation.population()) == old.is_empty(),
            "population/size",
            "a {kind} population of {} members reports size() = {old_size} and is_empty() = {}",
            old.len(),
            ec_core::population::Population::is_empty(generation.population())
        );
        let old_hash = fingerprint_of(&old).1;
        let start_call = shared.counter.load(Ordering::SeqCst);
        {
            let mut f = shared.fail_at.lock().map_err(|_| Fail::new("harness/lock", "poisoned"))?;
            f.clear();
            for rel in &round.fail_calls {
                f.insert(start_call + u64::from(*rel));
            }
        }
        let scripted_failure = round.fail_calls.iter().any(|r| usize::from(*r) < old.len());
        let result = guarded(|| {
            if round.parallel {
                pool(round.pool).install(|| generation.par_next())
            } else {
                generation.serial_next()
            }
        });
        let log: Vec<Rec> = {
            let mut l = shared.log.lock().map_err(|_| Fail::new("harness/lock", "poisoned"))?;
            std::mem::take(&mut *l)
        };
        let result = match result {
            Ok(r) => r,
            Err(p) => fail!(format!("{name}/panic:{}", panic_key(&p)), "round {ri}: {name} on {} individuals ({kind}, {threads} threads) panicked: {p}", old.len()),
        };
        // every call was shown the previous, unmodified population
        for r in &log {
            ensure!(
                r.pop_len == old.len() && r.pop_hash == old_hash,
                format!("{name}/child-maker-saw-modified-population"),
                "round {ri}: call {} was shown a population of {} individuals that differs from the previous population ({} individuals, {kind})",
                r.call,
                r.pop_len,
                old.len()
            );
            ensure!(
                all_words.insert(r.word),
                format!("{name}/children-share-randomness"),
                "round {ri}: call {} drew the random word {:#x} that an earlier child (this or an earlier round) had already drawn - children must be made with their own live randomness ({} individuals, {threads} threads)",
                r.call,
                r.word,
                old.len()
            );
        }
        // children of the nested (island) generations draw their own words too
        let inner: Vec<u64> = {
            let mut w = shared.inner_words.lock().map_err(|_| Fail::new("harness/lock", "poisoned"))?;
            std::mem::take(&mut *w)
        };
        for w in inner {
            ensure!(
                all_words.insert(w),
                format!("{name}/children-share-randomness"),
                "round {ri}: a child of a generation stepped inside the child maker drew the random word {w:#x} that another child (outer or inner, this or an earlier round) had already drawn - every child is made with its own live randomness ({} individuals, {threads} threads)",
                old.len()
            );
        }
        let made_now: Vec<Child> = {
            let mut m: Vec<Child> = log.iter().filter(|r| !r.failed).map(|r| Child { call: r.call, word: r.word, key: r.key }).collect();
            m.sort_by_key(|c| c.call);
            m
        };
        match result {
            Ok(()) => {
                ensure!(
                    !scripted_failure || log.iter().all(|r| !r.failed),
                    format!("{name}/failure-swallowed"),
                    "round {ri}: a child maker call failed but {name} returned Ok"
                );
                let new = generation.population().members();
                // Children that may legitimately be in the new population: those made in this round and
                // those made in failed rounds since the population last changed (they were produced from
                // this very population; an implementation may keep them for the retry).
                let is_candidate = |m: &Child| made_now.iter().chain(pending.iter()).any(|c| c == m);
                let reused = new.iter().filter(|m| pending.iter().any(|c| c == *m)).count();
                ensure!(
                    made_now.len() <= old.len() && old.len() <= made_now.len() + pending.len(),
                    format!("{name}/wrong-number-of-children-made"),
                    "round {ri} ({kind}): the child maker was called {} times for a population of {} individuals ({} children were left over from failed attempts on this population)",
                    log.len(),
                    old.len(),
                    pending.len()
                );
                ensure!(
                    new.iter().all(is_candidate),
                    format!("{name}/population-is-not-the-children-made"),
                    "round {ri}: the new {kind} population contains an individual that was not produced from the previous population (old members kept, or children of an earlier population): new {:?}",
                    &new[..new.len().min(6)]
                );
                if P::SEQUENCE {
                    ensure!(
                        new.len() == old.len(),
                        format!("{name}/population-size-changed"),
                        "round {ri}: population ({kind}) went from {} to {} individuals",
                        old.len(),
                        new.len()
                    );
                    let mut got: Vec<Child> = new.clone();
                    got.sort();
                    got.dedup();
                    ensure!(
                        got.len() == new.len() && made_now.iter().all(|c| new.contains(c)) && made_now.len() + reused == old.len(),
                        format!("{name}/population-is-not-the-children-made"),
                        "round {ri}: the new population ({kind}) is not exactly the children produced for it (children lost or duplicated): new {:?} made in this round {:?}",
                        &new[..new.len().min(6)],
                        &made_now[..made_now.len().min(6)]
                    );
                    if !round.parallel {
                        ensure!(
                            new.windows(2).all(|w| w[0].call < w[1].call),
                            format!("{name}/population-is-not-the-children-made"),
                            "round {ri}: serial stepping did not keep the children in the order they were made: {:?}",
                            new.iter().map(|c| c.call).take(8).collect::<Vec<_>>()
                        );
                    }
                } else {
                    // a merging population keeps one child per key
                    let made_keys: BTreeSet<u64> = made_now.iter().map(|r| r.key).collect();
                    let got_keys: BTreeSet<u64> = new.iter().map(|c| c.key).collect();
                    ensure!(
                        made_keys.is_subset(&got_keys) && new.len() == got_keys.len(),
                        format!("{name}/population-is-not-the-children-made"),
                        "round {ri}: the new {kind} population has keys {:?}, the children made in this round have keys {:?}",
                        got_keys.iter().take(8).collect::<Vec<_>>(),
                        made_keys.iter().take(8).collect::<Vec<_>>()
                    );
                    if new.len() < old.len() {
                        shrank = true;
                    }
                }
                pending.clear();
            }
            Err(ProbeErr(call)) => {
                had_failure = true;
                ensure!(
                    log.iter().any(|r| r.failed && r.call == call),
                    format!("{name}/foreign-error"),
                    "round {ri}: returned the error of call {call}, which did not fail in this round"
                );
                let now = generation.population().members();
                ensure!(
                    now == old,
                    format!("{name}/population-changed-on-error"),
                    "round {ri}: child creation failed (call {call}) but the population ({kind}) changed: {} -> {} individuals",
                    old.len(),
                    now.len()
                );
                // the population is unchanged, so what was made for it so far stays valid for a retry
                pending.extend(made_now.iter().cloned());
            }
        }
    }
    // into_population hands back exactly what population() showed
    let last = generation.population().members();
    let owned = generation.into_population().members();
    ensure!(last == owned, "into_population/differs", "into_population() returned {} individuals, population() showed {}", owned.len(), last.len());
    probe.nontrivial = c.size >= 2 && (had_failure || max_threads >= 2 || shrank);
    if had_failure {
        probe.label("round with a failing child");
    }
    if shrank {
        probe.label("a merging population shrank and was stepped again");
    }
    if c.size >= 128 {
        probe.label("population >= 128");
    }
    if c.nested > 0 {
        probe.label("generation steps nested inside the child maker");
    }
    if max_threads >= 8 {
        probe.label(">= 8 threads");
    }
    Ok(())
}

fn strategy() -> BoxedStrategy<Case> {
    let size = prop_oneof![
        1 => Just(0usize),
        1 => Just(1usize),
        6 => 2usize..=64,
        2 => prop::sample::select(vec![127usize, 128, 129, 200, 256, 300]),
        1 => Just(1000usize),
        // beyond rayon's and anybody's task-splitting thresholds (kept rare: a case costs tens of milliseconds)
        1 => prop::sample::select(vec![2047usize, 2048, 2049, 4097, 6000]),
    ];
    size.prop_flat_map(|size| {
        let n = size as u16;
        let fail = prop_oneof![
            5 => Just(vec![]),
            2 => prop::collection::vec(0u16..n.max(1), 1..=1),
            1 => prop::collection::vec(0u16..n.max(1), 1..4),
            1 => Just(vec![0u16]),
            1 => Just(vec![n.saturating_sub(1)]),
        ];
        let round = (any::<bool>(), 0u8..6, fail).prop_map(|(parallel, pool, fail_calls)| Round { parallel, pool, fail_calls });
        let delays = if size <= 64 {
            prop::collection::vec(prop_oneof![4 => Just(0u8), 2 => 1u8..4, 1 => 4u8..40], 1..8).boxed()
        } else {
            prop::collection::vec(prop_oneof![6 => Just(0u8), 1 => 1u8..4], 1..8).boxed()
        };
        // individuals with a large inline payload only in populations of up to 300 (a 6000 x 70000-byte population is 420 MB)
        let kind = if size <= 300 {
            prop_oneof![5 => Just(0u8), 1 => Just(1u8), 2 => Just(2u8), 1 => Just(3u8), 1 => 4u8..7].boxed()
        } else {
            prop_oneof![5 => Just(0u8), 1 => Just(1u8), 2 => Just(2u8), 1 => Just(3u8)].boxed()
        };
        let modulus = prop_oneof![2 => Just(0u8), 3 => 1u8..=8, 1 => any::<u8>()];
        let nested = if size <= 64 { prop_oneof![4 => Just(0u8), 1 => 1u8..5].boxed() } else { Just(0u8).boxed() };
        (Just(size), prop::collection::vec(round, 1..5), delays, kind, modulus, nested)
    })
    .prop_map(|(size, rounds, delays, kind, modulus, nested)| Case { size, rounds, delays, kind, modulus, nested })
    .boxed()
}

pub fn run(ctx: &mut Ctx) {
    ctx.rule = "population sizes {0, 1, 2..64, 127..300, 1000, 2047..6000} held in a Vec, VecDeque, BTreeSet or HashSet, or (up to 300) a Vec of individuals with 5000 / 40000 / 70000 bytes of inline payload (the set kinds merge children with equal keys, so a step can shrink the population and the next step must make as many children as the population then has); 1-4 consecutive generation steps per case on one Generation value, each serial or parallel inside a rayon pool of 1/2/3/4/8/16 threads; in a fifth of the small cases the child maker first steps a small generation of its own on some calls (island model: nested steps, serial or parallel, whose children must draw fresh words too); the child maker is a probe that records the address and a hash of the population it is shown, draws one word from the generator it is handed, yields/sleeps according to a generated delay script and fails at generated call positions. Oracle after Ok: the new population consists of exactly population-size children produced from the previous population - those made in this round plus, at most, children left over from failed attempts since the population last changed - in order of production for serial steps (key set for the merging kinds), and has the same size unless it merges, every call saw the old population, all drawn words pairwise distinct within and across rounds; after Err: the error is one the probe raised and the population is unchanged. non-trivial = size >= 2 and (a failing child or >= 2 threads); distinct by JSON encoding".into();
    ctx.assumptions.push("interleavings are perturbed (pool size x delay script), not enumerated: rayon's scheduler is not under the harness's control".into());
    let n = ctx.tier.pick(12_000u32, 400_000);
    let saved = ctx.threads;
    ctx.threads = saved.min(8); // the rayon pools need cores of their own
    ctx.run_prop("generation_steps", n, strategy, oracle);
    ctx.threads = saved;
}

pub fn replay(ctx: &mut Ctx, sub: &str, case: &Value) {
    ctx.replay_case::<Case, _>(sub, case, oracle);
}
