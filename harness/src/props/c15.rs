//! C15 — scores, errors and individuals are ordered and aggregated consistently.

use std::cell::RefCell;
use std::cmp::Ordering;

use ec_core::distributions::collection::ConvertToCollectionGenerator;
use ec_core::individual::ec::{EcIndividual, IndividualGenerator, WithScorer};
use ec_core::individual::scorer::{FnScorer, Scorer};
use ec_core::operator::genome_scorer::GenomeScorer;
use ec_core::operator::Operator;
use ec_core::test_results::{Error as ErrRes, Score, TestResult, TestResults};
use proptest::prelude::*;
use rand::distr::{Distribution, StandardUniform};
use serde::{Deserialize, Serialize};
use serde_json::Value;

use crate::props::c14::ProbeFail;
use crate::rngs::Counting;
use crate::{ensure, Ctx, Fail, Probe};

pub const EDGES: [i64; 7] = [i64::MIN, i64::MIN + 1, -1, 0, 1, i64::MAX - 1, i64::MAX];

#[derive(Clone, Debug, Serialize, Deserialize)]
pub enum Case {
    Triple(i64, i64, i64),
    Results {
        a: Vec<i64>,
        b: Vec<i64>,
        errors: bool,
        genome_a: u32,
        genome_b: u32,
        /// how the two collections are built from their values, see `build_results`
        #[serde(default)]
        source: u8,
    },
    Generator {
        seed: u64,
        len: usize,
        fail: bool,
    },
    /// result types other than i64: f64 (sums exactly representable, and general values with a rounding
    /// tolerance), i32 and u64
    OtherTypes {
        /// multiples of 1/1024 below 2^30 in magnitude: every partial sum in any order is exact in f64
        exact: Vec<i32>,
        /// general finite values (bit patterns are sanitised into |x| < 1e12)
        general: Vec<u64>,
        errors: bool,
        source: u8,
    },
}

fn rev(o: Ordering) -> Ordering {
    o.reverse()
}

/// all comparison surfaces of a totally ordered type agree with `expect`
fn check_total<T: Ord + Copy + std::fmt::Debug>(name: &str, x: T, y: T, expect: Ordering) -> Result<(), Fail> {
    ensure!(x.cmp(&y) == expect, format!("{name}/cmp"), "{x:?}.cmp({y:?}) = {:?}, expected {expect:?}", x.cmp(&y));
    ensure!(
        x.partial_cmp(&y) == Some(expect),
        format!("{name}/partial_cmp"),
        "{x:?}.partial_cmp({y:?}) = {:?}, expected Some({expect:?})",
        x.partial_cmp(&y)
    );
    let ops = (x < y, x <= y, x > y, x >= y, x == y, x != y);
    let want = (
        expect == Ordering::Less,
        expect != Ordering::Greater,
        expect == Ordering::Greater,
        expect != Ordering::Less,
        expect == Ordering::Equal,
        expect != Ordering::Equal,
    );
    ensure!(ops == want, format!("{name}/operators"), "operators (<,<=,>,>=,==,!=) on {x:?},{y:?} = {ops:?}, expected {want:?}");
    let (mx, mn) = (x.max(y), x.min(y));
    match expect {
        Ordering::Less => ensure!(mx == y && mn == x, format!("{name}/max-min"), "max/min of {x:?},{y:?} = {mx:?}/{mn:?}"),
        Ordering::Greater => ensure!(mx == x && mn == y, format!("{name}/max-min"), "max/min of {x:?},{y:?} = {mx:?}/{mn:?}"),
        Ordering::Equal => ensure!(mx == x && mn == x, format!("{name}/max-min"), "max/min of equal {x:?} = {mx:?}/{mn:?}"),
    }
    Ok(())
}

fn triple(a: i64, b: i64, c: i64) -> Result<(), Fail> {
    for (x, y) in [(a, b), (b, c), (a, c), (b, a), (a, a)] {
        check_total("Score", Score(x), Score(y), x.cmp(&y))?;
        check_total("Error", ErrRes(x), ErrRes(y), rev(x.cmp(&y)))?;
        // TestResult: same variant follows the inner order
        let (sx, sy): (TestResult<i64, i64>, TestResult<i64, i64>) = (TestResult::Score(Score(x)), TestResult::Score(Score(y)));
        ensure!(sx.partial_cmp(&sy) == Some(x.cmp(&y)), "TestResult/score-order", "{sx:?} vs {sy:?}: {:?}", sx.partial_cmp(&sy));
        let (ex, ey): (TestResult<i64, i64>, TestResult<i64, i64>) = (TestResult::Error(ErrRes(x)), TestResult::Error(ErrRes(y)));
        ensure!(ex.partial_cmp(&ey) == Some(rev(x.cmp(&y))), "TestResult/error-order", "{ex:?} vs {ey:?}: {:?}", ex.partial_cmp(&ey));
        // a score is never comparable to an error
        for (p, q) in [(sx, ey), (ex, sy)] {
            ensure!(p.partial_cmp(&q).is_none(), "TestResult/score-error-comparable", "{p:?}.partial_cmp({q:?}) = {:?}", p.partial_cmp(&q));
            ensure!(
                !(p < q) && !(p <= q) && !(p > q) && !(p >= q) && p != q,
                "TestResult/score-error-operators",
                "an operator relates {p:?} and {q:?}"
            );
        }
        // an individual compares exactly as its result does - also where results are only partially ordered
        for (p, q) in [(sx, sy), (ex, ey), (sx, ey), (ex, sy)] {
            let (ip, iq) = (EcIndividual::new(1u8, p), EcIndividual::new(2u8, q));
            ensure!(
                ip.partial_cmp(&iq) == p.partial_cmp(&q) && (ip < iq, ip <= iq, ip > iq, ip >= iq) == (p < q, p <= q, p > q, p >= q),
                "EcIndividual/partially-ordered-results",
                "individuals with results {p:?} / {q:?}: partial_cmp {:?}, operators (<,<=,>,>=) {:?}; the results themselves: {:?}, {:?}",
                ip.partial_cmp(&iq),
                (ip < iq, ip <= iq, ip > iq, ip >= iq),
                p.partial_cmp(&q),
                (p < q, p <= q, p > q, p >= q)
            );
        }
        // ... and with float results, where NaN is incomparable
        for (fx, fy) in [(x as f64, y as f64), (f64::NAN, y as f64), (x as f64, f64::NAN), (f64::NAN, f64::NAN)] {
            let (p, q) = (Score(fx), Score(fy));
            let (ip, iq) = (EcIndividual::new(1u8, p), EcIndividual::new(2u8, q));
            ensure!(
                ip.partial_cmp(&iq) == p.partial_cmp(&q) && (ip < iq, ip <= iq, ip > iq, ip >= iq) == (p < q, p <= q, p > q, p >= q),
                "EcIndividual/partially-ordered-results",
                "individuals with float scores {fx} / {fy}: partial_cmp {:?}, operators {:?}; the scores themselves: {:?}, {:?}",
                ip.partial_cmp(&iq),
                (ip < iq, ip <= iq, ip > iq, ip >= iq),
                p.partial_cmp(&q),
                (p < q, p <= q, p > q, p >= q)
            );
            let (p, q) = (ErrRes(fx), ErrRes(fy));
            let (ip, iq) = (EcIndividual::new(1u8, p), EcIndividual::new(2u8, q));
            ensure!(
                ip.partial_cmp(&iq) == p.partial_cmp(&q) && (ip < iq, ip <= iq, ip > iq, ip >= iq) == (p < q, p <= q, p > q, p >= q),
                "EcIndividual/partially-ordered-results",
                "individuals with float errors {fx} / {fy}: partial_cmp {:?}, operators {:?}; the errors themselves: {:?}, {:?}",
                ip.partial_cmp(&iq),
                (ip < iq, ip <= iq, ip > iq, ip >= iq),
                p.partial_cmp(&q),
                (p < q, p <= q, p > q, p >= q)
            );
            // Error reverses the order of its values, NaN stays incomparable
            ensure!(p.partial_cmp(&q) == fy.partial_cmp(&fx), "Error/float-order", "Error({fx}).partial_cmp(Error({fy})) = {:?}", p.partial_cmp(&q));
            ensure!(Score(fx).partial_cmp(&Score(fy)) == fx.partial_cmp(&fy), "Score/float-order", "Score({fx}).partial_cmp(Score({fy})) = {:?}", Score(fx).partial_cmp(&Score(fy)));
        }
    }
    // collections of float results (and individuals holding them) compare exactly as their totals do: two
    // objects, an object and its clone, and an object with *itself* (a NaN total is not even equal to itself)
    for vals in [vec![a as f64, b as f64], vec![f64::NAN, b as f64], vec![a as f64, f64::NAN, 1.0], vec![], vec![c as f64]] {
        macro_rules! self_and_clone {
            ($mk:expr, $name:literal) => {{
                let mk = $mk;
                let t = TestResults { results: vals.iter().copied().map(&mk).collect::<Vec<_>>(), total_result: mk(vals.iter().sum::<f64>()) };
                let u = TestResults { results: vec![mk(b as f64)], total_result: mk(b as f64) };
                let tc = t.clone();
                for (what, p, q) in [("another collection", &t, &u), ("its clone", &t, &tc), ("itself", &t, &t)] {
                    let want = (p.total_result.partial_cmp(&q.total_result), p.total_result < q.total_result, p.total_result <= q.total_result, p.total_result > q.total_result, p.total_result >= q.total_result);
                    let got = (p.partial_cmp(q), p < q, p <= q, p > q, p >= q);
                    ensure!(
                        got == want,
                        concat!("TestResults<", $name, "<f64>>/not-as-totals"),
                        "a collection with total {:?} compared with {what} (total {:?}): (partial_cmp, <, <=, >, >=) = {got:?}, the totals give {want:?}",
                        p.total_result,
                        q.total_result
                    );
                }
                let (it, iu) = (EcIndividual::new(1u8, t.clone()), EcIndividual::new(2u8, u.clone()));
                let itc = it.clone();
                for (what, p, q) in [("another individual", &it, &iu), ("its clone", &it, &itc), ("itself", &it, &it)] {
                    let (tp, tq) = (&p.test_results.total_result, &q.test_results.total_result);
                    let want = (tp.partial_cmp(tq), tp < tq, tp <= tq, tp > tq, tp >= tq);
                    let got = (p.partial_cmp(q), p < q, p <= q, p > q, p >= q);
                    ensure!(
                        got == want,
                        "EcIndividual/partially-ordered-results",
                        "an individual whose results total {tp:?} compared with {what} (total {tq:?}): (partial_cmp, <, <=, >, >=) = {got:?}, the totals give {want:?}"
                    );
                }
            }};
        }
        self_and_clone!(Score::<f64>, "Score");
        self_and_clone!(ErrRes::<f64>, "Error");
    }
    // transitivity / antisymmetry on the triple, both polarities
    let s = [Score(a), Score(b), Score(c)];
    let e = [ErrRes(a), ErrRes(b), ErrRes(c)];
    for i in 0..3 {
        for j in 0..3 {
            ensure!(s[i].cmp(&s[j]) == rev(s[j].cmp(&s[i])), "Score/antisymmetry", "{:?} {:?}", s[i], s[j]);
            ensure!(e[i].cmp(&e[j]) == rev(e[j].cmp(&e[i])), "Error/antisymmetry", "{:?} {:?}", e[i], e[j]);
            for k in 0..3 {
                if s[i] <= s[j] && s[j] <= s[k] {
                    ensure!(s[i] <= s[k], "Score/transitivity", "{:?} {:?} {:?}", s[i], s[j], s[k]);
                }
                if e[i] <= e[j] && e[j] <= e[k] {
                    ensure!(e[i] <= e[k], "Error/transitivity", "{:?} {:?} {:?}", e[i], e[j], e[k]);
                }
            }
        }
    }
    Ok(())
}

pub const SOURCES: u8 = 12;

/// The ways a caller can hand per-case values to `TestResults`: exact-size sources, and iterators
/// whose size hint is valid but imprecise (the total must still cover every value).
fn build_results<V, R>(v: &[V], source: u8, mk: &impl Fn(V) -> R) -> (TestResults<R>, &'static str)
where
    V: Copy + 'static,
    R: From<V> + From<R> + for<'x> std::iter::Sum<&'x R> + 'static,
{
    use crate::iters::Hinted;
    let n = v.len();
    match source % SOURCES {
        0 => (v.iter().copied().collect(), "collect() of a slice iterator"),
        1 => (TestResults::from(v.to_vec()), "from(Vec)"),
        2 => (TestResults::from(v.iter().copied().filter(|_| true)), "from(filter(..)): hint (0, Some(n))"),
        3 => (v.iter().copied().flat_map(std::iter::once).collect(), "collect() of flat_map(once)"),
        4 => {
            let mut it = v.to_vec().into_iter();
            (std::iter::from_fn(move || it.next()).collect(), "collect() of from_fn: hint (0, None)")
        }
        5 => (v[..n / 2].iter().copied().chain(v[n / 2..].iter().copied().filter(|_| true)).collect(), "collect() of exact.chain(filter): hint (n/2, Some(n))"),
        6 => (Hinted(v.to_vec().into_iter(), 1, 0).collect(), "collect() with hint (n/2, None)"),
        7 => (Hinted(v.to_vec().into_iter(), 0, 3).collect(), "collect() with hint (0, Some(n+4))"),
        8 => (TestResults::from(Hinted(v.to_vec().into_iter(), 1, 5)), "from(..) with hint (n/2, Some(2n))"),
        9 => (v.iter().copied().take_while(|_| true).collect(), "collect() of take_while"),
        10 => (v.iter().map(|x| mk(*x)).collect(), "collect() of already typed results"),
        _ => (v.iter().copied().skip_while(|_| false).step_by(1).collect(), "collect() of skip_while.step_by(1)"),
    }
}

fn results_case<R>(name: &str, a: &[i64], b: &[i64], ga: u32, gb: u32, source: u8, mk: impl Fn(i64) -> R, expect: impl Fn(i128, i128) -> Ordering) -> Result<(), Fail>
where
    R: Ord + Copy + std::fmt::Debug + From<i64> + From<R> + for<'x> std::iter::Sum<&'x R> + std::iter::Sum<R> + 'static,
{
    let (sa, sb): (i128, i128) = (a.iter().map(|v| i128::from(*v)).sum(), b.iter().map(|v| i128::from(*v)).sum());
    let (ta, how_a) = build_results::<i64, R>(a, source, &mk);
    let (tb, how_b) = build_results::<i64, R>(b, source / SOURCES, &mk);
    for (t, v, s, how) in [(&ta, a, sa, how_a), (&tb, b, sb, how_b)] {
        ensure!(
            t.results.len() == v.len() && t.results.iter().zip(v).all(|(r, x)| *r == mk(*x)),
            format!("{name}/results-order"),
            "built by {how}: results {:?} are not the given values {v:?} in order",
            t.results
        );
        ensure!(
            t.total_result == mk(s as i64),
            format!("{name}/total-not-sum"),
            "built by {how}: total {:?} of {v:?}, the sum is {s}",
            t.total_result
        );
        ensure!(t.len() == v.len() && t.is_empty() == v.is_empty(), format!("{name}/len"), "len()/is_empty() of {v:?}");
    }
    // every way of summing per-case results gives the same total (Sum<T>, Sum<Self>, Sum<&Self>)
    {
        let by_value: R = a.iter().map(|v| mk(*v)).sum();
        let by_ref: R = ta.results.iter().sum();
        ensure!(
            by_value == mk(sa as i64) && by_ref == mk(sa as i64),
            format!("{name}/sum-flavours-disagree"),
            "summing {a:?}: by value {by_value:?}, by reference {by_ref:?}, expected {sa}"
        );
    }
    let want = expect(sa, sb);
    ensure!(ta.cmp(&tb) == want, format!("{name}/cmp-not-by-total"), "{a:?} (total {sa}) vs {b:?} (total {sb}): cmp = {:?}, expected {want:?}", ta.cmp(&tb));
    ensure!(ta.partial_cmp(&tb) == Some(want), format!("{name}/partial_cmp-not-by-total"), "{a:?} vs {b:?}: partial_cmp = {:?}", ta.partial_cmp(&tb));
    ensure!(
        (ta < tb, ta <= tb, ta > tb, ta >= tb) == (want == Ordering::Less, want != Ordering::Greater, want == Ordering::Greater, want != Ordering::Less),
        format!("{name}/operators"),
        "operators on totals {sa} / {sb} disagree with {want:?}"
    );
    // individuals compare exactly as their results do, irrespective of genome
    let (ia, ib) = (EcIndividual::new(ga, ta.clone()), EcIndividual::new(gb, tb.clone()));
    ensure!(ia.cmp(&ib) == want, "EcIndividual/cmp-not-by-results", "individuals with genomes {ga}/{gb} and totals {sa}/{sb}: cmp = {:?}, expected {want:?}", ia.cmp(&ib));
    ensure!(ia.partial_cmp(&ib) == Some(want), "EcIndividual/partial_cmp-not-by-results", "partial_cmp = {:?}", ia.partial_cmp(&ib));
    ensure!(
        (ia < ib, ia > ib) == (want == Ordering::Less, want == Ordering::Greater),
        "EcIndividual/operators",
        "operators on individuals disagree with {want:?}"
    );
    ensure!(std::cmp::max(&ia, &ib).test_results.cmp(&std::cmp::min(&ia, &ib).test_results) != Ordering::Less, "EcIndividual/max-min", "max < min");
    // copies: clone() and clone_from() (into a target that already holds other results, of any length) give
    // collections and individuals whose results and total are the source's
    for (src, other, s_src) in [(&ta, &tb, sa), (&tb, &ta, sb)] {
        let cloned = src.clone();
        let mut into = other.clone();
        into.clone_from(src);
        let mut into_spacious = other.clone();
        into_spacious.results.reserve(src.results.len() + 8);
        into_spacious.clone_from(src);
        for (how, copy) in [("clone()", &cloned), ("clone_from() into another collection", &into), ("clone_from() into a collection with spare capacity", &into_spacious)] {
            ensure!(
                copy.results == src.results && copy.total_result == mk(s_src as i64),
                format!("{name}/copy-differs"),
                "{how}: results {:?} with total {:?}; the source has {:?} with total {s_src}",
                copy.results,
                copy.total_result,
                src.results
            );
        }
        let mut ind = EcIndividual::new(gb, other.clone());
        ind.clone_from(&EcIndividual::new(ga, src.clone()));
        ensure!(
            ind.genome == ga && ind.test_results.results == src.results && ind.test_results.total_result == mk(s_src as i64),
            "EcIndividual/copy-differs",
            "clone_from(): the individual carries genome {} and total {:?}; the source has genome {ga} and total {s_src}",
            ind.genome,
            ind.test_results.total_result
        );
        let mut pop = vec![EcIndividual::new(gb, other.clone()), EcIndividual::new(gb, other.clone())];
        pop.clone_from(&vec![EcIndividual::new(ga, src.clone())]);
        ensure!(
            pop.len() == 1 && pop[0].test_results.total_result == mk(s_src as i64) && pop[0].test_results.results == src.results,
            "EcIndividual/copy-differs",
            "Vec::clone_from() of a population: total {:?}, the source has {s_src}",
            pop.first().map(|i| i.test_results.total_result)
        );
    }
    Ok(())
}

fn sanitise(bits: u64) -> f64 {
    let x = f64::from_bits(bits);
    if x.is_finite() && x.abs() < 1e12 {
        x
    } else {
        // fold anything else into a finite value of moderate size, keeping the sign bit
        let m = (bits >> 12) as f64 / (1u64 << 40) as f64;
        if bits >> 63 == 1 { -m } else { m }
    }
}

fn other_types_case(exact: &[i32], general: &[u64], errors: bool, source: u8) -> Result<(), Fail> {
    // ---- f64, exactly representable sums: equality is exact whatever the summation order
    let xs: Vec<f64> = exact.iter().map(|v| f64::from(*v) / 1024.0).collect();
    let want_total = exact.iter().map(|v| i64::from(*v)).sum::<i64>() as f64 / 1024.0;
    macro_rules! float_case {
        ($name:literal, $ctor:expr, $inner:expr, $flip:expr) => {{
            let (t, how) = build_results::<f64, _>(&xs, source, &$ctor);
            ensure!(
                t.results.len() == xs.len() && t.results.iter().zip(&xs).all(|(r, x)| $inner(r).to_bits() == x.to_bits()),
                concat!($name, "/results-order"),
                "built by {how}: results are not the given values {xs:?} in order"
            );
            ensure!(
                $inner(&t.total_result) == want_total,
                concat!($name, "/total-not-sum"),
                "built by {how}: total {:?} of {} exactly summable values, the sum is {want_total}",
                t.total_result,
                xs.len()
            );
            ensure!(t.len() == xs.len() && t.is_empty() == xs.is_empty(), concat!($name, "/len"), "len()/is_empty()");
            // general values: any summation order is a sum; the total must lie within the rounding bound
            let gs: Vec<f64> = general.iter().map(|b| sanitise(*b)).collect();
            let (g, how) = build_results::<f64, _>(&gs, source / SOURCES, &$ctor);
            // reference: Neumaier-compensated sum (error far below the tolerance)
            let (mut sum, mut comp, mut abs) = (0.0f64, 0.0f64, 0.0f64);
            for x in &gs {
                let t = sum + x;
                comp += if sum.abs() >= x.abs() { (sum - t) + x } else { (x - t) + sum };
                sum = t;
                abs += x.abs();
            }
            let reference = sum + comp;
            let tol = (gs.len() as f64 + 2.0) * f64::EPSILON * abs;
            ensure!(
                ($inner(&g.total_result) - reference).abs() <= tol,
                concat!($name, "/total-not-sum"),
                "built by {how}: total {:?} of {} values, the sum is {reference} (tolerance {tol:e} = (n+2) eps sum|x|)",
                g.total_result,
                gs.len()
            );
            ensure!(g.results.len() == gs.len() && g.results.iter().zip(&gs).all(|(r, x)| $inner(r).to_bits() == x.to_bits()), concat!($name, "/results-order"), "built by {how}: results are not the given values in order");
            // ordering of two collections = ordering of their totals (reversed for errors)
            let want = if $flip { $inner(&g.total_result).partial_cmp(&$inner(&t.total_result)) } else { $inner(&t.total_result).partial_cmp(&$inner(&g.total_result)) };
            ensure!(t.partial_cmp(&g) == want, concat!($name, "/partial_cmp-not-by-total"), "totals {:?} / {:?}: partial_cmp = {:?}, expected {want:?}", t.total_result, g.total_result, t.partial_cmp(&g));
        }};
    }
    if errors {
        float_case!("TestResults<Error<f64>>", ErrRes::<f64>, |r: &ErrRes<f64>| r.0, true);
    } else {
        float_case!("TestResults<Score<f64>>", Score::<f64>, |r: &Score<f64>| r.0, false);
    }
    // ---- narrower / unsigned integer types (values scaled so that the sums fit)
    let small: Vec<i32> = exact.iter().map(|v| v % 1000).collect();
    let (t, how) = build_results::<i32, Score<i32>>(&small, source, &Score::<i32>);
    ensure!(t.results.iter().map(|r| r.0).eq(small.iter().copied()) && t.total_result == Score(small.iter().sum::<i32>()), "TestResults<Score<i32>>/total-not-sum", "built by {how}: {:?} from {small:?}", t.total_result);
    let unsigned: Vec<u64> = general.iter().map(|b| b >> 12).collect();
    let (t, how) = build_results::<u64, ErrRes<u64>>(&unsigned, source / SOURCES, &ErrRes::<u64>);
    ensure!(t.results.iter().map(|r| r.0).eq(unsigned.iter().copied()) && t.total_result == ErrRes(unsigned.iter().sum::<u64>()), "TestResults<Error<u64>>/total-not-sum", "built by {how}: {:?} from {unsigned:?}", t.total_result);
    Ok(())
}

struct RecScorer {
    seen: RefCell<Vec<Vec<bool>>>,
}
impl Scorer<Vec<bool>> for RecScorer {
    type Score = TestResults<Score<i64>>;
    fn score(&self, g: &Vec<bool>) -> Self::Score {
        self.seen.borrow_mut().push(g.clone());
        g.iter().map(|b| i64::from(*b)).collect()
    }
}

struct GenomeMaker {
    len: usize,
    /// bit i set: the i-th application fails (after drawing its genome)
    fail_mask: u8,
    calls: std::cell::Cell<u32>,
}
impl ec_core::operator::Composable for GenomeMaker {}
impl<'a> Operator<&'a Vec<u8>> for GenomeMaker {
    type Output = Vec<bool>;
    type Error = ProbeFail;
    fn apply<R: rand::Rng + ?Sized>(&self, _pop: &'a Vec<u8>, rng: &mut R) -> Result<Vec<bool>, ProbeFail> {
        let g: Vec<bool> = StandardUniform.to_collection_generator(self.len).sample(rng);
        let n = self.calls.get();
        self.calls.set(n + 1);
        if n < 8 && self.fail_mask >> n & 1 == 1 {
            Err(ProbeFail(7))
        } else {
            Ok(g)
        }
    }
}

fn generator_case(seed: u64, len: usize, fail: bool) -> Result<(), Fail> {
    let base = Counting::new(seed);
    // what the genome source produces from this generator state
    let mut r0 = base.clone();
    let expected: Vec<bool> = StandardUniform.to_collection_generator(len).sample(&mut r0);
    let want_results: TestResults<Score<i64>> = expected.iter().map(|b| i64::from(*b)).collect();
    // IndividualGenerator
    let scorer = RecScorer { seen: RefCell::new(vec![]) };
    let gen: IndividualGenerator<_, _> = StandardUniform.to_collection_generator(len).with_scorer(&scorer);
    let mut r1 = base.clone();
    let ind: EcIndividual<Vec<bool>, TestResults<Score<i64>>> = gen.sample(&mut r1);
    ensure!(ind.genome == expected, "IndividualGenerator/genome", "individual carries {:?}, the genome source produced {expected:?}", ind.genome);
    ensure!(ind.test_results == want_results, "IndividualGenerator/result", "individual carries {:?}, the scorer returns {want_results:?} for its genome", ind.test_results);
    {
        let seen = scorer.seen.borrow();
        ensure!(seen.len() == 1 && seen[0] == expected, "IndividualGenerator/scorer-calls", "scorer called {} times with {:?}", seen.len(), *seen);
    }
    ensure!(r1.fingerprint() == r0.clone().fingerprint(), "IndividualGenerator/randomness", "scoring consumed randomness or the genome was sampled twice");
    // with_scorer_fn flavour
    let gen2 = StandardUniform.to_collection_generator(len).with_scorer_fn(|g: &Vec<bool>| g.len() as u64 + g.iter().filter(|b| **b).count() as u64);
    let mut r2 = base.clone();
    let ind2: EcIndividual<Vec<bool>, u64> = gen2.sample(&mut r2);
    ensure!(
        ind2.genome == expected && ind2.test_results == len as u64 + expected.iter().filter(|b| **b).count() as u64,
        "IndividualGenerator/fn-scorer",
        "with_scorer_fn: {ind2:?} for source genome {expected:?}"
    );
    // GenomeScorer
    let scorer = RecScorer { seen: RefCell::new(vec![]) };
    // a failing maker fails always, or only on its first application(s)
    let fail_mask: u8 = if !fail { 0 } else if seed % 2 == 0 { 0xFF } else { [0b001, 0b011, 0b101][(seed / 2 % 3) as usize] };
    let gs = GenomeScorer::new(GenomeMaker { len, fail_mask, calls: std::cell::Cell::new(0) }, &scorer);
    let pop: Vec<u8> = vec![1, 2, 3];
    let mut r3 = base.clone();
    let out = gs.apply(&pop, &mut r3);
    if fail && fail_mask == 0xFF {
        ensure!(out.is_err(), "GenomeScorer/failure-swallowed", "the genome maker failed but GenomeScorer returned an individual");
        ensure!(scorer.seen.borrow().is_empty(), "GenomeScorer/scored-after-failure", "the scorer ran although the genome maker failed");
    } else if fail {
        // the maker fails on its first application and would succeed later: whether the failure is reported (it is)
        // is C14's business; here: an individual that does come back carries the result of *its* genome
        if let Ok(ind) = out {
            let own: TestResults<Score<i64>> = ind.genome.iter().map(|b| i64::from(*b)).collect();
            ensure!(
                ind.test_results == own && scorer.seen.borrow().last() == Some(&ind.genome),
                "GenomeScorer/result-not-for-its-genome",
                "after a failed first attempt of the genome maker the individual carries genome {:?} with results {:?}; the scorer was shown {:?}",
                ind.genome,
                ind.test_results,
                scorer.seen.borrow()
            );
        }
    } else {
        let Ok(ind) = out else {
            return Err(Fail::new("GenomeScorer/spurious-error", "GenomeScorer failed although the genome maker succeeded"));
        };
        ensure!(ind.genome == expected, "GenomeScorer/genome", "individual carries {:?}, the genome maker produced {expected:?}", ind.genome);
        ensure!(ind.test_results == want_results, "GenomeScorer/result", "individual carries {:?}, expected {want_results:?}", ind.test_results);
        let seen = scorer.seen.borrow();
        ensure!(seen.len() == 1 && seen[0] == expected, "GenomeScorer/scorer-calls", "scorer called {} times", seen.len());
    }
    let _ = FnScorer(|_: &u8| 0u8);
    Ok(())
}

pub fn oracle(c: &Case, probe: &mut Probe) -> Result<(), Fail> {
    match c {
        Case::Triple(a, b, cc) => {
            triple(*a, *b, *cc)?;
            probe.nontrivial = a != b || b != cc;
        }
        Case::Results {
            a,
            b,
            errors,
            genome_a,
            genome_b,
            source,
        } => {
            if *errors {
                results_case("TestResults<Error>", a, b, *genome_a, *genome_b, *source, ErrRes, |x, y| y.cmp(&x))?;
            } else {
                results_case("TestResults<Score>", a, b, *genome_a, *genome_b, *source, Score, |x, y| x.cmp(&y))?;
            }
            if source % SOURCES >= 2 || (source / SOURCES) % SOURCES >= 2 {
                probe.label("built from an iterator with an imprecise size hint");
            }
            probe.nontrivial = a.len() >= 2 || b.len() >= 2;
            if a.is_empty() || b.is_empty() {
                probe.label("empty result vector");
            }
            if a != b && a.iter().map(|v| i128::from(*v)).sum::<i128>() == b.iter().map(|v| i128::from(*v)).sum::<i128>() {
                probe.label("different vectors, equal totals");
            }
        }
        Case::Generator { seed, len, fail } => {
            generator_case(*seed, *len, *fail)?;
            probe.nontrivial = *len >= 2;
        }
        Case::OtherTypes { exact, general, errors, source } => {
            other_types_case(exact, general, *errors, *source)?;
            probe.nontrivial = exact.len() >= 2 || general.len() >= 2;
            probe.label("result types f64 / i32 / u64");
        }
    }
    Ok(())
}

pub fn strategy() -> BoxedStrategy<Case> {
    let val = || prop_oneof![3 => proptest::sample::select(EDGES.to_vec()), 3 => -5i64..=5, 2 => any::<i64>()];
    // vectors whose i128 sum fits in i64 (values bounded by 2^56, length <= 64)
    let small = || prop_oneof![4 => -4i64..=4, 2 => -(1i64 << 56)..(1i64 << 56), 1 => Just(0i64)];
    let vecs = || {
        prop_oneof![
            4 => prop::collection::vec(small(), 0..=64),
            1 => prop::collection::vec(small(), 0..=3),
            1 => prop::collection::vec(-4i64..=4, 200..=1200),
            // exact multiples of typical block sizes, and their neighbours
            1 => (prop::sample::select(vec![127usize, 128, 129, 255, 256, 257, 511, 512, 1023, 1024, 1025, 2047, 2048, 2049, 3072, 4096, 8192]), -4i64..=4, any::<u64>())
                .prop_map(|(n, base, s)| (0..n).map(|i| base + (crate::splitmix(s ^ i as u64) % 5) as i64 - 2).collect()),
            1 => proptest::sample::select(EDGES.to_vec()).prop_map(|e| vec![e]),
        ]
    };
    prop_oneof![
        3 => (val(), val(), val()).prop_map(|(a, b, c)| Case::Triple(a, b, c)),
        5 => (vecs(), vecs(), any::<bool>(), 0u32..4, 0u32..4, any::<bool>(), 0u8..(SOURCES * SOURCES)).prop_map(|(a, b, errors, genome_a, genome_b, permute, source)| {
            // often compare a vector with a permutation / same-total rearrangement of itself
            let b = if permute && a.len() >= 2 { let mut p = a.clone(); p.rotate_left(1); p } else { b };
            Case::Results { a, b, errors, genome_a, genome_b, source }
        }),
        2 => (any::<u64>(), 0usize..40, prop::bool::weighted(0.2)).prop_map(|(seed, len, fail)| Case::Generator { seed, len, fail }),
        2 => (
            prop_oneof![6 => prop::collection::vec(-(1i32 << 30)..(1i32 << 30), 0..40), 1 => prop::collection::vec(-(1i32 << 30)..(1i32 << 30), 100..400)],
            prop_oneof![6 => prop::collection::vec(any::<u64>(), 0..40), 1 => prop::collection::vec(any::<u64>(), 100..400)],
            any::<bool>(),
            0u8..(SOURCES * SOURCES)
        )
            .prop_map(|(exact, general, errors, source)| Case::OtherTypes { exact, general, errors, source }),
    ]
    .boxed()
}

pub fn run(ctx: &mut Ctx) {
    ctx.rule = "exhaustive: all 343 triples over {MIN, MIN+1, -1, 0, 1, MAX-1, MAX}; generated: value triples, pairs of result vectors (length 0..64, occasionally 200..1200 or exactly 127..8192 at and around powers of two, sums fit i64; incl. rotations with equal totals) in both polarities, each built through one of 12 sources (slice / Vec / typed results, and iterators with valid but imprecise size hints: filter, flat_map, from_fn, chain, take_while, custom hints) wrapped into individuals with different genomes, result collections over f64 (exactly summable values: exact equality; general values: within the rounding bound (n+2) eps sum|x| of the sum, so that any summation order is accepted), i32 and u64, and IndividualGenerator / GenomeScorer runs with a recording scorer against the genome source run from an equal generator state. non-trivial = triples with >= 2 distinct values, vectors of length >= 2, genomes of length >= 2; distinct by JSON encoding".into();
    ctx.assumptions.push("TestResults == (derived, structural) is not required to agree with its cmp; result vectors are generated so that their sum fits in i64".into());
    ctx.exhaustive = Some(true);
    ctx.extra.insert("exhaustive_scope".into(), serde_json::json!("all ordered triples over the 7 extreme values (343); the generated sub-check is not exhaustive"));
    let triples: Vec<Case> = EDGES.iter().flat_map(|a| EDGES.iter().flat_map(move |b| EDGES.iter().map(move |c| Case::Triple(*a, *b, *c)))).collect();
    ctx.run_cases("exhaustive_extreme_triples", triples, oracle);
    let n = ctx.tier.pick(400_000u32, 8_000_000);
    ctx.run_prop("generated", n, strategy, oracle);
    // coverage-guided search over the same strategies and oracles (thorough tier; see ptfuzz.rs)
    crate::ptfuzz::thorough(ctx, &[("c15", 16, 1_000_000)]);
}

pub fn replay(ctx: &mut Ctx, sub: &str, case: &Value) {
    ctx.replay_case::<Case, _>(sub, case, oracle);
}
