//! C02 — a failed instruction leaves the machine state untouched and is skipped.
//!
//! (1) fault points: every instruction in boundary states; the state carried by
//! the error must equal a clone taken before (model-free, inside `vm_oracle`),
//! and the error kind must be the one the semantics prescribe.
//! (2) the complete shape space sizes {0..3}^4 x slack {0,1}^4 per instruction
//! is enumerated (values inside the shapes are pseudo-random).
//! (3) skip semantics on the real loop only: if the next exec element fails
//! recoverably in the state reached under step limit L, the state reached under
//! limit L+1 is that state with exactly this element removed.

use push::error::into_state::IntoState;
use push::instruction::Instruction;
use push::push_vm::program::PushProgram;
use push::push_vm::{HasStack, State};
use serde_json::{json, Value};

use crate::gen_vm::{float_edges, program_case, single_step_case, INT_EDGES, QUICK_SHAPE, THOROUGH_SHAPE};
use crate::model::real::{snap, Tables, VmCase};
use crate::model::vm::{Ins, Lit, Prog, F};
use crate::props::c01::SINGLE;
use crate::vm_oracle::{prog_name, vm_oracle};
use crate::{fail, guarded, panic_key, splitmix, Ctx, Fail, Probe};

pub fn oracle_fault(t: &Tables, c: &VmCase, p: &mut Probe) -> Result<(), Fail> {
    let s = vm_oracle(t, c, &SINGLE, p)?;
    p.nontrivial = s.skips > 0 || s.aborted;
    Ok(())
}

fn snaps_equal(a: &crate::model::real::Snap, b: &crate::model::real::Snap) -> bool {
    let feq = a.float.len() == b.float.len()
        && a.float.iter().zip(&b.float).all(|(x, y)| {
            x == y || (f64::from_bits(*x).is_nan() && f64::from_bits(*y).is_nan())
        });
    a.exec == b.exec && a.int == b.int && feq && a.boolean == b.boolean && a.out == b.out && a.maxes == b.maxes
}

/// model-free skip semantics on the real interpreter loop
pub fn oracle_skip(t: &Tables, c: &VmCase, probe: &mut Probe) -> Result<(), Fail> {
    let cap = c.steps.min(40);
    let mut recoverable_seen = 0;
    for l in 0..cap {
        let start = c.real(t, l).map_err(|e| Fail::new("setup/state-construction", e))?;
        let s_l = match guarded(move || start.run_to_completion()) {
            Err(p) => fail!(format!("run/panic:{}", panic_key(&p)), "limit {l}: {p}"),
            Ok(Err(_)) => break, // overflow abort: nothing further to compare
            Ok(Ok(s)) => s,
        };
        let mut by_hand = s_l.clone();
        let Ok(top) = by_hand.stack_mut::<PushProgram>().pop() else { break };
        let minus_top = by_hand.clone();
        let outcome = guarded(move || top.perform(by_hand));
        let recoverable = match outcome {
            Err(p) => fail!(format!("step/panic:{}", panic_key(&p)), "limit {l}: {p}"),
            Ok(Ok(_)) => false,
            Ok(Err(e)) if e.is_recoverable() => true,
            Ok(Err(e)) => {
                // a fatal failure (destination full): the interpreter hands back, with its error, the state the
                // failing instruction was given - everything else that was still to run included
                let given_back = e.into_state();
                let next = c.real(t, l + 1).map_err(|e| Fail::new("setup/state-construction", e))?;
                match guarded(move || next.run_to_completion()) {
                    Err(p) => fail!(format!("run/panic:{}", panic_key(&p)), "limit {}: {p}", l + 1),
                    Ok(Ok(s)) => fail!(
                        "run/fatal-error-swallowed",
                        "the element on top of exec after {l} steps fails fatally when performed, but the run under limit {} returned normally with {s:?}",
                        l + 1
                    ),
                    Ok(Err(fe)) => {
                        let st = fe.into_state();
                        if !snaps_equal(&snap(&st), &snap(&minus_top)) || !snaps_equal(&snap(&given_back), &snap(&minus_top)) {
                            fail!(
                                "run/abort-state-differs-from-state-before-the-instruction",
                                "the element on top of exec after {l} steps fails fatally; the state carried by the error must be the state it was given (the state after {l} steps minus that element).\nstate before the instruction: {:?}\ncarried by perform's error:   {:?}\ncarried by the run's error:   {:?}",
                                snap(&minus_top),
                                snap(&given_back),
                                snap(&st)
                            );
                        }
                        probe.label("fatal failure inside a run: carried state compared");
                    }
                }
                break;
            }
        };
        if !recoverable {
            continue;
        }
        recoverable_seen += 1;
        let next = c.real(t, l + 1).map_err(|e| Fail::new("setup/state-construction", e))?;
        match guarded(move || next.run_to_completion()) {
            Err(p) => fail!(format!("run/panic:{}", panic_key(&p)), "limit {}: {p}", l + 1),
            Ok(Err(fe)) => {
                let st = fe.into_state();
                fail!(
                    "run/recoverable-error-aborts",
                    "under step limit {} evaluation aborted although the instruction at that step fails recoverably; carried state {st:?}",
                    l + 1
                );
            }
            Ok(Ok(s_next)) => {
                if !snaps_equal(&snap(&s_next), &snap(&minus_top)) {
                    fail!(
                        "run/skip-not-a-noop",
                        "the element on top of exec after {l} steps fails recoverably, so after {} steps the state must be the same minus that element.\nafter {l} steps: {s_l:?}\nafter {} steps: {s_next:?}",
                        l + 1,
                        l + 1
                    );
                }
            }
        }
    }
    probe.nontrivial = recoverable_seen > 0;
    if recoverable_seen >= 3 {
        probe.label("programs with >= 3 recoverable failures");
    }
    Ok(())
}

/// "Exactly as if the failed one had been a no-op", for the whole rest of the run: in a flat program, replace an
/// instruction that fails recoverably when it is reached by an explicit `Noop` - both programs must end in the
/// same state under the same step limit.  (The L / L+1 relation above looks one step ahead; this one also
/// notices anything the interpreter remembers about a failure.)
pub fn oracle_noop_substitution(t: &Tables, c: &VmCase, probe: &mut Probe) -> Result<(), Fail> {
    use crate::model::vm::ExecOp;
    let total = c.exec.len() + 4;
    let mut substituted = 0;
    for i in 0..c.exec.len().min(24) {
        // the state in which element i is about to be performed
        let start = c.real(t, i).map_err(|e| Fail::new("setup/state-construction", e))?;
        let Ok(Ok(mut s_i)) = guarded(move || start.run_to_completion()) else { break };
        let Ok(top) = s_i.stack_mut::<PushProgram>().pop() else { break };
        if t.program(&c.exec[i]).as_ref() != Some(&top) {
            break; // the exec stack was rearranged: position i of the program is no longer what runs at step i
        }
        let recoverable = match guarded(move || top.perform(s_i)) {
            Ok(Err(e)) => e.is_recoverable(),
            _ => false,
        };
        if !recoverable {
            continue;
        }
        let mut with_noop = c.clone();
        with_noop.exec[i] = Prog::I(Ins::Exec(ExecOp::Noop));
        let (a, b) = (c.real(t, total).map_err(|e| Fail::new("setup/state-construction", e))?, with_noop.real(t, total).map_err(|e| Fail::new("setup/state-construction", e))?);
        let (ra, rb) = (guarded(move || a.run_to_completion()), guarded(move || b.run_to_completion()));
        match (ra, rb) {
            (Ok(Ok(fa)), Ok(Ok(fb))) => {
                if !snaps_equal(&snap(&fa), &snap(&fb)) {
                    fail!(
                        "run/failed-instruction-not-equivalent-to-noop",
                        "element {i} of the program fails recoverably when it is reached; with it, and with an explicit Noop in its place, the run (limit {total}) must end in the same state.\nwith the failing instruction: {:?}\nwith Noop instead:           {:?}",
                        snap(&fa),
                        snap(&fb)
                    );
                }
                substituted += 1;
            }
            (Err(p), _) | (_, Err(p)) => fail!(format!("run/panic:{}", panic_key(&p)), "limit {total}: {p}"),
            _ => {} // an overflow abort in either: nothing to compare
        }
    }
    probe.nontrivial = substituted > 0;
    if substituted >= 2 {
        probe.label("programs with >= 2 recoverably failing elements replaced in turn");
    }
    Ok(())
}

/// A state one of whose maxima was lowered *below* the number of elements the stack already holds
/// (`set_max_stack_size` on a live state): such a destination stack is full - over-full - and an instruction
/// that would have to add to it cannot be carried out.  Whatever it reports, the state must come back untouched.
#[derive(Clone, Debug, serde::Serialize, serde::Deserialize)]
pub struct LoweredCase {
    pub vm: VmCase,
    /// per stack (exec, int, float, bool): how far below the current size the maximum is set (0 = left alone)
    pub lower: [u8; 4],
}

pub fn oracle_lowered(t: &Tables, c: &LoweredCase, p: &mut Probe) -> Result<(), Fail> {
    use ordered_float::OrderedFloat;
    let mut state = c.vm.real(t, 1).map_err(|e| Fail::new("setup/state-construction", e))?;
    macro_rules! lower {
        ($ty:ty, $k:expr) => {{
            let size = state.stack::<$ty>().size();
            if c.lower[$k] > 0 && size > 0 {
                state.stack_mut::<$ty>().set_max_stack_size(size.saturating_sub(usize::from(c.lower[$k])));
            }
        }};
    }
    lower!(PushProgram, 0);
    lower!(i64, 1);
    lower!(OrderedFloat<f64>, 2);
    lower!(bool, 3);
    let Some(instr) = c.vm.instr.as_ref() else { return Ok(()) };
    let Some(real) = t.program(instr) else { fail!("setup/no-real-instruction", "{instr:?} has no real counterpart") };
    let name = prog_name(instr);
    let before = state.clone();
    match guarded(move || real.perform(state)) {
        Err(panic) => fail!(format!("{name}/panic:{}", panic_key(&panic)), "{name} on a state with maxima lowered below the sizes ({:?}) panicked: {panic}", c.lower),
        Ok(Ok(_)) => {}
        Ok(Err(e)) => {
            let recoverable = e.is_recoverable();
            let after = e.into_state();
            if !crate::model::real::same_state(&after, &before) {
                fail!(
                    format!("{name}/state-changed-by-failing-instruction"),
                    "{name} failed ({}) on a state whose maxima had been lowered below the stack sizes by {:?} (exec, int, float, bool), and the state it handed back differs from the state it was given.\nbefore: {:?}\nafter:  {:?}",
                    if recoverable { "recoverably" } else { "fatally" },
                    c.lower,
                    snap(&before),
                    snap(&after)
                );
            }
            p.nontrivial = true;
            p.label(if recoverable { "failed recoverably, state untouched" } else { "failed fatally, state untouched" });
        }
    }
    Ok(())
}

/// every instruction x sizes {0..3}^4 x one stack (or all four) lowered below its size by 1 or 2
fn lowered_shapes(t: &Tables, seed: u64) -> Vec<LoweredCase> {
    let patterns: [[u8; 4]; 9] = [[1, 0, 0, 0], [0, 1, 0, 0], [0, 0, 1, 0], [0, 0, 0, 1], [2, 0, 0, 0], [0, 2, 0, 0], [0, 0, 2, 0], [0, 0, 0, 2], [1, 1, 1, 1]];
    let mut out = vec![];
    for vm in shapes(t, seed) {
        // the slack bits of the plain shape space select the pattern here (every size combination meets every pattern)
        let slack = [vm.max_exec - vm.exec.len(), vm.max_int - vm.int.len(), vm.max_float - vm.float.len(), vm.max_bool - vm.boolean.len()];
        let code = slack[0] + 2 * slack[1] + 4 * slack[2] + 8 * slack[3];
        if code >= patterns.len() {
            continue;
        }
        out.push(LoweredCase { vm, lower: patterns[code] });
    }
    out
}

/// The complete shape space for one instruction.
fn shapes(t: &Tables, seed: u64) -> impl Iterator<Item = VmCase> + '_ {
    let mut instrs: Vec<Prog> = t.all_ops().into_iter().map(Prog::I).collect();
    instrs.extend([
        Prog::I(Ins::PushInt(7)),
        Prog::I(Ins::PushFloat(F::of(1.5))),
        Prog::I(Ins::PushBool(true)),
        Prog::I(Ins::PushExec(Box::new(Prog::B(vec![])))),
        Prog::I(Ins::Input(0)),
        Prog::I(Ins::Input(1)),
        Prog::I(Ins::Input(2)),
        Prog::I(Ins::PrintSpace),
        Prog::I(Ins::PrintNewline),
        Prog::I(Ins::PrintPeriod),
        Prog::I(Ins::PrintString("xy".into())),
        Prog::B(vec![]),
        Prog::B(vec![Prog::I(Ins::PushInt(1))]),
        Prog::B(vec![Prog::I(Ins::PushInt(1)), Prog::I(Ins::PushBool(false))]),
    ]);
    let fe = float_edges();
    let mut x = seed;
    let mut next = move || {
        x = x.wrapping_add(0x9E37_79B9_7F4A_7C15);
        splitmix(x)
    };
    let mut out = Vec::new();
    for instr in instrs {
        for code in 0u32..(4 * 4 * 4 * 4 * 16) {
            let (ne, ni, nf, nb) = (
                (code & 3) as usize,
                ((code >> 2) & 3) as usize,
                ((code >> 4) & 3) as usize,
                ((code >> 6) & 3) as usize,
            );
            let sl = code >> 8;
            let (se, si, sf, sb) = (
                (sl & 1) as usize,
                ((sl >> 1) & 1) as usize,
                ((sl >> 2) & 1) as usize,
                ((sl >> 3) & 1) as usize,
            );
            let int: Vec<i64> = (0..ni)
                .map(|_| {
                    let r = next();
                    if r % 3 == 0 {
                        (r >> 8) as i64
                    } else {
                        INT_EDGES[(r >> 8) as usize % INT_EDGES.len()]
                    }
                })
                .collect();
            let float: Vec<F> = (0..nf)
                .map(|_| {
                    let r = next();
                    if r % 3 == 0 {
                        F(r)
                    } else {
                        F::of(fe[(r >> 8) as usize % fe.len()])
                    }
                })
                .collect();
            let boolean: Vec<bool> = (0..nb).map(|_| next() & 1 == 1).collect();
            let exec: Vec<Prog> = (0..ne)
                .map(|k| {
                    if next() % 2 == 0 {
                        Prog::I(Ins::PushInt(k as i64))
                    } else {
                        Prog::B(vec![Prog::I(Ins::PushBool(true))])
                    }
                })
                .collect();
            out.push(VmCase {
                instr: Some(instr.clone()),
                max_exec: ne + se,
                max_int: ni + si,
                max_float: nf + sf,
                max_bool: nb + sb,
                exec,
                int,
                float,
                boolean,
                inputs: vec![Lit::Int(3), Lit::Float(F::of(-0.0)), Lit::Bool(true)],
                steps: 1,
            });
        }
    }
    out.into_iter()
}

pub fn run(ctx: &mut Ctx) {
    let t = Tables::build();
    if !t.uncovered.is_empty() {
        ctx.inconclusive.push(format!("instruction variants unknown to the reference semantics: {:?}", t.uncovered));
    }
    ctx.rule = "fault_points: every instruction on boundary-biased generated states; shape_space: for every instruction the complete set of stack shapes (sizes 0..3 on each of the four stacks x slack 0/1 on each, 4096 shapes; values pseudo-random) - exhaustive over shapes; shape_space_lowered_maxima: the same sizes with the maximum of one stack (or of all four) lowered by 1 or 2 below the number of elements it already holds before the instruction is performed (a destination that is over-full); noop_substitution: flat programs in which an instruction that can fail for its values recurs at the same depths - each element that fails recoverably when reached is replaced by an explicit Noop and both programs must end in the same state; skip_semantics: generated programs run under limits L and L+1 around every recoverably failing instruction, and around the first fatally failing one (the state carried by the run's error is the state after L steps minus that instruction). non-trivial = the instruction returned an error (fault/shape checks) or a recoverable failure occurred inside the run (skip check); distinct by JSON encoding".into();
    ctx.assumptions.push("'state before the instruction' is the state handed to perform (the interpreter has already removed the instruction from exec)".into());
    let (n_fault, n_skip, shape) = ctx.tier.pick((300_000u32, 20_000u32, QUICK_SHAPE), (6_000_000, 600_000, THOROUGH_SHAPE));
    ctx.run_prop("fault_points", n_fault, || single_step_case(&Tables::build()), |c, p| {
        thread_local! { static T: Tables = Tables::build(); }
        T.with(|t| oracle_fault(t, c, p))
    });
    let seeds: Vec<u64> = (0..ctx.tier.pick(1u64, 8)).map(|k| splitmix(ctx.seed ^ k)).collect();
    for (k, s) in seeds.iter().enumerate() {
        let name = if k == 0 { "shape_space".to_string() } else { format!("shape_space_{k}") };
        ctx.run_cases(&name, shapes(&t, *s), |c, p| oracle_fault(&t, c, p));
    }
    ctx.run_cases("shape_space_lowered_maxima", lowered_shapes(&t, splitmix(ctx.seed ^ 0x10E)), |c, p| oracle_lowered(&t, c, p));
    ctx.run_prop("skip_semantics", n_skip, || program_case(&Tables::build(), shape), |c, p| {
        thread_local! { static T: Tables = Tables::build(); }
        T.with(|t| oracle_skip(t, c, p))
    });
    ctx.run_prop("skip_semantics_retry", n_skip / 2, || crate::gen_vm::retry_case(&Tables::build()), |c, p| {
        thread_local! { static T: Tables = Tables::build(); }
        T.with(|t| oracle_skip(t, c, p))
    });
    ctx.run_prop("noop_substitution", n_skip, || crate::gen_vm::retry_case(&Tables::build()), |c, p| {
        thread_local! { static T: Tables = Tables::build(); }
        T.with(|t| oracle_noop_substitution(t, c, p))
    });
    ctx.run_prop("skip_semantics_stack_churn", n_skip / 2, || crate::gen_vm::churn_case(&Tables::build()), |c, p| {
        thread_local! { static T: Tables = Tables::build(); }
        T.with(|t| oracle_skip(t, c, p))
    });
    // every failing step inside a program: the state carried by the error equals the state before the step
    // (the lock-step oracle compares them model-free); reached states differ from builder-built ones in
    // whatever the stacks remember of their history
    ctx.run_prop("failing_steps_in_programs", n_skip / 2, || proptest::prop_oneof![crate::gen_vm::churn_case(&Tables::build()), program_case(&Tables::build(), shape)], |c, p| {
        thread_local! { static T: Tables = Tables::build(); }
        T.with(|t| {
            let stats = crate::vm_oracle::vm_oracle(t, c, &crate::vm_oracle::VmOpts { sweep: false, full_sweep_upto: 0, labels: false }, p)?;
            p.nontrivial = stats.effective_steps >= 1;
            Ok(())
        })
    });
    // error classes hit: (instruction, skip|abort)
    let mut missing = vec![];
    let mut hit = 0;
    for op in t.all_ops() {
        let n = prog_name(&Prog::I(op));
        let skip = ctx.label_count("fault_points", &format!("{n}:skip")) + ctx.label_count("shape_space", &format!("{n}:skip"));
        if skip > 0 {
            hit += 1;
        } else if !matches!(n.as_str(), "Exec-Noop" | "Int-C(Flush)" | "Float-C(Flush)" | "Bool-C(Flush)" | "Exec-C(Flush)" | "Int-C(IsEmpty)" | "Float-C(IsEmpty)" | "Bool-C(IsEmpty)" | "Exec-C(IsEmpty)" | "Int-C(StackDepth)" | "Float-C(StackDepth)" | "Bool-C(StackDepth)" | "Exec-C(StackDepth)") {
            missing.push(n);
        }
    }
    ctx.extra.insert("instructions_with_recoverable_failure_exercised".into(), json!(hit));
    ctx.extra.insert("instructions_whose_recoverable_failure_was_never_hit".into(), json!(missing));
    ctx.extra.insert("shape_space_exhaustive_over_shapes".into(), json!(true));
    if ctx.tier == crate::Tier::Thorough && ctx.violations().is_empty() {
        let t = Tables::build();
        for bytes in crate::fuzzrun::campaign(ctx, "vm_diff", 8, 80_000, 768) {
            let c = crate::fuzzdec::decode_vm(&bytes, &t);
            let mut p = Probe::default();
            let opts = crate::vm_oracle::VmOpts { sweep: true, full_sweep_upto: 24, labels: false };
            if let Err(f) = crate::vm_oracle::vm_oracle(&t, &c, &opts, &mut p) {
                ctx.violation("fuzz_vm_diff", &f, serde_json::to_value(&c).unwrap_or(Value::Null));
            }
        }
    }
}

pub fn replay(ctx: &mut Ctx, sub: &str, case: &Value) {
    let t = Tables::build();
    match sub {
        "skip_semantics" | "skip_semantics_retry" | "skip_semantics_stack_churn" => ctx.replay_case::<VmCase, _>(sub, case, |c, p| oracle_skip(&t, c, p)),
        "noop_substitution" => ctx.replay_case::<VmCase, _>(sub, case, |c, p| oracle_noop_substitution(&t, c, p)),
        "shape_space_lowered_maxima" => ctx.replay_case::<LoweredCase, _>(sub, case, |c, p| oracle_lowered(&t, c, p)),
        "fuzz_vm_diff" => ctx.replay_case::<VmCase, _>(sub, case, |c, p| crate::props::c01::oracle_program(&t, c, p, 24)),
        _ => ctx.replay_case::<VmCase, _>(sub, case, |c, p| oracle_fault(&t, c, p)),
    }
}
