//! C06 — selectors return a member of the given population or a documented error.

use ec_core::individual::ec::EcIndividual;
use ec_core::operator::selector::Selector;
use ec_core::test_results::{Error as ErrRes, Score, TestResults};
use proptest::prelude::*;
use serde::{Deserialize, Serialize};
use serde_json::Value;

use crate::rngs::ScriptRng;
use crate::selharness::{build_on, padded, possible, Ind, Kind, Padded, Pop, Res, SelPop, Spec, WSpec};
use crate::{ensure, fail, guarded, panic_key, Ctx, Fail, Probe};

#[derive(Clone, Debug, Serialize, Deserialize)]
pub struct Case {
    /// per individual its per-case results (ragged allowed)
    pub results: Vec<Vec<i64>>,
    /// false: Score (higher better), true: Error (lower better)
    pub errors: bool,
    pub spec: Spec,
    pub script: Vec<u64>,
    /// how many selections to perform with the same selector value
    pub draws: u8,
    /// a second population (usually of another size) that the same selector value is asked to select
    /// from in alternation with the first: whatever a selector remembers between calls must not leak
    #[serde(default)]
    pub second: Option<Vec<Vec<i64>>>,
    /// 0: the populations are plain `Vec`s; k > 0: a user-defined population type whose borrowed iterator is
    /// lazy (no exact size, lower size hint 0), whose `size()` is hand-written and whose slice view is the
    /// live prefix of a larger backing store (k - 1 further individuals lie behind it)
    #[serde(default)]
    pub pop_kind: u8,
}

pub fn population<R: Res + From<i64>>(results: &[Vec<i64>], sum: impl Fn(&[i64]) -> R) -> Pop<R> {
    results
        .iter()
        .enumerate()
        .map(|(id, r)| {
            EcIndividual::new(
                id as u32,
                TestResults {
                    results: r.iter().map(|v| R::from(*v)).collect(),
                    total_result: sum(r),
                },
            )
        })
        .collect()
}

fn check<R: Res + From<i64>, P>(case: &Case, pop: &P, second: Option<&P>, probe: &mut Probe) -> Result<(), Fail>
where
    P: SelPop<R>,
    for<'a> &'a P: IntoIterator<Item = &'a Ind<R>>,
{
    let first_pop = pop;
    let first_lens: Vec<usize> = case.results.iter().map(Vec::len).collect();
    let second_lens: Vec<usize> = case.second.as_ref().map(|s| s.iter().map(Vec::len).collect()).unwrap_or_default();
    let n = pop.as_ref().len();
    let lens = first_lens.clone();
    let selector = match guarded(|| build_on::<R, P>(&case.spec, &mut Vec::new())) {
        Err(p) => fail!(format!("construction/panic:{}", panic_key(&p)), "building {:?} panicked: {p}", case.spec),
        Ok(Err(_overflow)) => {
            probe.label("static weight total overflows u32 (construction rejected; covered by C13)");
            return Ok(());
        }
        Ok(Ok(s)) => s,
    };
    let first_allowed = possible(&case.spec, n, &lens);
    let second_allowed = second.map(|p| possible(&case.spec, p.as_ref().len(), &second_lens));
    let mut rng = ScriptRng::new(&case.script, 0xC06);
    let total_draws = if second.is_some() { case.draws.max(1) * 2 } else { case.draws.max(1) };
    for draw in 0..total_draws {
        // alternate between the two populations when there are two
        let (pop, n, lens, allowed) = match (second, &second_allowed) {
            (Some(p2), Some(a2)) if draw % 2 == 1 => (p2, p2.as_ref().len(), &second_lens, a2),
            _ => (first_pop, first_pop.as_ref().len(), &first_lens, &first_allowed),
        };
        let r = guarded(|| selector.select(pop, &mut rng).map_err(|e| (e.kind(), e.to_string(), format!("{e:?}"))));
        match r {
            Err(p) => fail!(
                format!("select/panic:{}", panic_key(&p)),
                "draw {draw}: selecting with {:?} from a population of {n} panicked: {p}",
                case.spec
            ),
            Ok(Ok(ind)) => {
                ensure!(
                    pop.as_ref().iter().any(|i| std::ptr::eq(i, ind)),
                    "select/not-a-member",
                    "draw {draw}: {:?} returned a reference that is not an element of the population it was given (id {})",
                    case.spec,
                    ind.genome
                );
                ensure!(
                    allowed.ok || allowed.unconstrained,
                    "select/must-fail-but-succeeded",
                    "draw {draw}: {:?} on a population of {n} (result counts {lens:?}) returned individual {} but must report {:?}",
                    case.spec,
                    ind.genome,
                    allowed.errs
                );
            }
            Ok(Err((kind, text, dbg))) => {
                if allowed.unconstrained {
                    probe.label("unconstrained configuration (dynamic weight total exceeds usize): any error accepted");
                    continue;
                }
                ensure!(
                    kind != Kind::Other,
                    "select/undocumented-error",
                    "draw {draw}: {:?} reported an error that is none of the documented kinds: {text} ({dbg})",
                    case.spec
                );
                ensure!(
                    allowed.errs.contains(&kind),
                    format!("select/unjustified-{kind:?}"),
                    "draw {draw}: {:?} on a population of {n} (result counts {lens:?}) reported {kind:?} ({text}); allowed: ok={} errors={:?}",
                    case.spec,
                    allowed.ok,
                    allowed.errs
                );
                probe.label(format!("error {kind:?}"));
            }
        }
    }
    let boundary = n <= 1 || has_boundary(&case.spec, n, lens.iter().copied().min().unwrap_or(0));
    probe.nontrivial = case.spec.depth() >= 2 || boundary || second.is_some();
    if second.is_some() {
        probe.label("one selector value alternating between two populations");
    }
    if case.pop_kind > 0 {
        probe.label("user-defined population type (lazy iterator, hand-written size, padded store)");
    }
    if case.spec.depth() >= 3 {
        probe.label("composite depth >= 3");
    }
    if boundary {
        probe.label("boundary configuration");
    }
    Ok(())
}

fn has_boundary(spec: &Spec, n: usize, m: usize) -> bool {
    match spec {
        Spec::Tournament(k) => *k == n || *k == n + 1,
        Spec::Lexicase(c) => *c == m || *c == m + 1 || *c == 0,
        Spec::Weighted(w) => w.total() == 0 || wb(w, n, m),
        Spec::Dyn(l) | Spec::DynGrown(l) => l.iter().any(|(s, w)| *w == 0 || has_boundary(s, n, m)),
        Spec::Ref(s) | Spec::Erased(s) => has_boundary(s, n, m),
        _ => false,
    }
}
fn wb(w: &WSpec, n: usize, m: usize) -> bool {
    match w {
        WSpec::Leaf(s, weight) => *weight == 0 || has_boundary(s, n, m),
        WSpec::Node(a, b) => wb(a, n, m) || wb(b, n, m),
    }
}

pub fn oracle(case: &Case, probe: &mut Probe) -> Result<(), Fail> {
    let extra = usize::from(case.pop_kind.saturating_sub(1));
    if case.errors {
        let pop = population::<ErrRes<i64>>(&case.results, |r| ErrRes(r.iter().sum()));
        let second = case.second.as_ref().map(|s| population::<ErrRes<i64>>(s, |r| ErrRes(r.iter().sum())));
        if case.pop_kind == 0 {
            check::<ErrRes<i64>, Pop<ErrRes<i64>>>(case, &pop, second.as_ref(), probe)
        } else {
            check::<ErrRes<i64>, Padded<ErrRes<i64>>>(case, &padded(pop, extra), second.map(|s| padded(s, extra)).as_ref(), probe)
        }
    } else {
        let pop = population::<Score<i64>>(&case.results, |r| Score(r.iter().sum()));
        let second = case.second.as_ref().map(|s| population::<Score<i64>>(s, |r| Score(r.iter().sum())));
        if case.pop_kind == 0 {
            check::<Score<i64>, Pop<Score<i64>>>(case, &pop, second.as_ref(), probe)
        } else {
            check::<Score<i64>, Padded<Score<i64>>>(case, &padded(pop, extra), second.map(|s| padded(s, extra)).as_ref(), probe)
        }
    }
}

pub fn spec_strategy(n_hint: usize, m_hint: usize, depth: u32) -> BoxedStrategy<Spec> {
    let k = prop_oneof![
        Just(1usize),
        Just(n_hint.saturating_sub(1).max(1)),
        Just(n_hint.max(1)),
        Just(n_hint + 1),
        1usize..=12,
    ];
    let c = prop_oneof![
        Just(0usize),
        Just(m_hint.saturating_sub(1)),
        Just(m_hint),
        Just(m_hint + 1),
        0usize..=6,
    ];
    let leaf = prop_oneof![
        2 => Just(Spec::Best),
        2 => Just(Spec::Worst),
        2 => Just(Spec::Random),
        3 => k.prop_map(Spec::Tournament),
        3 => c.prop_map(Spec::Lexicase),
    ];
    let weight = || prop_oneof![3 => Just(0u32), 3 => Just(1u32), 2 => 2u32..10, 1 => Just(u32::MAX / 4), 1 => Just(u32::MAX)];
    let dweight = || prop_oneof![6 => Just(0usize), 6 => Just(1usize), 4 => 2usize..10, 2 => Just(1usize << 31), 1 => Just(usize::MAX), 1 => Just(usize::MAX / 2 + 1)];
    leaf.prop_recursive(depth, 24, 4, move |inner| {
        let wleaf = (inner.clone(), weight()).prop_map(|(s, w)| WSpec::Leaf(Box::new(s), w));
        let wtree = wleaf.prop_recursive(3, 8, 2, |w| (w.clone(), w).prop_map(|(a, b)| WSpec::Node(Box::new(a), Box::new(b))));
        prop_oneof![
            4 => wtree.prop_map(Spec::Weighted),
            3 => prop::collection::vec((inner.clone(), dweight()), 1..4).prop_map(Spec::Dyn),
            2 => prop::collection::vec((inner.clone(), dweight()), 2..4).prop_map(Spec::DynGrown),
            1 => inner.clone().prop_map(|s| Spec::Ref(Box::new(s))),
            2 => inner.prop_map(|s| Spec::Erased(Box::new(s))),
        ]
    })
    .boxed()
}

pub fn results_strategy(max_n: usize) -> BoxedStrategy<Vec<Vec<i64>>> {
    (0usize..=max_n, 0usize..=5, any::<u8>())
        .prop_flat_map(|(n, m, mode)| {
            let row = move || {
                let len = match mode % 4 {
                    0 => prop_oneof![Just(m), Just(m.saturating_sub(1)), 0usize..=m].boxed(), // ragged
                    _ => Just(m).boxed(),
                };
                let val = match (mode / 4) % 3 {
                    0 => Just(1i64).boxed(), // all equal
                    1 => (0i64..=3).boxed(),
                    _ => prop_oneof![0i64..=3, any::<i32>().prop_map(i64::from)].boxed(),
                };
                len.prop_flat_map(move |l| prop::collection::vec(val.clone(), l))
            };
            prop::collection::vec(row(), n)
        })
        .prop_map(|mut rows| {
            // duplicate-laden populations: copy a row over another sometimes
            if rows.len() >= 3 && rows[0].len() % 2 == 0 {
                rows[1] = rows[0].clone();
            }
            rows
        })
        .boxed()
}

fn max_n_of(n: usize) -> usize {
    (n + 4).max(6)
}

pub fn strategy(max_n: usize) -> BoxedStrategy<Case> {
    results_strategy(max_n)
        .prop_flat_map(|results| {
            let n = results.len();
            let m = results.iter().map(Vec::len).min().unwrap_or(0);
            (
                Just(results),
                any::<bool>(),
                spec_strategy(n, m, 3),
                crate::rngs::script_strategy(20),
                1u8..4,
                prop_oneof![3 => Just(None), 1 => results_strategy(max_n_of(n)).prop_map(Some)],
                prop_oneof![3 => Just(0u8), 1 => 1u8..5],
            )
        })
        .prop_map(|(results, errors, spec, script, draws, second, pop_kind)| Case {
            results,
            errors,
            spec,
            script,
            draws,
            second,
            pop_kind,
        })
        .boxed()
}

pub fn run(ctx: &mut Ctx) {
    ctx.rule = "populations of 0..12 (and, in a second sub-check, 0..90) individuals with ragged / all-equal / duplicate-laden result vectors (Score and Error polarity); selector spec trees (depth <= 4) over Best, Worst, Random, Tournament(k around n), Lexicase(c around the result count), static WeightedPair trees, DynWeighted lists (also lists that were used for a selection while still being built), references and erased boxes, weights incl. 0 and u32::MAX; generated random stream, 1-3 draws per selector value, in a quarter of the cases alternating between two populations of different sizes and result counts. Oracle: pointer identity with an element of the population; errors only of the four documented kinds and only when a small model of the spec justifies them; must-fail configurations must fail. non-trivial = composite depth >= 2 or a boundary configuration; distinct by JSON encoding".into();
    ctx.assumptions.push("with more configured lexicase cases than results, Ok(member) is also accepted (the filter may reach one survivor first)".into());
    let n = ctx.tier.pick(300_000u32, 6_000_000);
    ctx.run_prop("selections", n, || strategy(12), oracle);
    // larger populations (sorting, grouping and sampling code behaves differently beyond a few dozen elements)
    ctx.run_prop("selections_larger_populations", n / 6, || strategy(90), oracle);
    // coverage-guided search over the same strategies and oracles (thorough tier; see ptfuzz.rs)
    crate::ptfuzz::thorough(ctx, &[("c06", 16, 1_500_000), ("c06L", 16, 200_000)]);
}

pub fn replay(ctx: &mut Ctx, sub: &str, case: &Value) {
    ctx.replay_case::<Case, _>(sub, case, oracle);
}
