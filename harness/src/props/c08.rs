//! C08 — lexicase: random case order, best-per-case filtering, uniform among survivors.

use ec_core::operator::selector::lexicase::Lexicase;
use ec_core::operator::selector::Selector;
use ec_core::test_results::{Error as ErrRes, Score, TestResults};
use proptest::prelude::*;
use rand::rngs::StdRng;
use rand::SeedableRng;
use serde::{Deserialize, Serialize};
use serde_json::{json, Value};

use crate::props::c06::population;
use crate::selharness::{Pop, Res};
use crate::stats::{run_jobs, Job, Stat};
use crate::rngs::ScriptRng;
use crate::{guarded, panic_key, splitmix, Ctx, Fail, Probe};

/// All permutations of 0..c (c <= 6).
fn permutations(c: usize) -> Vec<Vec<usize>> {
    fn rec(cur: &mut Vec<usize>, used: &mut Vec<bool>, out: &mut Vec<Vec<usize>>) {
        if cur.len() == used.len() {
            out.push(cur.clone());
            return;
        }
        for i in 0..used.len() {
            if !used[i] {
                used[i] = true;
                cur.push(i);
                rec(cur, used, out);
                cur.pop();
                used[i] = false;
            }
        }
    }
    let mut out = vec![];
    rec(&mut vec![], &mut vec![false; c], &mut out);
    out
}

/// independent definition of "better": max for scores, min for errors
fn filter(matrix: &[Vec<i64>], errors: bool, order: &[usize]) -> Vec<usize> {
    let mut cand: Vec<usize> = (0..matrix.len()).collect();
    for &case in order {
        let best = if errors {
            cand.iter().map(|i| matrix[*i][case]).min()
        } else {
            cand.iter().map(|i| matrix[*i][case]).max()
        };
        let Some(best) = best else { break };
        cand.retain(|i| matrix[*i][case] == best);
    }
    cand
}

fn law_over(matrix: &[Vec<i64>], errors: bool, orders: &[Vec<usize>]) -> Vec<f64> {
    let mut p = vec![0.0; matrix.len()];
    for o in orders {
        let s = filter(matrix, errors, o);
        for i in &s {
            p[*i] += 1.0 / (s.len() as f64 * orders.len() as f64);
        }
    }
    p
}

fn dominated(matrix: &[Vec<i64>], errors: bool, i: usize) -> bool {
    let better_eq = |a: i64, b: i64| if errors { a <= b } else { a >= b };
    let better = |a: i64, b: i64| if errors { a < b } else { a > b };
    (0..matrix.len()).any(|j| {
        j != i
            && matrix[j].iter().zip(&matrix[i]).all(|(a, b)| better_eq(*a, *b))
            && matrix[j].iter().zip(&matrix[i]).any(|(a, b)| better(*a, *b))
    })
}

/// all c-subsets of 0..m in lexicographic order (the first one is 0..c)
fn subsets_of(m: usize, c: usize) -> Vec<Vec<usize>> {
    (0u32..(1 << m)).filter(|b| b.count_ones() as usize == c).map(|b| (0..m).filter(|i| b >> i & 1 == 1).collect::<Vec<_>>()).collect::<std::collections::BTreeSet<_>>().into_iter().collect()
}

/// The laws a configured case count c admits.  For c = m there is one.  For c < m the statement
/// does not say which c cases are "the considered cases": every fixed c-subset and a uniformly
/// random c-subset are all accepted readings (the first c cases first, which is what the crate does).
fn readings(matrix: &[Vec<i64>], errors: bool, c: usize) -> Vec<(String, Vec<f64>)> {
    let m = matrix.first().map_or(0, Vec::len);
    let perms = permutations(c);
    let mut out = vec![];
    let mut mix = vec![0.0; matrix.len()];
    let subsets = subsets_of(m, c);
    for sub in &subsets {
        let orders: Vec<Vec<usize>> = perms.iter().map(|p| p.iter().map(|i| sub[*i]).collect()).collect();
        let law = law_over(matrix, errors, &orders);
        for (a, b) in mix.iter_mut().zip(&law) {
            *a += b / subsets.len() as f64;
        }
        out.push((format!("cases {sub:?}"), law));
    }
    if subsets.len() > 1 {
        out.push(("a uniformly random subset of the cases".into(), mix));
    }
    out
}

fn gen_matrix(seed: u64) -> (Vec<Vec<i64>>, bool) {
    let mut x = seed;
    let mut next = move || {
        x = x.wrapping_add(0x9E37_79B9_7F4A_7C15);
        splitmix(x)
    };
    let errors = next() % 2 == 0;
    let style = next() % 8;
    let n = 1 + (next() % 8) as usize;
    let m = (next() % 6) as usize;
    let (n, m) = match style {
        0 => (n, m),
        1 => (1, m),         // singleton
        2 => (n, 0),         // zero cases
        // more cases than individuals, heavy ties: most cases do not narrow the candidates,
        // so an implementation that looks at too few of them lets dominated individuals win
        6 | 7 => (2 + n % 3, 5),
        _ => (n.max(2), m.max(2)),
    };
    let mut matrix = vec![vec![0i64; m]; n];
    for (i, row) in matrix.iter_mut().enumerate() {
        for (j, v) in row.iter_mut().enumerate() {
            *v = match style {
                3 => {
                    // specialists: best on "their" case
                    let good = i % m.max(1) == j;
                    if good != errors {
                        3
                    } else {
                        (next() % 2) as i64
                    }
                }
                4 | 6 => (next() % 2) as i64, // heavy ties
                7 => i64::from(next() % 5 == 0), // very heavy ties
                _ => (next() % 4) as i64,
            };
        }
    }
    if style == 5 && n >= 2 {
        matrix[1] = matrix[0].clone(); // duplicates
        // groups of exact copies of unequal size
        for i in 2..n {
            if next() % 3 == 0 {
                matrix[i] = matrix[(next() % i as u64) as usize].clone();
            }
        }
    }
    (matrix, errors)
}

/// larger populations and more cases than the small-scope generator produces (a size-dependent
/// fast path must not hide behind it); the law is still exact (all m! orders, m <= 8)
fn gen_large(seed: u64, k: u64) -> (Vec<Vec<i64>>, bool) {
    let mut x = seed ^ k.wrapping_mul(0xA24B_AED4_963E_E407);
    let mut next = move || {
        x = x.wrapping_add(0x9E37_79B9_7F4A_7C15);
        splitmix(x)
    };
    let errors = next() % 2 == 0;
    let n = [12usize, 20, 33, 40, 64, 100][(k % 6) as usize];
    let m = [6usize, 7, 8, 6, 7, 8, 7][(k % 7) as usize];
    let style = next() % 3;
    let mut matrix = vec![vec![0i64; m]; n];
    for (i, row) in matrix.iter_mut().enumerate() {
        for (j, v) in row.iter_mut().enumerate() {
            *v = match style {
                0 => {
                    let good = i % m == j;
                    if good != errors { 3 } else { (next() % 3) as i64 }
                }
                1 => (next() % 2) as i64,
                _ => (next() % 4) as i64,
            };
        }
    }
    for i in 1..n {
        if next() % 5 == 0 {
            matrix[i] = matrix[(next() % i as u64) as usize].clone();
        }
    }
    (matrix, errors)
}

/// Many cases (33..257, beyond what the enumeration of all orders can handle) with an analytically
/// known law: n "specialists", individual i strictly best on s_i cases of its own and equal to everybody
/// on all other cases.  Whichever special case comes first in the random order decides, so
/// P(i) = s_i / sum(s); an individual with s_i = 0 is dominated and must never win.
fn gen_many_cases(seed: u64, k: u64) -> (Vec<Vec<i64>>, bool, Vec<f64>) {
    let mut x = seed ^ k.wrapping_mul(0xD134_2543_DE82_EF95);
    let mut next = move || {
        x = x.wrapping_add(0x9E37_79B9_7F4A_7C15);
        splitmix(x)
    };
    let errors = next() % 2 == 0;
    let m = [33usize, 40, 64, 65, 100, 257][(k % 6) as usize];
    let n = 2 + (next() % 5) as usize;
    let base = 1 + (next() % 2) as i64;
    let better = if errors { base - 1 } else { base + 1 };
    let mut matrix = vec![vec![base; m]; n];
    let mut special = vec![0usize; n];
    // distinct special cases, spread over the whole range (also among the last ones)
    let mut used = std::collections::BTreeSet::new();
    for i in 0..n {
        let s_i = match (k + i as u64) % 4 {
            0 => 0,
            1 | 2 => 1,
            _ => 1 + (next() % 3) as usize,
        };
        for _ in 0..s_i {
            let mut c = (next() % m as u64) as usize;
            while !used.insert(c) {
                c = (c + 1) % m;
            }
            matrix[i][c] = better;
            special[i] += 1;
        }
    }
    let total: usize = special.iter().sum();
    let law = if total == 0 { vec![1.0 / n as f64; n] } else { special.iter().map(|s| *s as f64 / total as f64).collect() };
    (matrix, errors, law)
}

fn run_lexicase<R: Res>(pop: &Pop<R>, c: usize, trials: u64, seed: u64, name: &str, matrix: &[Vec<i64>], errors: bool, law: &[f64]) -> Result<Vec<u64>, Fail> {
    let lex = Lexicase::new(c);
    // a third of the matrices go through the type-erased form of the selector (and a third of those inside a
    // dynamic weighted list of one): the law is the selector's, whatever it is wrapped in
    let wrap = (seed ^ matrix.len() as u64) % 9;
    let erased: Option<Box<dyn ec_core::operator::selector::DynSelector<Pop<R>> + Send + Sync>> = match wrap {
        0 | 1 => Some(Box::new(Lexicase::new(c))),
        2 => Some(Box::new(ec_core::operator::selector::dyn_weighted::DynWeighted::new(Lexicase::new(c), 3))),
        _ => None,
    };
    let mut rng = StdRng::seed_from_u64(seed);
    // one extra slot at the end: disjoint pairs of successive selections that returned the same individual
    let mut counts = vec![0u64; pop.len() + 1];
    let mut previous = usize::MAX;
    for t in 0..trials {
        let r = guarded(|| match &erased {
            Some(e) => e.select(pop, &mut rng).map(|w| (w.genome, std::ptr::from_ref(w))).map_err(|e| e.to_string()),
            None => lex.select(pop, &mut rng).map(|w| (w.genome, std::ptr::from_ref(w))).map_err(|e| e.to_string()),
        });
        match r {
            Err(p) => return Err(Fail::new(format!("Lexicase/panic:{}", panic_key(&p)), format!("{name}: panicked: {p}"))),
            Ok(Err(e)) => return Err(Fail::new("Lexicase/spurious-error", format!("{name}: {e}"))),
            Ok(Ok((id, ptr))) => {
                if !pop.iter().any(|i| std::ptr::eq(i, ptr)) {
                    return Err(Fail::new("Lexicase/not-a-member", format!("{name}: winner is not an element of the population")));
                }
                let id = id as usize;
                if law[id] <= 0.0 {
                    let why = if dominated(matrix, errors, id) { "it is Pareto-dominated on the considered cases" } else { "it survives no ordering of the cases" };
                    return Err(Fail::new(
                        if dominated(matrix, errors, id) { "Lexicase/dominated-winner" } else { "Lexicase/impossible-winner" },
                        format!("{name}: draw {t} returned individual {id} although {why}"),
                    ));
                }
                counts[id] += 1;
                if t % 2 == 1 && previous == id {
                    counts[pop.len()] += 1;
                }
                previous = id;
            }
        }
    }
    Ok(counts)
}

/// Per-case results that are *groups* of sub-results (the crate's own `TestResults<R>` used as the
/// per-case result type): a group is ordered by its total only, while two groups with the same
/// total can differ in their parts, so ties have to be recognised by the ordering, not by `==`.
fn grouped_population<R: Res + Copy + From<i64>>(matrix: &[Vec<i64>]) -> Pop<TestResults<R>> {
    matrix
        .iter()
        .enumerate()
        .map(|(i, row)| {
            let groups: Vec<TestResults<R>> = row
                .iter()
                .enumerate()
                .map(|(j, v)| {
                    let parts: Vec<i64> = match (i + 2 * j) % 3 {
                        0 => vec![*v],
                        1 => vec![*v - 1, 1],
                        _ => vec![0, *v, 0],
                    };
                    TestResults { results: parts.into_iter().map(R::from).collect(), total_result: R::from(*v) }
                })
                .collect();
            ec_core::individual::ec::EcIndividual::new(i as u32, TestResults { results: groups, total_result: TestResults { results: vec![], total_result: R::from(0) } })
        })
        .collect()
}

fn jobs(seed: u64, n_matrices: u64, n_large: u64, n_many: u64) -> (Vec<Job>, Vec<Value>, usize, usize) {
    let mut n_discriminating = 0usize;
    let mut n_partial = 0usize;
    let mut jobs = vec![];
    let mut descr = vec![];
    for k in 0..n_matrices + n_large + n_many {
        let ms = splitmix(seed ^ 0xC08) ^ k.wrapping_mul(0x9E37);
        let many = k >= n_matrices + n_large;
        let mut analytic: Option<Vec<f64>> = None;
        let (matrix, errors) = if k < n_matrices {
            gen_matrix(ms)
        } else if !many {
            gen_large(ms, k - n_matrices)
        } else {
            let (mx, e, law) = gen_many_cases(ms, k - n_matrices - n_large);
            analytic = Some(law);
            (mx, e)
        };
        let n = matrix.len();
        let m = matrix.first().map_or(0, Vec::len);
        // configured case count: mostly all results, otherwise fewer (0 included)
        let c = if many || m == 0 || splitmix(ms ^ 0xCC) % 5 < 3 { m } else if k < n_matrices { (splitmix(ms ^ 0xCD) % m as u64) as usize } else { m - 1 - (splitmix(ms ^ 0xCD) % 2) as usize };
        n_partial += usize::from(c < m);
        let rd = match &analytic {
            Some(law) => vec![("analytic law of specialists".to_string(), law.clone())],
            None => readings(&matrix, errors, c),
        };
        let law = rd[0].1.clone();
        let no_shuffle = law_over(&matrix, errors, &[(0..c).collect::<Vec<_>>()]);
        let first_only: Vec<Vec<usize>> = (0..c).map(|c| vec![c]).collect();
        let first_only = if c == 0 { law.clone() } else { law_over(&matrix, errors, &first_only) };
        let dist = |a: &[f64], b: &[f64]| a.iter().zip(b).map(|(x, y)| (x - y).abs()).fold(0.0, f64::max);
        let discriminating = dist(&law, &no_shuffle) > 0.02 && dist(&law, &first_only) > 0.02;
        n_discriminating += usize::from(discriminating);
        let grouped = splitmix(ms ^ 0x6E0) % 4 == 0;
        let shown = if many { format!("{} specialists over {m} cases, law {law:?}", matrix.len()) } else { format!("{matrix:?}") };
        let name = format!("Lexicase({c}) {}{} matrix #{k} {shown}", if grouped { "grouped " } else { "" }, if errors { "errors" } else { "scores" });
        if descr.len() < 6 || (discriminating && descr.len() < 12) || (c < m && descr.len() < 16) {
            descr.push(json!({"matrix": matrix, "configured_cases": c, "errors_polarity": errors, "law": law, "law_without_shuffle": no_shuffle, "law_first_case_only": first_only, "discriminating": discriminating, "readings": rd.len()}));
        }
        // support: what some reading allows
        let support: Vec<f64> = (0..n).map(|i| rd.iter().map(|(_, l)| l[i]).fold(0.0, f64::max)).collect();
        let (matrix2, name2) = (matrix.clone(), name.clone());
        jobs.push(Job {
            name: name.clone(),
            run: Box::new(move |trials, seed| {
                // the considered columns under the crate's reading, for the wording of a support violation
                let considered: Vec<Vec<i64>> = matrix2.iter().map(|r| r[..c.min(r.len())].to_vec()).collect();
                let counts = if grouped && errors {
                    run_lexicase(&grouped_population::<ErrRes<i64>>(&matrix2), c, trials, seed, &name2, &considered, errors, &support)?
                } else if grouped {
                    run_lexicase(&grouped_population::<Score<i64>>(&matrix2), c, trials, seed, &name2, &considered, errors, &support)?
                } else if errors {
                    let pop = population::<ErrRes<i64>>(&matrix2, |r| ErrRes(r.iter().sum()));
                    run_lexicase(&pop, c, trials, seed, &name2, &considered, errors, &support)?
                } else {
                    let pop = population::<Score<i64>>(&matrix2, |r| Score(r.iter().sum()));
                    run_lexicase(&pop, c, trials, seed, &name2, &considered, errors, &support)?
                };
                // judge against the reading that fits best; only if none fits, report against the first
                let fits = |law: &[f64]| (0..n).all(|i| !crate::stats::flags(counts[i], trials, law[i].min(1.0), crate::stats::ALPHA));
                let chosen = rd.iter().find(|(_, l)| fits(l)).unwrap_or(&rd[0]);
                let sig = if c < m {
                    "Lexicase/selection-law-fewer-cases"
                } else if discriminating {
                    "Lexicase/selection-law"
                } else {
                    "Lexicase/selection-law-simple"
                };
                let mut stats: Vec<Stat> = (0..n).map(|i| Stat::new(sig, format!("{name2}: individual {i} selected"), counts[i], trials, chosen.1[i].min(1.0))).collect();
                // successive selections are independent draws from that law
                let p_same: f64 = chosen.1.iter().map(|p| p * p).sum();
                stats.push(Stat::new("Lexicase/successive-selections-not-independent", format!("{name2}: two successive selections return the same individual"), counts[n], trials / 2, p_same.min(1.0)));
                Ok(stats)
            }),
        });
    }
    (jobs, descr, n_discriminating, n_partial)
}

// ---------------------------------------------------------------- large groups of co-survivors

/// Thousands of individuals survive every case together (an elite of exact ties) next to a few dominated
/// ones: the final choice must be uniform over the elite - judged by the frequencies of its quarters and
/// thirds - and never fall on a dominated individual.  Few draws suffice (each costs O(population)).
fn tie_group_jobs(thorough: bool) -> Vec<Job> {
    let mut jobs = vec![];
    let mut sizes = vec![1_025usize, 1_500, 3_000, 49_152, 70_000];
    if thorough {
        sizes.extend([12_288, 24_576, 40_000, 65_535, 65_537, 98_304]);
    }
    for (k, elite) in sizes.into_iter().enumerate() {
        for errors in [false, true] {
            if (k + usize::from(errors)) % 2 == 1 && !thorough {
                continue;
            }
            let name = format!("Lexicase::new(2) on an elite of {elite} exact ties ({}) and 7 dominated individuals", if errors { "errors" } else { "scores" });
            jobs.push(Job {
                name: name.clone(),
                run: Box::new(move |trials, seed| {
                    let draws = (trials / 100).clamp(3_000, 40_000);
                    // dominated individuals are spread through the population; position -> rank within the elite
                    let n = elite + 7;
                    let is_dominated = |i: usize| i % (n / 7) == 3 && i / (n / 7) < 7;
                    let (good, bad) = if errors { (1i64, 2i64) } else { (2i64, 1i64) };
                    let matrix: Vec<Vec<i64>> = (0..n).map(|i| if is_dominated(i) { vec![good, bad] } else { vec![good, good] }).collect();
                    let mut rank = vec![usize::MAX; n];
                    let mut next = 0usize;
                    for i in 0..n {
                        if !is_dominated(i) {
                            rank[i] = next;
                            next += 1;
                        }
                    }
                    let elite_n = next;
                    let lex = Lexicase::new(2);
                    let through_erased_form = k % 2 == 1;
                    let mut rng = StdRng::seed_from_u64(seed);
                    let mut quarters = [0u64; 4];
                    let mut thirds = [0u64; 3];
                    let mut one = |id: usize| -> Result<(), Fail> {
                        let r = *rank.get(id).unwrap_or(&usize::MAX);
                        if r == usize::MAX {
                            return Err(Fail::new("Lexicase/dominated-winner", format!("{name}: returned individual {id}, which is dominated")));
                        }
                        quarters[r * 4 / elite_n] += 1;
                        thirds[r * 3 / elite_n] += 1;
                        Ok(())
                    };
                    macro_rules! sample {
                        ($pop:expr) => {{
                            let pop = $pop;
                            let boxed: Box<dyn ec_core::operator::selector::DynSelector<_> + Send + Sync> = Box::new(Lexicase::new(2));
                            for _ in 0..draws {
                                match guarded(|| {
                                    if through_erased_form {
                                        boxed.select(&pop, &mut rng).map(|w| w.genome as usize).map_err(|e| e.to_string())
                                    } else {
                                        lex.select(&pop, &mut rng).map(|w| w.genome as usize).map_err(|e| e.to_string())
                                    }
                                }) {
                                    Err(p) => return Err(Fail::new(format!("Lexicase/panic:{}", panic_key(&p)), format!("{name}: panicked: {p}"))),
                                    Ok(Err(e)) => return Err(Fail::new("Lexicase/spurious-error", format!("{name}: {e}"))),
                                    Ok(Ok(id)) => one(id)?,
                                }
                            }
                        }};
                    }
                    if errors {
                        sample!(population::<ErrRes<i64>>(&matrix, |r| ErrRes(r.iter().sum())));
                    } else {
                        sample!(population::<Score<i64>>(&matrix, |r| Score(r.iter().sum())));
                    }
                    let share = |parts: usize, b: usize| ((0..elite_n).filter(|r| r * parts / elite_n == b).count()) as f64 / elite_n as f64;
                    let mut stats = vec![];
                    for b in 0..4 {
                        stats.push(Stat::new("Lexicase/final-choice-not-uniform", format!("{name}: a member of quarter {b} of the elite selected"), quarters[b], draws, share(4, b)));
                    }
                    for b in 0..3 {
                        stats.push(Stat::new("Lexicase/final-choice-not-uniform", format!("{name}: a member of third {b} of the elite selected"), thirds[b], draws, share(3, b)));
                    }
                    Ok(stats)
                }),
            });
        }
    }
    jobs
}

// ---------------------------------------------------------------- per-draw support under generated random streams

/// One selector value, a generated random stream (with extreme words), a few draws: every winner must be
/// *possible*, i.e. survive the filtering under at least one order of the considered cases.
#[derive(Clone, Debug, Serialize, Deserialize)]
pub struct DrawCase {
    /// rectangular: one row of per-case results per individual
    pub matrix: Vec<Vec<i64>>,
    pub errors: bool,
    /// configured number of cases (<= number of results)
    pub configured: usize,
    /// per-case results are groups (TestResults) ordered by their total
    pub grouped: bool,
    pub script: Vec<u64>,
    pub draws: u8,
    /// another population the same selector value selects from before every judged draw; some of its
    /// individuals may carry fewer results than configured, so that this selection fails part-way
    pub other: Option<Vec<Vec<i64>>>,
}

/// individuals that survive under some order of some admissible set of considered cases
fn support(matrix: &[Vec<i64>], errors: bool, c: usize) -> Vec<bool> {
    let m = matrix.first().map_or(0, Vec::len);
    let mut ok = vec![false; matrix.len()];
    let perms = permutations(c);
    for sub in subsets_of(m, c) {
        for p in &perms {
            let order: Vec<usize> = p.iter().map(|i| sub[*i]).collect();
            for i in filter(matrix, errors, &order) {
                ok[i] = true;
            }
        }
        if ok.iter().all(|b| *b) {
            break;
        }
    }
    ok
}

fn draws_on<R: Res>(pop: &Pop<R>, other: Option<&Pop<R>>, c: &DrawCase, probe: &mut Probe) -> Result<(), Fail> {
    let lex = Lexicase::new(c.configured);
    let mut rng = ScriptRng::new(&c.script, 0xC08);
    let sup = support(&c.matrix, c.errors, c.configured);
    let what = || format!("Lexicase::new({}) on {:?} ({})", c.configured, c.matrix, if c.errors { "errors" } else { "scores" });
    let other_short = c.other.as_ref().is_some_and(|o| o.iter().any(|r| r.len() < c.configured));
    for d in 0..c.draws.max(1) {
        if let Some(o) = other {
            // whatever the selector value (or its thread) keeps from this call must not leak into the judged one
            let r = guarded(|| lex.select(o, &mut rng).map(|w| std::ptr::from_ref(w)).map_err(|e| e.to_string()));
            match r {
                Err(p) => return Err(Fail::new(format!("Lexicase/panic:{}", panic_key(&p)), format!("selection from the other population panicked: {p}"))),
                Ok(Ok(ptr)) if !o.iter().any(|i| std::ptr::eq(i, ptr)) => {
                    return Err(Fail::new("Lexicase/not-a-member", format!("{}: the winner on the other population is not one of its elements", what())));
                }
                Ok(Err(e)) if !o.is_empty() && !other_short => {
                    return Err(Fail::new("Lexicase/spurious-error", format!("{}: selection from the other population ({} individuals): {e}", what(), o.len())));
                }
                _ => {}
            }
        }
        let r = guarded(|| lex.select(pop, &mut rng).map(|w| (w.genome, std::ptr::from_ref(w))).map_err(|e| e.to_string()));
        match r {
            Err(p) => return Err(Fail::new(format!("Lexicase/panic:{}", panic_key(&p)), format!("{}: draw {d} panicked: {p}", what()))),
            Ok(Err(e)) => {
                if !pop.is_empty() {
                    return Err(Fail::new("Lexicase/spurious-error", format!("{}: draw {d}: {e}", what())));
                }
            }
            Ok(Ok((id, ptr))) => {
                if !pop.iter().any(|i| std::ptr::eq(i, ptr)) {
                    return Err(Fail::new("Lexicase/not-a-member", format!("{}: draw {d}: the winner is not an element of the population", what())));
                }
                let id = id as usize;
                if !sup.get(id).copied().unwrap_or(false) {
                    let dom = c.configured == c.matrix.first().map_or(0, Vec::len) && dominated(&c.matrix, c.errors, id);
                    return Err(Fail::new(
                        if dom { "Lexicase/dominated-winner" } else { "Lexicase/impossible-winner" },
                        format!("{}: draw {d} returned individual {id}, which {}", what(), if dom { "is Pareto-dominated" } else { "survives under no order of the considered cases" }),
                    ));
                }
            }
        }
    }
    let impossible = sup.iter().filter(|b| !**b).count();
    probe.nontrivial = c.matrix.len() >= 3 && c.configured >= 2 && impossible >= 1;
    if impossible >= 1 {
        probe.label("some individual can never win");
    }
    if c.configured < c.matrix.first().map_or(0, Vec::len) {
        probe.label("fewer configured cases than results");
    }
    if c.grouped {
        probe.label("grouped per-case results");
    }
    if other.is_some() {
        probe.label("selector value also used on another population");
    }
    if other_short {
        probe.label("the other population has individuals with too few results (selection may fail part-way)");
    }
    if c.matrix.is_empty() {
        probe.label("empty population");
    }
    Ok(())
}

pub fn draw_oracle(c: &DrawCase, probe: &mut Probe) -> Result<(), Fail> {
    let m = c.matrix.first().map_or(0, Vec::len);
    if c.matrix.iter().any(|r| r.len() != m) || c.configured > m || m > 6 {
        return Ok(()); // outside the domain of this sub-check (C06 covers ragged results and larger counts)
    }
    match (c.grouped, c.errors) {
        (true, true) => draws_on(&grouped_population::<ErrRes<i64>>(&c.matrix), c.other.as_ref().map(|o| grouped_population::<ErrRes<i64>>(o)).as_ref(), c, probe),
        (true, false) => draws_on(&grouped_population::<Score<i64>>(&c.matrix), c.other.as_ref().map(|o| grouped_population::<Score<i64>>(o)).as_ref(), c, probe),
        (false, true) => {
            let mk = |mx: &Vec<Vec<i64>>| population::<ErrRes<i64>>(mx, |r| ErrRes(r.iter().sum()));
            draws_on(&mk(&c.matrix), c.other.as_ref().map(mk).as_ref(), c, probe)
        }
        (false, false) => {
            let mk = |mx: &Vec<Vec<i64>>| population::<Score<i64>>(mx, |r| Score(r.iter().sum()));
            draws_on(&mk(&c.matrix), c.other.as_ref().map(mk).as_ref(), c, probe)
        }
    }
}

pub fn draw_strategy() -> BoxedStrategy<DrawCase> {
    let rows = |n: std::ops::RangeInclusive<usize>, m: usize, mode: u8| {
        let val = match mode % 4 {
            0 => (0i64..=1).boxed(),
            1 => (0i64..=3).boxed(),
            2 => prop_oneof![4 => 0i64..=3, 1 => any::<i32>().prop_map(i64::from), 1 => prop::sample::select(vec![i64::from(i32::MIN), -1, 1_000_000_007, i64::from(i32::MAX)])].boxed(),
            _ => Just(2i64).boxed(),
        };
        prop::collection::vec(prop::collection::vec(val, m), n)
    };
    (0usize..=5, any::<u8>())
        .prop_flat_map(move |(m, mode)| {
            (
                rows(0..=10, m, mode),
                any::<bool>(),
                prop_oneof![3 => Just(m), 2 => 0usize..=m],
                any::<bool>(),
                crate::rngs::script_strategy(24),
                1u8..5,
                prop_oneof![2 => Just(None), 1 => rows(0..=14, m, mode / 4).prop_map(Some)],
                any::<u32>(),
            )
        })
        .prop_map(|(mut matrix, errors, configured, grouped, script, draws, mut other, cut)| {
            // in half of the other populations one or two individuals lose some of their results
            if let Some(o) = other.as_mut() {
                if cut % 2 == 0 && !o.is_empty() {
                    let n = o.len();
                    for k in 0..=(cut as usize / 2) % 2 {
                        let row = &mut o[(cut as usize / 4 + k * 3) % n];
                        let keep = (cut as usize / 64 + k) % (row.len() + 1);
                        row.truncate(keep);
                    }
                }
            }
            // groups of exact copies: survivors that can only be separated by the final uniform choice
            if matrix.len() >= 4 && matrix[0].iter().sum::<i64>() % 2 == 0 {
                matrix[3] = matrix[0].clone();
            }
            DrawCase { matrix, errors, configured, grouped, script, draws, other }
        })
        .boxed()
}

pub fn run(ctx: &mut Ctx) {
    let (n_matrices, trials) = ctx.tier.pick((400u64, 400_000u64), (8_000, 2_000_000));
    let n_large = ctx.tier.pick(12u64, 120);
    let n_many = ctx.tier.pick(36u64, 360);
    ctx.rule = format!("{n_matrices} generated result matrices (1..8 individuals x 0..5 cases, values 0..3, specialists / heavy ties / groups of exact copies / singleton / zero cases / more cases than individuals, both polarities; in a quarter of the matrices every per-case result is a group of sub-results - the crate's TestResults as the per-case type - ordered by its total, so that equal-ranking results need not be structurally equal), plus {n_large} larger ones (12..100 individuals x 6..8 cases), and {n_many} with 33..257 cases whose law is known analytically (specialists: P(i) = own special cases / all special cases), configured case count = number of results in 3 of 5 matrices and a smaller count (0 included) otherwise; {trials} seeded draws each through the real Lexicase (a third of the matrices and half of the tie groups through its type-erased form, some inside a dynamic weighted list). Oracle: the exact law P(i) = sum over all case orders [i survives] / (|survivors| * c!) with an independent definition of 'better'; every draw: P(winner) > 0 (never dominated) exactly; frequencies by the Chernoff/KL rule. large tie groups: elites of 1025..70000 (thorough: ..98304) exact ties next to 7 dominated individuals, the final choice judged by the frequencies of the elite's quarters and thirds. per_draw_support: generated matrices (0..10 individuals x 0..5 cases, ties, copies, extreme values, both polarities, plain and grouped results), configured count <= number of results, a generated random stream with extreme words, 1..4 draws from one selector value which in a third of the cases also selects from another population in between; every winner must be an element of the population that survives under at least one order of an admissible set of considered cases. non-trivial = a (matrix, individual) statistic with 0 < p < 1; for per_draw_support >= 3 individuals, >= 2 configured cases and at least one individual that can never win");
    ctx.assumptions.push("for a configured case count c smaller than the number of results the statement does not say which c cases are considered: the law of every fixed c-subset and of a uniformly random c-subset are all accepted (the observed frequencies are judged against the reading that fits them best), and a winner only has to be possible under one of them".into());
    let (jobs, descr, discriminating, partial) = jobs(ctx.seed, n_matrices, n_large, n_many);
    ctx.extra.insert("matrices_with_fewer_configured_cases_than_results".into(), json!(partial));
    ctx.extra.insert("sample_matrices".into(), json!(descr));
    ctx.extra.insert("matrices_whose_law_differs_from_no_shuffle_and_first_case_only".into(), json!(discriminating));
    run_jobs(ctx, "lexicase_laws", jobs, trials);
    run_jobs(ctx, "lexicase_large_tie_groups", tie_group_jobs(ctx.tier == crate::Tier::Thorough), trials);
    let n = ctx.tier.pick(200_000u32, 4_000_000);
    ctx.run_prop("per_draw_support", n, draw_strategy, draw_oracle);
    // coverage-guided search over the same strategy and oracle (thorough tier; see ptfuzz.rs)
    crate::ptfuzz::thorough(ctx, &[("c08", 16, 1_000_000)]);
}

pub fn replay(ctx: &mut Ctx, sub: &str, case: &Value) {
    if sub == "per_draw_support" {
        ctx.replay_case::<DrawCase, _>(sub, case, draw_oracle);
    } else {
        run(ctx);
    }
}
