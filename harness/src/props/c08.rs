//! C08 — lexicase: random case order, best-per-case filtering, uniform among survivors.

use ec_core::operator::selector::lexicase::Lexicase;
use ec_core::operator::selector::Selector;
use ec_core::test_results::{Error as ErrRes, Score};
use rand::rngs::StdRng;
use rand::SeedableRng;
use serde_json::{json, Value};

use crate::props::c06::population;
use crate::selharness::{Pop, Res};
use crate::stats::{run_jobs, Job, Stat};
use crate::{guarded, panic_key, splitmix, Ctx, Fail};

/// All permutations of 0..c (c <= 6).
fn permutations(c: usize) -> Vec<Vec<usize>> {
    fn rec(cur: &mut Vec<usize>, used: &mut Vec<bool>, out: &mut Vec<Vec<usize>>) {
        if cur.len() == used.len() {
            out.push(cur.clone());
            return;
        }
        for i in 0..used.len() {
            if !used[i] {
                used[i] = true;
                cur.push(i);
                rec(cur, used, out);
                cur.pop();
                used[i] = false;
            }
        }
    }
    let mut out = vec![];
    rec(&mut vec![], &mut vec![false; c], &mut out);
    out
}

/// independent definition of "better": max for scores, min for errors
fn filter(matrix: &[Vec<i64>], errors: bool, order: &[usize]) -> Vec<usize> {
    let mut cand: Vec<usize> = (0..matrix.len()).collect();
    for &case in order {
        let best = if errors {
            cand.iter().map(|i| matrix[*i][case]).min()
        } else {
            cand.iter().map(|i| matrix[*i][case]).max()
        };
        let Some(best) = best else { break };
        cand.retain(|i| matrix[*i][case] == best);
    }
    cand
}

fn law_over(matrix: &[Vec<i64>], errors: bool, orders: &[Vec<usize>]) -> Vec<f64> {
    let mut p = vec![0.0; matrix.len()];
    for o in orders {
        let s = filter(matrix, errors, o);
        for i in &s {
            p[*i] += 1.0 / (s.len() as f64 * orders.len() as f64);
        }
    }
    p
}

fn dominated(matrix: &[Vec<i64>], errors: bool, i: usize) -> bool {
    let better_eq = |a: i64, b: i64| if errors { a <= b } else { a >= b };
    let better = |a: i64, b: i64| if errors { a < b } else { a > b };
    (0..matrix.len()).any(|j| {
        j != i
            && matrix[j].iter().zip(&matrix[i]).all(|(a, b)| better_eq(*a, *b))
            && matrix[j].iter().zip(&matrix[i]).any(|(a, b)| better(*a, *b))
    })
}

fn gen_matrix(seed: u64) -> (Vec<Vec<i64>>, bool) {
    let mut x = seed;
    let mut next = move || {
        x = x.wrapping_add(0x9E37_79B9_7F4A_7C15);
        splitmix(x)
    };
    let errors = next() % 2 == 0;
    let style = next() % 6;
    let n = 1 + (next() % 6) as usize;
    let m = (next() % 6) as usize;
    let (n, m) = match style {
        0 => (n, m),
        1 => (1, m),         // singleton
        2 => (n, 0),         // zero cases
        _ => (n.max(2), m.max(2)),
    };
    let mut matrix = vec![vec![0i64; m]; n];
    for (i, row) in matrix.iter_mut().enumerate() {
        for (j, v) in row.iter_mut().enumerate() {
            *v = match style {
                3 => {
                    // specialists: best on "their" case
                    let good = i % m.max(1) == j;
                    if good != errors {
                        3
                    } else {
                        (next() % 2) as i64
                    }
                }
                4 => (next() % 2) as i64, // heavy ties
                _ => (next() % 4) as i64,
            };
        }
    }
    if style == 5 && n >= 2 {
        matrix[1] = matrix[0].clone(); // duplicates
    }
    (matrix, errors)
}

fn run_lexicase<R: Res + From<i64>>(pop: &Pop<R>, m: usize, trials: u64, seed: u64, name: &str, matrix: &[Vec<i64>], errors: bool, law: &[f64]) -> Result<Vec<u64>, Fail> {
    let lex = Lexicase::new(m);
    let mut rng = StdRng::seed_from_u64(seed);
    let mut counts = vec![0u64; pop.len()];
    for t in 0..trials {
        let r = guarded(|| lex.select(pop, &mut rng).map(|w| (w.genome, std::ptr::from_ref(w))).map_err(|e| e.to_string()));
        match r {
            Err(p) => return Err(Fail::new(format!("Lexicase/panic:{}", panic_key(&p)), format!("{name}: panicked: {p}"))),
            Ok(Err(e)) => return Err(Fail::new("Lexicase/spurious-error", format!("{name}: {e}"))),
            Ok(Ok((id, ptr))) => {
                if !pop.iter().any(|i| std::ptr::eq(i, ptr)) {
                    return Err(Fail::new("Lexicase/not-a-member", format!("{name}: winner is not an element of the population")));
                }
                let id = id as usize;
                if law[id] <= 0.0 {
                    let why = if dominated(matrix, errors, id) { "it is Pareto-dominated on the considered cases" } else { "it survives no ordering of the cases" };
                    return Err(Fail::new(
                        if dominated(matrix, errors, id) { "Lexicase/dominated-winner" } else { "Lexicase/impossible-winner" },
                        format!("{name}: draw {t} returned individual {id} although {why}"),
                    ));
                }
                counts[id] += 1;
            }
        }
    }
    Ok(counts)
}

fn jobs(seed: u64, n_matrices: u64) -> (Vec<Job>, Vec<Value>, usize) {
    let mut n_discriminating = 0usize;
    let mut jobs = vec![];
    let mut descr = vec![];
    for k in 0..n_matrices {
        let (matrix, errors) = gen_matrix(splitmix(seed ^ 0xC08) ^ k.wrapping_mul(0x9E37));
        let n = matrix.len();
        let m = matrix.first().map_or(0, Vec::len);
        let perms = permutations(m);
        let law = law_over(&matrix, errors, &perms);
        let no_shuffle = law_over(&matrix, errors, &[(0..m).collect::<Vec<_>>()]);
        let first_only: Vec<Vec<usize>> = (0..m).map(|c| vec![c]).collect();
        let first_only = if m == 0 { law.clone() } else { law_over(&matrix, errors, &first_only) };
        let dist = |a: &[f64], b: &[f64]| a.iter().zip(b).map(|(x, y)| (x - y).abs()).fold(0.0, f64::max);
        let discriminating = dist(&law, &no_shuffle) > 0.02 && dist(&law, &first_only) > 0.02;
        n_discriminating += usize::from(discriminating);
        let name = format!("Lexicase({m}) {} matrix #{k} {matrix:?}", if errors { "errors" } else { "scores" });
        if descr.len() < 6 || (discriminating && descr.len() < 12) {
            descr.push(json!({"matrix": matrix, "errors_polarity": errors, "law": law, "law_without_shuffle": no_shuffle, "law_first_case_only": first_only, "discriminating": discriminating}));
        }
        let (matrix2, law2, name2) = (matrix.clone(), law.clone(), name.clone());
        jobs.push(Job {
            name: name.clone(),
            run: Box::new(move |trials, seed| {
                let counts = if errors {
                    let pop = population::<ErrRes<i64>>(&matrix2, |r| ErrRes(r.iter().sum()));
                    run_lexicase(&pop, m, trials, seed, &name2, &matrix2, errors, &law2)?
                } else {
                    let pop = population::<Score<i64>>(&matrix2, |r| Score(r.iter().sum()));
                    run_lexicase(&pop, m, trials, seed, &name2, &matrix2, errors, &law2)?
                };
                Ok((0..n)
                    .map(|i| {
                        let sig = if discriminating { "Lexicase/selection-law" } else { "Lexicase/selection-law-simple" };
                        Stat::new(sig, format!("{name2}: individual {i} selected"), counts[i], trials, law2[i].min(1.0))
                    })
                    .collect())
            }),
        });
    }
    (jobs, descr, n_discriminating)
}

pub fn run(ctx: &mut Ctx) {
    let (n_matrices, trials) = ctx.tier.pick((400u64, 400_000u64), (8_000, 2_000_000));
    ctx.rule = format!("{n_matrices} generated result matrices (1..6 individuals x 0..5 cases, values 0..3, specialists / heavy ties / duplicates / singleton / zero cases, both polarities), configured case count = number of results; {trials} seeded draws each through the real Lexicase. Oracle: the exact law P(i) = sum over all case orders [i survives] / (|survivors| * c!) with an independent definition of 'better'; every draw: P(winner) > 0 (never dominated) exactly; frequencies by the Chernoff/KL rule. non-trivial = a (matrix, individual) statistic with 0 < p < 1");
    ctx.assumptions.push("configured case counts smaller than the number of results are not judged here (which cases are then considered is not specified); C06 covers their error behaviour".into());
    let (jobs, descr, discriminating) = jobs(ctx.seed, n_matrices);
    ctx.extra.insert("sample_matrices".into(), json!(descr));
    ctx.extra.insert("matrices_whose_law_differs_from_no_shuffle_and_first_case_only".into(), json!(discriminating));
    run_jobs(ctx, "lexicase_laws", jobs, trials);
}

pub fn replay(ctx: &mut Ctx, _sub: &str, _case: &Value) {
    run(ctx);
}
