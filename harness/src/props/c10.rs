//! C10 — crossover recombines position-wise and reports misuse as errors.

use ec_core::operator::recombinator::Recombinator;
use ec_linear::genome::bitstring::Bitstring;
use ec_linear::recombinator::crossover::Crossover;
use ec_linear::recombinator::errors::CrossoverGeneError;
use ec_linear::recombinator::two_point_xo::TwoPointXo;
use ec_linear::recombinator::uniform_xo::UniformXo;
use proptest::prelude::*;
use rand::rngs::StdRng;
use rand::SeedableRng;
use serde::{Deserialize, Serialize};
use serde_json::{json, Value};

use crate::rngs::ScriptRng;
use crate::stats::Count;
use crate::{derive_seed, ensure, fail, guarded, panic_key, Ctx, Fail, Probe};

#[derive(Clone, Debug, Serialize, Deserialize)]
pub enum Case {
    Recombine {
        two_point: bool,
        tuple: bool,
        bits: bool,
        /// first parent as bits (for the Vec impls the genes are tagged (parent, position) instead)
        p1: Vec<bool>,
        /// second parent; when `None` the complement of p1 (so the source of every child bit is observable)
        p2: Option<Vec<bool>>,
        script: Vec<u64>,
        /// gene type of the `Vec<T>` impls, see `GENE_KINDS`
        #[serde(default)]
        gene: u8,
    },
    /// parents of a *user-defined* genome type (own `Linear` + `Crossover` impls with tagged genes) through the
    /// generic `G: Crossover` recombinators; its exchange primitives fail at the `fail_call`-th call (if any)
    Custom {
        two_point: bool,
        tuple: bool,
        n1: usize,
        n2: usize,
        script: Vec<u64>,
        fail_call: Option<u8>,
    },
    Gene {
        a: Vec<bool>,
        b: Vec<bool>,
        index: usize,
    },
    Segment {
        a: Vec<bool>,
        b: Vec<bool>,
        start: usize,
        end: usize,
    },
}

fn impl_name(two_point: bool, bits: bool, tuple: bool) -> String {
    format!(
        "{}<{}{}>",
        if two_point { "TwoPointXo" } else { "UniformXo" },
        if bits { "Bitstring" } else { "Vec" },
        if tuple { ",tuple" } else { "" }
    )
}

type Tag = (u8, u32);

/// Run one recombination; returns per position which parent the child's gene came from
/// (None = from neither: violation) or the error kind.
enum RecOut {
    Child(Vec<Option<u8>>),
    LenErr(usize, usize),
    OtherErr(String),
}

/// gene types of different widths and ownership for the generic `Vec<T>` impls
pub const GENE_KINDS: u8 = 4;
pub const GENE_KIND_NAMES: [&str; 4] = ["(u8, u32)", "(u8, u32, [u64; 3]) (40 bytes)", "String", "Box<(u8, u32)>"];

fn recombine_vec<R: rand::Rng>(two_point: bool, tuple: bool, n1: usize, n2: usize, rng: &mut R) -> RecOut {
    recombine_vec_kind(0, two_point, tuple, n1, n2, rng)
}

fn recombine_vec_kind<R: rand::Rng>(kind: u8, two_point: bool, tuple: bool, n1: usize, n2: usize, rng: &mut R) -> RecOut {
    fn go<T: Clone, R: rand::Rng>(mk: impl Fn(u8, u32) -> T, un: impl Fn(&T) -> (u8, u32), two_point: bool, tuple: bool, n1: usize, n2: usize, rng: &mut R) -> RecOut {
        let p1: Vec<T> = (0..n1 as u32).map(|i| mk(1, i)).collect();
        let p2: Vec<T> = (0..n2 as u32).map(|i| mk(2, i)).collect();
        let r = match (two_point, tuple) {
            (true, false) => TwoPointXo.recombine([p1, p2], rng),
            (true, true) => TwoPointXo.recombine((p1, p2), rng),
            (false, false) => UniformXo.recombine([p1, p2], rng),
            (false, true) => UniformXo.recombine((p1, p2), rng),
        };
        match r {
            Ok(child) => RecOut::Child(
                child
                    .iter()
                    .enumerate()
                    .map(|(i, g)| {
                        let (p, pos) = un(g);
                        if pos as usize == i && (p == 1 || p == 2) { Some(p) } else { None }
                    })
                    .collect(),
            ),
            Err(e) => RecOut::LenErr(e.0, e.1),
        }
    }
    match kind % GENE_KINDS {
        0 => go(|p, i| -> Tag { (p, i) }, |g| *g, two_point, tuple, n1, n2, rng),
        1 => go(|p, i| (p, i, [u64::from(i); 3]), |g| (g.0, g.1), two_point, tuple, n1, n2, rng),
        2 => go(
            |p, i| format!("{p}:{i}"),
            |g: &String| {
                let mut it = g.split(':');
                (it.next().and_then(|x| x.parse().ok()).unwrap_or(0), it.next().and_then(|x| x.parse().ok()).unwrap_or(u32::MAX))
            },
            two_point,
            tuple,
            n1,
            n2,
            rng,
        ),
        _ => go(|p, i| Box::new((p, i)), |g: &Box<(u8, u32)>| **g, two_point, tuple, n1, n2, rng),
    }
}

fn recombine_bits<R: rand::Rng>(two_point: bool, tuple: bool, p1: &[bool], p2: &[bool], rng: &mut R) -> (RecOut, Option<Vec<bool>>) {
    let a = Bitstring { bits: p1.to_vec() };
    let b = Bitstring { bits: p2.to_vec() };
    fn conv<E: std::fmt::Debug>(r: Result<Bitstring, CrossoverGeneError<E>>) -> Result<Vec<bool>, RecOut> {
        match r {
            Ok(c) => Ok(c.bits),
            Err(CrossoverGeneError::DifferentGenomeLength(d)) => Err(RecOut::LenErr(d.0, d.1)),
            Err(CrossoverGeneError::Crossover(e)) => Err(RecOut::OtherErr(format!("{e:?}"))),
        }
    }
    let r = match (two_point, tuple) {
        (true, false) => conv(TwoPointXo.recombine([a, b], rng)),
        (true, true) => conv(TwoPointXo.recombine((a, b), rng)),
        (false, false) => conv(UniformXo.recombine([a, b], rng)),
        (false, true) => conv(UniformXo.recombine((a, b), rng)),
    };
    match r {
        Err(e) => (e, None),
        Ok(child) => {
            let src = child
                .iter()
                .enumerate()
                .map(|(i, c)| {
                    let f1 = p1.get(i) == Some(c);
                    let f2 = p2.get(i) == Some(c);
                    match (f1, f2) {
                        (true, false) => Some(1),
                        (false, true) => Some(2),
                        (true, true) => Some(0), // undecidable (parents agree)
                        (false, false) => None,
                    }
                })
                .collect();
            (RecOut::Child(src), Some(child))
        }
    }
}

thread_local! {
    /// (exchange-primitive calls made so far, call number that fails)
    static CUSTOM_CALLS: std::cell::Cell<(u32, Option<u32>)> = const { std::cell::Cell::new((0, None)) };
}

/// A genome type a user of the library could write: tagged genes in a `VecDeque`, with its own (correct)
/// exchange primitives, which can be told to fail at a given call.
#[derive(Clone, Debug)]
pub struct TagGenome(pub std::collections::VecDeque<Tag>);

#[derive(Debug, PartialEq, Eq)]
pub enum TagErr {
    Scripted(u32),
    OutOfBounds,
}

impl ec_core::genome::Genome for TagGenome {
    type Gene = Tag;
}
impl ec_linear::genome::Linear for TagGenome {
    fn size(&self) -> usize {
        self.0.len()
    }
    fn gene_mut(&mut self, index: usize) -> Option<&mut Tag> {
        self.0.get_mut(index)
    }
}
impl TagGenome {
    fn count_call() -> Result<(), TagErr> {
        CUSTOM_CALLS.with(|c| {
            let (n, fail) = c.get();
            c.set((n + 1, fail));
            if fail == Some(n) {
                Err(TagErr::Scripted(n))
            } else {
                Ok(())
            }
        })
    }
}
impl Crossover for TagGenome {
    type GeneCrossoverError = TagErr;
    type SegmentCrossoverError = TagErr;
    fn crossover_gene(&mut self, other: &mut Self, index: usize) -> Result<(), TagErr> {
        Self::count_call()?;
        match (self.0.get_mut(index), other.0.get_mut(index)) {
            (Some(a), Some(b)) => {
                std::mem::swap(a, b);
                Ok(())
            }
            _ => Err(TagErr::OutOfBounds),
        }
    }
    fn crossover_segment(&mut self, other: &mut Self, range: std::ops::Range<usize>) -> Result<(), TagErr> {
        Self::count_call()?;
        if range.start > range.end || range.end > self.0.len() || range.end > other.0.len() {
            return Err(TagErr::OutOfBounds);
        }
        for i in range {
            std::mem::swap(&mut self.0[i], &mut other.0[i]);
        }
        Ok(())
    }
}

enum CustomOut {
    Child(Vec<Option<u8>>),
    LenErr(usize, usize),
    Primitive(TagErr),
}

fn recombine_custom<R: rand::Rng>(two_point: bool, tuple: bool, n1: usize, n2: usize, fail_call: Option<u8>, rng: &mut R) -> (CustomOut, u32) {
    let a = TagGenome((0..n1 as u32).map(|i| (1u8, i)).collect());
    let b = TagGenome((0..n2 as u32).map(|i| (2u8, i)).collect());
    CUSTOM_CALLS.with(|c| c.set((0, fail_call.map(u32::from))));
    fn conv(r: Result<TagGenome, CrossoverGeneError<TagErr>>) -> CustomOut {
        match r {
            Ok(child) => CustomOut::Child(child.0.iter().enumerate().map(|(i, (p, pos))| if *pos as usize == i && (*p == 1 || *p == 2) { Some(*p) } else { None }).collect()),
            Err(CrossoverGeneError::DifferentGenomeLength(d)) => CustomOut::LenErr(d.0, d.1),
            Err(CrossoverGeneError::Crossover(e)) => CustomOut::Primitive(e),
        }
    }
    let out = match (two_point, tuple) {
        (true, false) => conv(TwoPointXo.recombine([a, b], rng)),
        (true, true) => conv(TwoPointXo.recombine((a, b), rng)),
        (false, false) => conv(UniformXo.recombine([a, b], rng)),
        (false, true) => conv(UniformXo.recombine((a, b), rng)),
    };
    let calls = CUSTOM_CALLS.with(|c| c.replace((0, None)).0);
    (out, calls)
}

fn custom_case(two_point: bool, tuple: bool, n1: usize, n2: usize, script: &[u64], fail_call: Option<u8>, probe: &mut Probe) -> Result<(), Fail> {
    let name = format!("{}<user-defined genome{}>", if two_point { "TwoPointXo" } else { "UniformXo" }, if tuple { ",tuple" } else { "" });
    let mut rng = ScriptRng::new(script, 0xC0570);
    let (out, calls) = match guarded(|| recombine_custom(two_point, tuple, n1, n2, fail_call, &mut rng)) {
        Ok(r) => r,
        Err(p) => {
            CUSTOM_CALLS.with(|c| c.set((0, None)));
            fail!(format!("{name}/panic"), "recombining user-defined genomes of lengths {n1} and {n2} panicked: {p} ({})", panic_key(&p))
        }
    };
    probe.label("user-defined genome type through the generic recombinators");
    let failed = fail_call.is_some_and(|f| u32::from(f) < calls);
    match out {
        CustomOut::LenErr(a, b) => {
            ensure!(n1 != n2, format!("{name}/spurious-error"), "equal-length parents ({n1}) rejected with DifferentGenomeLength({a}, {b})");
            ensure!((a, b) == (n1, n2) || (a, b) == (n2, n1), format!("{name}/length-error-payload"), "DifferentGenomeLength({a}, {b}) for parents of lengths {n1} and {n2}");
            probe.nontrivial = true;
            probe.label("different lengths");
        }
        CustomOut::Primitive(e) => {
            // the genome's own exchange primitive refused: that very error has to come back
            ensure!(n1 == n2, format!("{name}/different-lengths-wrong-error"), "parents of lengths {n1} and {n2}: error {e:?} instead of DifferentGenomeLength");
            ensure!(
                failed && fail_call.map(|f| TagErr::Scripted(u32::from(f))) == Some(e),
                format!("{name}/primitive-error-not-passed-on"),
                "the genome's exchange primitive was called {calls} times and told to fail at call {fail_call:?}; the recombinator reported an error the primitive did not raise there"
            );
            probe.nontrivial = true;
            probe.label("the genome's exchange primitive failed and the error was passed on");
        }
        CustomOut::Child(src) => {
            ensure!(n1 == n2, format!("{name}/different-lengths-accepted"), "parents of lengths {n1} and {n2} produced a child of {} genes instead of an error", src.len());
            ensure!(!failed, format!("{name}/primitive-error-swallowed"), "the genome's exchange primitive failed at call {fail_call:?} (of {calls}) but the recombinator returned a child");
            let mixed = check_sources(&name, two_point, n1, &src)?;
            probe.nontrivial = n1 >= 2 && mixed;
        }
    }
    Ok(())
}

fn check_sources(name: &str, two_point: bool, n: usize, src: &[Option<u8>]) -> Result<bool, Fail> {
    ensure!(
        src.len() == n,
        format!("{name}/child-length"),
        "child has {} genes, parents {n}",
        src.len()
    );
    if let Some(i) = src.iter().position(Option::is_none) {
        fail!(
            format!("{name}/gene-from-neither-parent"),
            "child gene {i} is not the gene either parent had at position {i}; sources {src:?}"
        );
    }
    if two_point {
        // positions definitely from parent 2 must fit into one interval whose interior has no definite parent-1 gene
        let twos: Vec<usize> = src.iter().enumerate().filter(|(_, s)| **s == Some(2)).map(|(i, _)| i).collect();
        if let (Some(&lo), Some(&hi)) = (twos.first(), twos.last()) {
            if let Some(i) = (lo..=hi).find(|i| src[*i] == Some(1)) {
                fail!(
                    format!("{name}/segment-not-contiguous"),
                    "genes from the second parent at {twos:?} but position {i} in between comes from the first; sources {src:?}"
                );
            }
        }
    }
    let from1 = src.iter().any(|s| *s == Some(1));
    let from2 = src.iter().any(|s| *s == Some(2));
    Ok(from1 && from2)
}

pub fn oracle(case: &Case, probe: &mut Probe) -> Result<(), Fail> {
    match case {
        Case::Custom { two_point, tuple, n1, n2, script, fail_call } => custom_case(*two_point, *tuple, *n1, *n2, script, *fail_call, probe),
        Case::Recombine {
            two_point,
            tuple,
            bits,
            p1,
            p2,
            script,
            gene,
        } => {
            let name = impl_name(*two_point, *bits, *tuple);
            if !*bits {
                probe.label(format!("Vec genes of type {}", GENE_KIND_NAMES[usize::from(*gene % GENE_KINDS)]));
            }
            let n1 = p1.len();
            let p2v: Vec<bool> = p2.clone().unwrap_or_else(|| p1.iter().map(|b| !b).collect());
            let n2 = p2v.len();
            let mut rng = ScriptRng::new(script, 0x5EED);
            // in a third of the cases the thread has just recombined parents of other lengths (whatever a
            // recombinator or its thread remembers from them must not influence the judged recombination)
            if script.len() % 3 == 1 {
                probe.label("other parents recombined on this thread first");
                let mut warm_rng = ScriptRng::new(&[], 0xFACE ^ n1 as u64);
                let _ = guarded(|| {
                    let _ = recombine_vec_kind(*gene, *two_point, *tuple, n1 + 7, n1 + 7, &mut warm_rng);
                    let _ = recombine_bits(*two_point, *tuple, &[true; 70], &[false; 70], &mut warm_rng);
                    let _ = recombine_vec_kind(*gene, !*two_point, *tuple, 3, 3, &mut warm_rng);
                });
            }
            let out = guarded(|| {
                if *bits {
                    recombine_bits(*two_point, *tuple, p1, &p2v, &mut rng).0
                } else {
                    recombine_vec_kind(*gene, *two_point, *tuple, n1, n2, &mut rng)
                }
            });
            let out = match out {
                Ok(o) => o,
                Err(p) => {
                    let aspect = if n1 == 0 && n2 == 0 { "panic-empty" } else if n1 != n2 { "panic-different-lengths" } else { "panic" };
                    fail!(
                        format!("{name}/{aspect}"),
                        "recombining parents of lengths {n1} and {n2} panicked: {p} ({})",
                        panic_key(&p)
                    )
                }
            };
            if n1 != n2 {
                probe.nontrivial = true;
                probe.label("different lengths");
                match out {
                    RecOut::LenErr(a, b) => {
                        ensure!(
                            (a, b) == (n1, n2) || (a, b) == (n2, n1),
                            format!("{name}/length-error-payload"),
                            "DifferentGenomeLength({a}, {b}) for parents of lengths {n1} and {n2}"
                        );
                        Ok(())
                    }
                    RecOut::Child(c) => fail!(
                        format!("{name}/different-lengths-accepted"),
                        "parents of lengths {n1} and {n2} produced a child of {} genes instead of an error",
                        c.len()
                    ),
                    RecOut::OtherErr(e) => fail!(
                        format!("{name}/different-lengths-wrong-error"),
                        "parents of lengths {n1} and {n2}: error {e} instead of DifferentGenomeLength"
                    ),
                }
            } else {
                match out {
                    RecOut::Child(src) => {
                        let mixed = check_sources(&name, *two_point, n1, &src)?;
                        probe.nontrivial = n1 >= 2 && mixed;
                        if n1 == 0 {
                            probe.label("empty parents");
                        }
                        Ok(())
                    }
                    RecOut::LenErr(a, b) => fail!(
                        format!("{name}/spurious-length-error"),
                        "equal-length parents ({n1}) rejected with DifferentGenomeLength({a},{b})"
                    ),
                    RecOut::OtherErr(e) => fail!(
                        format!("{name}/spurious-error"),
                        "equal-length parents ({n1}) rejected with {e}"
                    ),
                }
            }
        }
        Case::Gene { a, b, index } => {
            let (mut x, mut y) = (Bitstring { bits: a.clone() }, Bitstring { bits: b.clone() });
            let i = *index;
            let r = guarded(|| x.crossover_gene(&mut y, i).map_err(|e| format!("{e}")));
            let in_range = i < a.len() && i < b.len();
            probe.nontrivial = true;
            probe.label(if in_range { "gene in range" } else { "gene out of range" });
            match r {
                Err(p) => fail!("crossover_gene/panic", "crossover_gene({i}) on lengths {} and {} panicked: {p}", a.len(), b.len()),
                Ok(Err(e)) => {
                    ensure!(!in_range, "crossover_gene/spurious-error", "crossover_gene({i}) on lengths {} and {}: {e}", a.len(), b.len());
                    Ok(())
                }
                Ok(Ok(())) => {
                    ensure!(in_range, "crossover_gene/out-of-range-accepted", "crossover_gene({i}) on lengths {} and {} returned Ok", a.len(), b.len());
                    let (mut ea, mut eb) = (a.clone(), b.clone());
                    std::mem::swap(&mut ea[i], &mut eb[i]);
                    ensure!(
                        x.bits == ea && y.bits == eb,
                        "crossover_gene/wrong-exchange",
                        "crossover_gene({i}): {a:?}/{b:?} became {:?}/{:?}, expected {ea:?}/{eb:?}",
                        x.bits,
                        y.bits
                    );
                    Ok(())
                }
            }
        }
        Case::Segment { a, b, start, end } => {
            let (mut x, mut y) = (Bitstring { bits: a.clone() }, Bitstring { bits: b.clone() });
            let (s, e) = (*start, *end);
            let r = guarded(|| x.crossover_segment(&mut y, s..e).map_err(|er| format!("{er}")));
            let min = a.len().min(b.len());
            let inverted = s > e;
            let in_range = !inverted && e <= min;
            probe.nontrivial = true;
            probe.label(if inverted { "segment inverted" } else if in_range { "segment in range" } else { "segment out of range" });
            match r {
                Err(p) => {
                    let aspect = if inverted { "panic-inverted-range" } else { "panic-range" };
                    fail!(
                        format!("crossover_segment/{aspect}"),
                        "crossover_segment({s}..{e}) on lengths {} and {} panicked: {p}",
                        a.len(),
                        b.len()
                    )
                }
                Ok(Err(er)) => {
                    ensure!(!in_range, "crossover_segment/spurious-error", "crossover_segment({s}..{e}) on lengths {} and {}: {er}", a.len(), b.len());
                    Ok(())
                }
                Ok(Ok(())) => {
                    if inverted {
                        ensure!(
                            x.bits == *a && y.bits == *b,
                            "crossover_segment/inverted-range-changed-genomes",
                            "crossover_segment({s}..{e}) returned Ok but changed the genomes"
                        );
                        return Ok(());
                    }
                    ensure!(in_range, "crossover_segment/out-of-range-accepted", "crossover_segment({s}..{e}) on lengths {} and {} returned Ok", a.len(), b.len());
                    let (mut ea, mut eb) = (a.clone(), b.clone());
                    for i in s..e {
                        std::mem::swap(&mut ea[i], &mut eb[i]);
                    }
                    ensure!(
                        x.bits == ea && y.bits == eb,
                        "crossover_segment/wrong-exchange",
                        "crossover_segment({s}..{e}): {a:?}/{b:?} became {:?}/{:?}, expected {ea:?}/{eb:?}",
                        x.bits,
                        y.bits
                    );
                    Ok(())
                }
            }
        }
    }
}

fn index_near(a: usize, b: usize) -> BoxedStrategy<usize> {
    let mut pts = vec![0usize, 1, usize::MAX, usize::MAX - 1];
    for l in [a, b] {
        pts.extend([l.saturating_sub(1), l, l + 1, l / 2]);
    }
    prop_oneof![3 => proptest::sample::select(pts), 1 => 0usize..=(a.max(b) + 2)].boxed()
}

pub fn strategy(max_len: usize) -> BoxedStrategy<Case> {
    let bitsv = move || prop::collection::vec(any::<bool>(), 0..=max_len);
    let recombine = (
        any::<bool>(),
        any::<bool>(),
        any::<bool>(),
        prop_oneof![4 => prop::collection::vec(any::<bool>(), 0..=12usize.min(max_len)), 1 => bitsv()],
        prop_oneof![
            6 => Just(None::<usize>),         // complement, equal length
            2 => (0usize..=max_len).prop_map(Some), // different (or equal by chance) length
        ],
        any::<bool>(),
        crate::rngs::script_strategy(16),
        any::<u64>(),
    )
        .prop_map(|(two_point, tuple, bits, p1, other_len, random_p2, script, s)| {
            let p2 = match other_len {
                None if !random_p2 || !bits => None,
                None => Some((0..p1.len()).map(|i| crate::splitmix(s ^ i as u64) & 1 == 1).collect()),
                Some(n) => Some((0..n).map(|i| crate::splitmix(s ^ i as u64) & 1 == 1).collect()),
            };
            Case::Recombine {
                two_point,
                tuple,
                bits,
                p1,
                p2,
                script,
                gene: (s % u64::from(GENE_KINDS)) as u8,
            }
        });
    let small = || prop::collection::vec(any::<bool>(), 0..=8);
    let gene = (small(), prop_oneof![3 => Just(None), 1 => small().prop_map(Some)]).prop_flat_map(|(a, b)| {
        let b = b.unwrap_or_else(|| a.iter().map(|x| !x).collect());
        let (la, lb) = (a.len(), b.len());
        (Just(a), Just(b), index_near(la, lb)).prop_map(|(a, b, index)| Case::Gene { a, b, index })
    });
    let segment = (small(), prop_oneof![3 => Just(None), 1 => small().prop_map(Some)]).prop_flat_map(|(a, b)| {
        let b = b.unwrap_or_else(|| a.iter().map(|x| !x).collect());
        let (la, lb) = (a.len(), b.len());
        (Just(a), Just(b), index_near(la, lb), index_near(la, lb)).prop_map(|(a, b, start, end)| Case::Segment { a, b, start, end })
    });
    let custom = (
        any::<bool>(),
        any::<bool>(),
        prop_oneof![4 => 0usize..=12usize.min(max_len), 1 => 0usize..=max_len],
        prop_oneof![5 => Just(None::<usize>), 1 => (0usize..=max_len).prop_map(Some)],
        crate::rngs::script_strategy(16),
        prop_oneof![3 => Just(None::<u8>), 1 => (0u8..4).prop_map(Some), 1 => any::<u8>().prop_map(Some)],
    )
        .prop_map(|(two_point, tuple, n1, other, script, fail_call)| Case::Custom { two_point, tuple, n1, n2: other.unwrap_or(n1), script, fail_call });
    prop_oneof![5 => recombine, 2 => gene, 3 => segment, 2 => custom].boxed()
}

/// every interval [a,b) with 0 <= a < b <= len, and the empty segment, must occur over seeds
fn two_point_coverage(ctx: &mut Ctx) {
    let n_seeds = ctx.tier.pick(20_000u64, 400_000);
    for (bits, kind) in [(false, 0u8), (false, 1), (false, 2), (false, 3), (true, 0)] {
        for len in 0usize..=6 {
            let name = impl_name(true, bits, false);
            let genes = if bits { String::new() } else { format!(" (genes of type {})", GENE_KIND_NAMES[usize::from(kind)]) };
            let sub = "two_point_segment_coverage";
            let mut seen = std::collections::BTreeSet::new();
            let mut failure: Option<Fail> = None;
            let p1: Vec<bool> = (0..len).map(|i| i % 2 == 0).collect();
            let p2: Vec<bool> = p1.iter().map(|b| !b).collect();
            for k in 0..n_seeds {
                let mut rng = StdRng::seed_from_u64(derive_seed(ctx.seed, "C10", &name, k ^ ((len as u64) << 40)));
                let out = guarded(|| {
                    if bits {
                        recombine_bits(true, false, &p1, &p2, &mut rng).0
                    } else {
                        recombine_vec_kind(kind, true, false, len, len, &mut rng)
                    }
                });
                match out {
                    Err(p) => {
                        let aspect = if len == 0 { "panic-empty" } else { "panic" };
                        failure = Some(Fail::new(format!("{name}/{aspect}"), format!("two-point crossover of two parents of length {len}{genes} panicked: {p}")));
                        break;
                    }
                    Ok(RecOut::Child(src)) => {
                        if let Err(f) = check_sources(&name, true, len, &src) {
                            failure = Some(f);
                            break;
                        }
                        let twos: Vec<usize> = src.iter().enumerate().filter(|(_, s)| **s == Some(2)).map(|(i, _)| i).collect();
                        let seg = match (twos.first(), twos.last()) {
                            (Some(a), Some(b)) => (*a, *b + 1),
                            _ => (0, 0),
                        };
                        seen.insert(seg);
                    }
                    Ok(_) => {
                        failure = Some(Fail::new(format!("{name}/spurious-error"), format!("equal-length parents ({len}) rejected")));
                        break;
                    }
                }
            }
            ctx.count(sub, n_seeds);
            let mut expected = vec![(0usize, 0usize)];
            for a in 0..len {
                for b in (a + 1)..=len {
                    expected.push((a, b));
                }
            }
            let missing: Vec<(usize, usize)> = expected.iter().filter(|s| !seen.contains(s)).copied().collect();
            if failure.is_none() && !missing.is_empty() {
                let all_touch_end = missing.iter().all(|(_, b)| *b == len);
                let all_touch_start = missing.iter().all(|(a, b)| *a == 0 && *b > 0);
                let aspect = if all_touch_end {
                    "segment-never-touches-end"
                } else if all_touch_start {
                    "segment-never-touches-start"
                } else if missing == vec![(0, 0)] {
                    "empty-segment-never-occurs"
                } else {
                    "segment-never-occurs"
                };
                failure = Some(Fail::new(
                    format!("{name}/{aspect}"),
                    format!("over {n_seeds} seeded crossovers of {len}-gene parents{genes} the second parent never contributed the segment(s) {missing:?} (half-open position ranges); each admissible segment has probability >= 1/{} under uniform cut points", (len + 1) * (len + 1)),
                ));
            }
            if len >= 1 {
                ctx.note_nontrivial(crate::fnv(&format!("cov{bits}{kind}{len}")));
            }
            ctx.add_label(sub, &format!("{name}{genes} len {len}: {} of {} segments seen", seen.len().min(expected.len()), expected.len()), 1);
            if let Some(f) = failure {
                ctx.violation(sub, &f, json!({"impl": name, "len": len, "seeds": n_seeds, "gene_kind": kind}));
            }
        }
    }
}

/// longer parents: the segment taken from the second parent must be able to start at position 0,
/// to end at the last position, to be empty and to lie strictly inside (each with probability
/// >= 1/(len+1) under uniform cut points), and is one contiguous interval in every draw
fn two_point_coverage_long(ctx: &mut Ctx) {
    let n_seeds = ctx.tier.pick(20_000u64, 200_000);
    let sub = "two_point_segment_coverage_long";
    for bits in [false, true] {
        for len in [33usize, 64, 65, 130, 257] {
            let name = impl_name(true, bits, false);
            let p1: Vec<bool> = (0..len).map(|i| i % 2 == 0).collect();
            let p2: Vec<bool> = p1.iter().map(|b| !b).collect();
            let (mut at_start, mut at_end, mut empty, mut inside) = (0u64, 0u64, 0u64, 0u64);
            let mut failure: Option<Fail> = None;
            for k in 0..n_seeds {
                let mut rng = StdRng::seed_from_u64(derive_seed(ctx.seed, "C10", &name, k ^ ((len as u64) << 40) ^ 0x10E6));
                let out = guarded(|| if bits { recombine_bits(true, false, &p1, &p2, &mut rng).0 } else { recombine_vec(true, false, len, len, &mut rng) });
                match out {
                    Err(p) => {
                        failure = Some(Fail::new(format!("{name}/panic"), format!("two-point crossover of two parents of length {len} panicked: {p}")));
                        break;
                    }
                    Ok(RecOut::Child(src)) => {
                        if let Err(f) = check_sources(&name, true, len, &src) {
                            failure = Some(f);
                            break;
                        }
                        let twos: Vec<usize> = src.iter().enumerate().filter(|(_, s)| **s == Some(2)).map(|(i, _)| i).collect();
                        match (twos.first(), twos.last()) {
                            (Some(a), Some(b)) => {
                                at_start += u64::from(*a == 0);
                                at_end += u64::from(*b + 1 == len);
                                inside += u64::from(*a > 0 && *b + 1 < len);
                            }
                            _ => empty += 1,
                        }
                    }
                    Ok(_) => {
                        failure = Some(Fail::new(format!("{name}/spurious-error"), format!("equal-length parents ({len}) rejected")));
                        break;
                    }
                }
            }
            ctx.count(sub, n_seeds);
            ctx.note_nontrivial(crate::fnv(&format!("covlong{bits}{len}")));
            ctx.add_label(sub, &format!("{name} len {len}: segments at start {at_start}, at end {at_end}, empty {empty}, inside {inside}"), 1);
            if failure.is_none() {
                // stated assumption (as for the short lengths): every single segment has probability >= 1/(len+1)^2.
                // The classes "touches the start" / "touches the end" hold len segments each; the empty segment is a
                // single outcome, so it is only demanded where the assumption makes its absence a 1e-13 event.
                let expect_empty = n_seeds as f64 / ((len + 1) * (len + 1)) as f64;
                let missing = [
                    ("segment-never-touches-start", at_start, true),
                    ("segment-never-touches-end", at_end, true),
                    ("empty-segment-never-occurs", empty, expect_empty >= 30.0),
                    ("segment-never-occurs", inside, true),
                ];
                if let Some((aspect, _, _)) = missing.iter().find(|(_, k, demanded)| *k == 0 && *demanded) {
                    failure = Some(Fail::new(
                        format!("{name}/{aspect}"),
                        format!("over {n_seeds} seeded crossovers of {len}-gene parents: segments starting at 0: {at_start}, ending at {len}: {at_end}, empty: {empty}, strictly inside: {inside}; assuming every single segment has probability >= 1/{}", (len + 1) * (len + 1)),
                    ));
                }
            }
            if let Some(f) = failure {
                ctx.violation(sub, &f, json!({"impl": name, "len": len, "seeds": n_seeds}));
            }
        }
    }
}

/// uniform crossover: all 2^len source patterns at frequency 2^-len (independence of positions)
fn uniform_independence(ctx: &mut Ctx) {
    let n = ctx.tier.pick(200_000u64, 4_000_000);
    let mut counts_json = vec![];
    for flavour in 0u8..3 {
        let bits = flavour == 1;
        for len in 1usize..=4 {
            // flavour 2: a user-defined genome type that implements only the required items of the library's traits
            let name = if flavour == 2 { "UniformXo<user-defined genome>".to_string() } else { impl_name(false, bits, false) };
            let sub = "uniform_pattern_law";
            let p1: Vec<bool> = (0..len).map(|i| i % 2 == 0).collect();
            let p2: Vec<bool> = p1.iter().map(|b| !b).collect();
            let run = |n: u64, salt: u64, seed: u64| -> Result<Vec<u64>, Fail> {
                let mut hist = vec![0u64; 1 << len];
                let mut rng = StdRng::seed_from_u64(derive_seed(seed, "C10", &name, salt ^ ((len as u64) << 32)));
                for _ in 0..n {
                    let out = guarded(|| {
                        if flavour == 2 {
                            match recombine_custom(false, false, len, len, None, &mut rng).0 {
                                CustomOut::Child(src) => RecOut::Child(src),
                                CustomOut::LenErr(a, b) => RecOut::LenErr(a, b),
                                CustomOut::Primitive(e) => RecOut::OtherErr(format!("{e:?}")),
                            }
                        } else if bits {
                            recombine_bits(false, false, &p1, &p2, &mut rng).0
                        } else {
                            recombine_vec(false, false, len, len, &mut rng)
                        }
                    });
                    match out {
                        Ok(RecOut::Child(src)) => {
                            check_sources(&name, false, len, &src)?;
                            let code = src.iter().enumerate().fold(0usize, |acc, (i, s)| acc | (usize::from(*s == Some(2)) << i));
                            hist[code] += 1;
                        }
                        Ok(_) => return Err(Fail::new(format!("{name}/spurious-error"), "equal-length parents rejected")),
                        Err(p) => return Err(Fail::new(format!("{name}/panic"), p)),
                    }
                }
                Ok(hist)
            };
            let law = 1.0 / (1u64 << len) as f64;
            match run(n, 0, ctx.seed) {
                Err(f) => ctx.violation(sub, &f, json!({"impl": name, "len": len})),
                Ok(hist) => {
                    ctx.count(sub, n);
                    ctx.note_nontrivial(crate::fnv(&format!("uni{flavour}{len}")));
                    for (code, k) in hist.iter().enumerate() {
                        let c = Count { name: format!("{name} len {len} pattern {code:0len$b}"), k: *k, n, p: law };
                        counts_json.push(json!({"name": c.name, "k": c.k, "n": c.n, "p": c.p, "z": c.z()}));
                        if c.flagged() {
                            // confirmation stage: 8N fresh trials
                            let confirmed = run(8 * n, 1, ctx.seed).map(|h| Count { name: c.name.clone(), k: h[code], n: 8 * n, p: law }.flagged());
                            if confirmed.unwrap_or(true) {
                                let f = Fail::new(
                                    format!("{name}/positions-not-independent-or-biased"),
                                    format!("source pattern {code:0len$b} (bit i set = gene i from parent 2) occurred {k} times in {n} crossovers; expected frequency {law}"),
                                );
                                ctx.violation(sub, &f, json!({"impl": name, "len": len, "pattern": code}));
                            }
                        }
                    }
                }
            }
        }
    }
    ctx.extra.insert("uniform_pattern_counts".into(), json!(counts_json));
}

/// uniform crossover on long parents: every position is taken from the second parent with
/// probability 1/2 and positions any distance apart are decided independently (lags up to 257)
fn uniform_independence_long(ctx: &mut Ctx) {
    let trials = ctx.tier.pick(300_000u64, 6_000_000);
    let mut jobs = vec![];
    for bits in [false, true] {
        for tuple in [false, true] {
            for len in [70usize, 130, 520] {
                if tuple && len == 130 {
                    continue;
                }
                let name = impl_name(false, bits, tuple);
                let label = format!("{name} on parents of {len}");
                let name2 = name.clone();
                jobs.push(crate::stats::Job {
                    name: label.clone(),
                    run: Box::new(move |n, seed| {
                        let rows = (n / len as u64).max(1500);
                        let mut rng = StdRng::seed_from_u64(seed);
                        let mut acc = crate::props::c12::LagAcc::new(len);
                        let p1: Vec<bool> = (0..len).map(|i| i % 3 == 0).collect();
                        let p2: Vec<bool> = p1.iter().map(|b| !b).collect();
                        for _ in 0..rows {
                            let out = guarded(|| if bits { recombine_bits(false, tuple, &p1, &p2, &mut rng).0 } else { recombine_vec(false, tuple, len, len, &mut rng) });
                            match out {
                                Ok(RecOut::Child(src)) => {
                                    check_sources(&name2, false, len, &src)?;
                                    let from2: Vec<bool> = src.iter().map(|s| *s == Some(2)).collect();
                                    acc.add(&from2);
                                }
                                Ok(_) => return Err(Fail::new(format!("{name2}/spurious-error"), "equal-length parents rejected")),
                                Err(p) => return Err(Fail::new(format!("{name2}/panic"), p)),
                            }
                        }
                        Ok(acc.stats(&name2, &label, 0.5))
                    }),
                });
            }
        }
    }
    crate::stats::run_jobs(ctx, "uniform_long_parents", jobs, trials);
}

pub fn run(ctx: &mut Ctx) {
    ctx.rule = "generated parent pairs (tagged (parent, position) vectors with four gene types of different width and ownership; complementary or random bitstrings; a user-defined genome type with its own Linear + Crossover impls over a VecDeque of tagged genes, whose exchange primitives fail at a generated call - that error must come back and no child) of equal and different lengths through TwoPointXo / UniformXo in all four impls x array/tuple forms with a generated random stream; generated crossover_gene / crossover_segment calls with indices around both lengths, usize::MAX and inverted ranges; plus a second pass with parents of up to 700 genes, seeded coverage of all two-point segments for len <= 6 and of the segment classes (touching the start, touching the end, empty, strictly inside) for len 33..257 the exact 2^-len law of uniform-crossover source patterns for len <= 4, and on parents of 70 / 130 / 520 genes the per-position rate 1/2 and the agreement law 1/2 of disjoint position pairs at lags 1..257 (independence at a distance). non-trivial = len >= 2 and the child mixes both parents, or any misuse / primitive case; distinct by JSON encoding".into();
    ctx.assumptions.push("coverage check assumes every admissible two-point segment has probability >= 1/(len+1)^2; contents after an Err are not checked; an inverted range may return Ok (unchanged) or Err".into());
    let (n, max_len) = ctx.tier.pick((150_000u32, 60usize), (3_000_000, 500));
    ctx.run_prop("generated_cases", n, move || strategy(max_len), oracle);
    let (n_long, long_len) = ctx.tier.pick((20_000u32, 700usize), (300_000, 3_000));
    ctx.run_prop("generated_cases_long", n_long, move || strategy(long_len), oracle);
    two_point_coverage(ctx);
    two_point_coverage_long(ctx);
    uniform_independence(ctx);
    uniform_independence_long(ctx);
    // coverage-guided search over the same strategies and oracles (thorough tier; see ptfuzz.rs)
    crate::ptfuzz::thorough(ctx, &[("c10", 16, 1_500_000), ("c10L", 16, 200_000)]);
}

pub fn replay(ctx: &mut Ctx, sub: &str, case: &Value) {
    match sub {
        "two_point_segment_coverage" => two_point_coverage(ctx),
        "two_point_segment_coverage_long" => two_point_coverage_long(ctx),
        "uniform_pattern_law" => uniform_independence(ctx),
        "uniform_long_parents" => uniform_independence_long(ctx),
        _ => ctx.replay_case::<Case, _>(sub, case, oracle),
    }
}
