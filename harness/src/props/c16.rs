//! C16 — all randomness comes from the supplied generator; evaluation is deterministic.

use ec_core::distributions::collection::ConvertToCollectionGenerator;
use ec_core::distributions::conversion::{IntoDistribution, ToDistribution};
use ec_core::individual::ec::{EcIndividual, WithScorer};
use ec_core::operator::genome_extractor::GenomeExtractor;
use ec_core::operator::genome_scorer::GenomeScorer;
use ec_core::operator::mutator::{Mutate, Mutator};
use ec_core::operator::recombinator::{Recombinator, Recombine};
use ec_core::operator::selector::tournament::Tournament;
use ec_core::operator::selector::{Select, Selector};
use ec_core::operator::{Composable, Operator};
use ec_core::test_results::{Score, TestResults};
use ec_core::uniform_distribution_of;
use ec_linear::genome::bitstring::Bitstring;
use ec_linear::genome::vector::Vector;
use ec_linear::mutator::umad::Umad;
use ec_linear::mutator::with_one_over_length::WithOneOverLength;
use ec_linear::mutator::with_rate::WithRate;
use ec_linear::recombinator::two_point_xo::TwoPointXo;
use ec_linear::recombinator::uniform_xo::UniformXo;
use proptest::prelude::*;
use push::genome::plushy::{ConvertToGeneGenerator, Plushy, PushGene};
use push::instruction::PushInstruction;
use push::push_vm::State;
use rand::distr::{Distribution, StandardUniform};
use rand::RngCore;
use serde::{Deserialize, Serialize};
use serde_json::Value;

use crate::gen_vm::{program_case, QUICK_SHAPE};
use crate::model::real::{snap, Tables, VmCase};
use crate::props::c06::{population, spec_strategy};
use crate::rngs::Counting;
use crate::selharness::{build, Pop, Sel, Spec};
use crate::{ensure, fail, guarded, panic_key, Ctx, Fail, Probe};

#[derive(Clone, Debug, Serialize, Deserialize)]
pub enum OpDesc {
    Select { spec: Spec, results: Vec<Vec<i64>> },
    FlipRate { bitstring: bool, rate: f32, genome: Vec<bool> },
    OneOverLen { bitstring: bool, genome: Vec<bool> },
    Umad { plushy: bool, ctor: u8, add: f64, del: f64, len: usize },
    Xo { two_point: bool, bitstring: bool, len: usize },
    GenVec { len: usize },
    BitRandom { len: usize, p: Option<f64> },
    Choice { flavour: u8, items: Vec<i64> },
    GeneGen { n_instr: usize, close: Option<f32>, len: usize },
    IndGen { len: usize, n: usize },
    Pipeline { n: usize, len: usize, k: usize },
}

/// operator values built once per description and reused across the whole call history
enum Built {
    Select(Sel<Score<i64>>, Pop<Score<i64>>),
    FlipRate(WithRate),
    UmadV(Umad<ec_core::distributions::wrappers::owned::OneOfCloning<[i64; 3], i64>>),
    UmadP(Umad<ec_core::distributions::wrappers::owned::OneOfCloning<Vec<PushGene>, PushGene>>),
    Other,
}

fn build_op(d: &OpDesc) -> Result<Built, Fail> {
    let mk = |ctor: u8, a: f64, de: f64| -> (f64, f64, u8) { (a, de, ctor % 3) };
    Ok(match d {
        OpDesc::Select { spec, results } => {
            let pop = population::<Score<i64>>(results, |r| Score(r.iter().sum()));
            match build::<Score<i64>>(spec) {
                Ok(s) => Built::Select(s, pop),
                Err(_) => Built::Other,
            }
        }
        OpDesc::FlipRate { rate, .. } => Built::FlipRate(WithRate::new(*rate)),
        OpDesc::Umad { plushy, ctor, add, del, .. } => {
            let (a, de, c) = mk(*ctor, *add, *del);
            if *plushy {
                let genes: Vec<PushGene> = (0..4).map(|i| PushGene::Instruction(PushInstruction::push_int(1000 + i))).chain([PushGene::Close]).collect();
                let g = genes.into_distribution().map_err(|e| Fail::new("setup/distribution", e.to_string()))?;
                Built::UmadP(match c {
                    0 => Umad::new(a, de, g),
                    1 => Umad::new_with_empty_rate(a, 0.5, de, g),
                    _ => Umad::new_without_empty(a, de, g),
                })
            } else {
                let g = uniform_distribution_of![-1i64, -2, -3];
                Built::UmadV(match c {
                    0 => Umad::new(a, de, g),
                    1 => Umad::new_with_empty_rate(a, 0.5, de, g),
                    _ => Umad::new_without_empty(a, de, g),
                })
            }
        }
        _ => Built::Other,
    })
}

fn exec(d: &OpDesc, b: &Built, rng: &mut Counting) -> Result<String, Fail> {
    Ok(match (d, b) {
        (OpDesc::Select { .. }, Built::Select(s, pop)) => match s.select(pop, rng) {
            Ok(i) => format!("selected {}", i.genome),
            Err(e) => format!("error {:?}", e.kind()),
        },
        (OpDesc::Select { .. }, _) => "construction rejected".into(),
        (OpDesc::FlipRate { bitstring, genome, .. }, Built::FlipRate(m)) => {
            if *bitstring {
                let Ok(c) = m.mutate(Bitstring { bits: genome.clone() }, rng);
                format!("{c}")
            } else {
                let Ok(c) = m.mutate(genome.clone(), rng);
                format!("{c:?}")
            }
        }
        (OpDesc::OneOverLen { bitstring, genome }, _) => {
            if *bitstring {
                format!("{:?}", WithOneOverLength.mutate(Bitstring { bits: genome.clone() }, rng).map(|b| b.bits).map_err(|e| e.to_string()))
            } else {
                format!("{:?}", WithOneOverLength.mutate(genome.clone(), rng).map_err(|e| e.to_string()))
            }
        }
        (OpDesc::Umad { len, .. }, Built::UmadV(u)) => {
            let Ok(c) = u.mutate(Vector { genes: (0..*len as i64).collect::<Vec<_>>() }, rng);
            format!("{:?}", c.genes)
        }
        (OpDesc::Umad { len, .. }, Built::UmadP(u)) => {
            let Ok(c) = u.mutate(Plushy::new((0..*len as i64).map(|i| PushGene::Instruction(PushInstruction::push_int(i)))), rng);
            format!("{c}")
        }
        (OpDesc::Xo { two_point, bitstring, len }, _) => {
            let (p1, p2) = (vec![false; *len], vec![true; *len]);
            match (two_point, bitstring) {
                (true, false) => format!("{:?}", TwoPointXo.recombine([p1, p2], rng).map_err(|e| e.to_string())),
                (false, false) => format!("{:?}", UniformXo.recombine((p1, p2), rng).map_err(|e| e.to_string())),
                (true, true) => format!("{:?}", TwoPointXo.recombine((Bitstring { bits: p1 }, Bitstring { bits: p2 }), rng).map(|b| b.bits).map_err(|e| e.to_string())),
                (false, true) => format!("{:?}", UniformXo.recombine([Bitstring { bits: p1 }, Bitstring { bits: p2 }], rng).map(|b| b.bits).map_err(|e| e.to_string())),
            }
        }
        (OpDesc::GenVec { len }, _) => {
            let v: Vec<bool> = StandardUniform.to_collection_generator(*len).sample(rng);
            format!("{v:?}")
        }
        (OpDesc::BitRandom { len, p }, _) => match p {
            None => format!("{}", Bitstring::random(*len, rng)),
            Some(p) => format!("{}", Bitstring::random_with_probability(*len, *p, rng)),
        },
        (OpDesc::Choice { flavour, items }, _) => {
            if items.is_empty() {
                return Ok("empty".into());
            }
            match flavour % 4 {
                0 => format!("{}", items.clone().into_distribution().map_err(|e| Fail::new("setup/distribution", e.to_string()))?.sample(rng)),
                1 => {
                    let d = ToDistribution::<i64>::to_distribution(items).map_err(|e| Fail::new("setup/distribution", e.to_string()))?;
                    format!("{}", d.sample(rng))
                }
                2 => {
                    let d = ToDistribution::<&i64>::to_distribution(items).map_err(|e| Fail::new("setup/distribution", e.to_string()))?;
                    format!("{}", d.sample(rng))
                }
                _ => {
                    let s: &[i64] = items;
                    let d = IntoDistribution::<i64>::into_distribution(s).map_err(|e| Fail::new("setup/distribution", e.to_string()))?;
                    format!("{}", d.sample(rng))
                }
            }
        }
        (OpDesc::GeneGen { n_instr, close, len }, _) => {
            let instrs: Vec<PushInstruction> = (0..(*n_instr).max(1) as i64).map(PushInstruction::push_int).collect();
            let d = instrs.into_distribution().map_err(|e| Fail::new("setup/distribution", e.to_string()))?;
            let p: Plushy = match close {
                None => d.into_gene_generator().into_collection_generator(*len).sample(rng),
                Some(c) => d.into_gene_generator_with_close_probability(*c).into_collection_generator(*len).sample(rng),
            };
            format!("{p}")
        }
        (OpDesc::IndGen { len, n }, _) => {
            let pop: Vec<EcIndividual<Bitstring, TestResults<Score<i64>>>> = StandardUniform
                .to_collection_generator(*len)
                .with_scorer_fn(|b: &Bitstring| b.bits.iter().map(|x| i64::from(*x)).collect::<TestResults<Score<i64>>>())
                .into_collection_generator(*n)
                .sample(rng);
            format!("{:?}", pop.iter().map(|i| format!("{}", i.genome)).collect::<Vec<_>>())
        }
        (OpDesc::Pipeline { n, len, k }, _) => {
            // population from a fixed seed, so that only the pipeline's own draws matter
            let mut setup = Counting::new(99);
            let scorer = |b: &Bitstring| b.bits.iter().map(|x| i64::from(*x)).collect::<TestResults<Score<i64>>>();
            let pop: Vec<EcIndividual<Bitstring, TestResults<Score<i64>>>> =
                StandardUniform.to_collection_generator(*len).with_scorer_fn(scorer).into_collection_generator((*n).max(1)).sample(&mut setup);
            let sel = Tournament::new(std::num::NonZeroUsize::new((*k).max(1)).unwrap_or(std::num::NonZeroUsize::MIN));
            let pipeline = Select::new(sel)
                .apply_twice()
                .then_map(GenomeExtractor)
                .then(Recombine::new(TwoPointXo))
                .then(Mutate::new(WithOneOverLength))
                .wrap::<GenomeScorer<_, _>>(ec_core::individual::scorer::FnScorer(scorer));
            match pipeline.apply(&pop, rng) {
                Ok(ind) => format!("{} -> {:?}", ind.genome, ind.test_results.total_result),
                Err(e) => format!("error {e}"),
            }
        }
        _ => "unbuilt".into(),
    })
}

#[derive(Clone, Debug, Serialize, Deserialize)]
pub struct Case {
    pub ops: Vec<OpDesc>,
    /// (index into ops, seed)
    pub calls: Vec<(u8, u64)>,
    pub other_thread: bool,
}

pub fn oracle(c: &Case, probe: &mut Probe) -> Result<(), Fail> {
    if c.ops.is_empty() {
        return Ok(());
    }
    let built: Vec<Built> = c.ops.iter().map(build_op).collect::<Result<_, _>>()?;
    let mut seen: std::collections::BTreeMap<(usize, u64), (String, crate::rngs::Fp)> = std::collections::BTreeMap::new();
    let mut consumed_any = false;
    for (step, (oi, seed)) in c.calls.iter().enumerate() {
        let i = usize::from(*oi) % c.ops.len();
        let d = &c.ops[i];
        let name = format!("{d:?}").split([' ', '{', '(']).next().unwrap_or("op").to_string();
        let base = Counting::new(*seed);
        let (mut r1, mut r2) = (base.clone(), base.clone());
        let a = match guarded(|| exec(d, &built[i], &mut r1)) {
            Ok(r) => r?,
            Err(p) => fail!(format!("{name}/panic:{}", panic_key(&p)), "call {step}: {d:?} panicked: {p}"),
        };
        let b = match guarded(|| exec(d, &built[i], &mut r2)) {
            Ok(r) => r?,
            Err(p) => fail!(format!("{name}/panic:{}", panic_key(&p)), "call {step}: {d:?} panicked on the second run: {p}"),
        };
        let (f1, f2) = (r1.fingerprint(), r2.fingerprint());
        ensure!(
            a == b,
            format!("{name}/result-not-determined-by-generator"),
            "call {step}: two runs of {d:?} from equal generator states returned {a:?} and {b:?}"
        );
        ensure!(
            f1 == f2,
            format!("{name}/generator-state-differs"),
            "call {step}: two runs of {d:?} from equal generator states left the generators in different states ({f1:?} vs {f2:?})"
        );
        if let Some((prev, pf)) = seen.get(&(i, *seed)) {
            ensure!(
                *prev == a && *pf == f1,
                format!("{name}/history-dependent"),
                "call {step}: {d:?} with seed {seed} returned {a:?} but an earlier call on the same operator value with the same seed returned {prev:?} (state carried between calls)"
            );
        }
        seen.insert((i, *seed), (a.clone(), f1));
        consumed_any |= f1.words > 0;
        if c.other_thread && step == 0 {
            // a third run on another thread, after that thread's own generator has been used
            let r3 = std::thread::scope(|s| {
                s.spawn(|| {
                    let _ = rand::rng().next_u64();
                    let built_there = build_op(d)?;
                    let mut r = base.clone();
                    let out = exec(d, &built_there, &mut r)?;
                    Ok::<_, Fail>((out, r.fingerprint()))
                })
                .join()
            });
            match r3 {
                Ok(Ok((out, f3))) => ensure!(
                    out == a && f3 == f1,
                    format!("{name}/depends-on-ambient-state"),
                    "{d:?}: a run on another thread (fresh operator value, thread generator perturbed) returned {out:?} / {f3:?}, here {a:?} / {f1:?}"
                ),
                Ok(Err(f)) => return Err(f),
                Err(_) => fail!(format!("{name}/panic"), "{d:?} panicked on another thread"),
            }
        }
    }
    probe.nontrivial = consumed_any;
    if c.calls.len() >= 3 {
        probe.label("history of >= 3 calls");
    }
    Ok(())
}

fn op_strategy() -> BoxedStrategy<OpDesc> {
    let rate = || prop_oneof![Just(0.0f64), Just(1.0f64), 0.0f64..=1.0];
    let bits = || prop::collection::vec(any::<bool>(), 0..24);
    prop_oneof![
        4 => prop_oneof![3 => crate::props::c06::results_strategy(8), 2 => crate::props::c06::results_strategy(150)].prop_flat_map(|results| {
            let n = results.len();
            let m = results.iter().map(Vec::len).min().unwrap_or(0);
            (Just(results), spec_strategy(n, m, 2)).prop_map(|(results, spec)| OpDesc::Select { spec, results })
        }),
        // populations many hundred times the tournament size, full of individuals that tie on their results but are
        // different individuals: which of several equally good entrants wins must be decided by the generator alone
        1 => (520usize..1400, 0usize..3, 1usize..5, any::<u64>()).prop_map(|(n, m, k, s)| {
            let results = (0..n).map(|i| (0..m).map(|j| (crate::splitmix(s ^ ((i * 7 + j) as u64)) % 2) as i64).collect()).collect();
            let spec = match s % 4 {
                0 => Spec::Tournament(k),
                1 => Spec::Erased(Box::new(Spec::Tournament(k))),
                2 => Spec::Dyn(vec![(Spec::Tournament(k), 3), (Spec::Random, 1)]),
                _ => Spec::Tournament(1 + k / 3),
            };
            OpDesc::Select { spec, results }
        }),
        // many test cases / long inputs: whatever is buffered, chunked or cached beyond some size must not
        // make the outcome depend on anything but the arguments and the generator
        1 => (2usize..8, prop::sample::select(vec![65usize, 70, 130, 257]), any::<u64>()).prop_map(|(n, m, s)| {
            // in half of these one individual lacks its last results, so that some selections fail with
            // MissingTestCase part-way (an error path must leave nothing behind either)
            let short = if s % 2 == 0 { Some((s / 2) as usize % n) } else { None };
            let results = (0..n).map(|i| (0..if short == Some(i) { m - 1 - (s as usize / 7) % 3 } else { m }).map(|j| (crate::splitmix(s ^ ((i * 1000 + j) as u64)) % 4) as i64).collect()).collect();
            OpDesc::Select { spec: Spec::Lexicase(m), results }
        }),
        1 => (any::<bool>(), 0.0f32..=1.0, prop::collection::vec(any::<bool>(), 200..700)).prop_map(|(bitstring, rate, genome)| OpDesc::FlipRate { bitstring, rate, genome }),
        1 => (any::<bool>(), 0u8..3, rate(), rate(), 200usize..700).prop_map(|(plushy, ctor, add, del, len)| OpDesc::Umad { plushy, ctor, add, del, len }),
        1 => (any::<bool>(), any::<bool>(), 200usize..700).prop_map(|(two_point, bitstring, len)| OpDesc::Xo { two_point, bitstring, len }),
        1 => (0u8..4, prop::collection::vec(-9i64..9, 250..300)).prop_map(|(flavour, items)| OpDesc::Choice { flavour, items }),
        2 => (any::<bool>(), 0.0f32..=1.0, bits()).prop_map(|(bitstring, rate, genome)| OpDesc::FlipRate { bitstring, rate, genome }),
        1 => (any::<bool>(), bits()).prop_map(|(bitstring, genome)| OpDesc::OneOverLen { bitstring, genome }),
        3 => (any::<bool>(), 0u8..3, rate(), rate(), 0usize..16).prop_map(|(plushy, ctor, add, del, len)| OpDesc::Umad { plushy, ctor, add, del, len }),
        2 => (any::<bool>(), any::<bool>(), 0usize..16).prop_map(|(two_point, bitstring, len)| OpDesc::Xo { two_point, bitstring, len }),
        1 => (0usize..40).prop_map(|len| OpDesc::GenVec { len }),
        1 => (0usize..40, prop_oneof![Just(None), rate().prop_map(Some)]).prop_map(|(len, p)| OpDesc::BitRandom { len, p }),
        2 => (0u8..4, prop::collection::vec(-9i64..9, 1..7)).prop_map(|(flavour, items)| OpDesc::Choice { flavour, items }),
        2 => (1usize..8, prop_oneof![Just(None), (0.0f32..=1.0).prop_map(Some)], 0usize..20).prop_map(|(n_instr, close, len)| OpDesc::GeneGen { n_instr, close, len }),
        1 => (0usize..12, 0usize..6).prop_map(|(len, n)| OpDesc::IndGen { len, n }),
        2 => (1usize..8, 0usize..12, 1usize..4).prop_map(|(n, len, k)| OpDesc::Pipeline { n, len, k }),
    ]
    .boxed()
}

pub fn strategy() -> BoxedStrategy<Case> {
    (
        prop::collection::vec(op_strategy(), 1..4),
        prop::collection::vec((0u8..4, prop_oneof![3 => 0u64..3, 1 => any::<u64>()]), 1..8),
        prop::bool::weighted(0.1),
    )
        .prop_map(|(ops, calls, other_thread)| Case { ops, calls, other_thread })
        .boxed()
}

// ------------------------------------------------------------------ Push evaluation

#[derive(Clone, Debug, Serialize, Deserialize)]
pub struct PushCase {
    pub vm: VmCase,
    /// permutation source: inputs are declared in the order given by sorting on these keys
    pub order_keys: Vec<u8>,
}

pub fn push_oracle(t: &Tables, c: &PushCase, probe: &mut Probe) -> Result<(), Fail> {
    let n = c.vm.inputs.len();
    let mut order: Vec<usize> = (0..n).collect();
    order.sort_by_key(|i| (c.order_keys.get(*i).copied().unwrap_or(0), std::cmp::Reverse(*i)));
    let run = |order: Option<&[usize]>| -> Result<(bool, crate::model::real::Snap, push::push_vm::push_state::PushState), Fail> {
        let s = c.vm.real_with_order(t, c.vm.steps, order).map_err(|e| Fail::new("setup/state-construction", e))?;
        match guarded(move || s.run_to_completion()) {
            Err(p) => Err(Fail::new(format!("run/panic:{}", panic_key(&p)), p)),
            Ok(Ok(s)) => Ok((true, snap(&s), s)),
            Ok(Err(e)) => {
                let s = push::error::into_state::IntoState::into_state(e);
                Ok((false, snap(&s), s))
            }
        }
    };
    let same = |a: &crate::model::real::Snap, b: &crate::model::real::Snap| {
        a.exec == b.exec && a.int == b.int && a.boolean == b.boolean && a.out == b.out && a.maxes == b.maxes && a.float.len() == b.float.len() && a.float.iter().zip(&b.float).all(|(x, y)| x == y || (f64::from_bits(*x).is_nan() && f64::from_bits(*y).is_nan()))
    };
    let (ok1, s1, st1) = run(None)?;
    let (ok2, s2, st2) = run(None)?;
    ensure!(
        ok1 == ok2 && same(&s1, &s2) && st1 == st2,
        "push/nondeterministic",
        "two evaluations of the same program with the same inputs and limits ended differently:\n{st1:?}\n{st2:?}"
    );
    // Declaration order: the evaluation result (all stacks, output, limits, outcome kind) must not depend on it.
    // Whole-state equality is deliberately not used here: how the bindings are stored inside the state is a
    // matter of representation, and an order-keeping container would make `==` differ without any evaluation
    // result being different.
    let (ok3, s3, st3) = run(Some(&order))?;
    ensure!(
        ok1 == ok3 && same(&s1, &s3),
        "push/depends-on-input-declaration-order",
        "declaring the inputs in order {order:?} instead of 0..{n} changed the outcome:\n{st1:?}\n{st3:?}"
    );
    // What else the process has done with variable names is no input either: in one case out of eight a
    // thousand unrelated names are created between building the program and declaring its inputs.
    if n >= 1 && c.order_keys.first().is_some_and(|k| k % 8 == 0) {
        crate::model::real::OTHER_NAMES.with(|o| o.set(1100));
        let r4 = run(None);
        crate::model::real::OTHER_NAMES.with(|o| o.set(0));
        let (ok4, s4, st4) = r4?;
        ensure!(
            ok1 == ok4 && same(&s1, &s4),
            "push/depends-on-unrelated-variable-names",
            "creating 1100 unrelated variable names between building the program and declaring its inputs changed the outcome:\n{st1:?}\n{st4:?}"
        );
        probe.label("unrelated variable names created in between");
    }
    let uses_input = format!("{:?}", c.vm.exec).contains("Input");
    probe.nontrivial = n >= 1 && uses_input;
    if n >= 2 && order != (0..n).collect::<Vec<_>>() {
        probe.label("inputs declared in a permuted order");
    }
    Ok(())
}

pub fn push_strategy() -> BoxedStrategy<PushCase> {
    (program_case(&Tables::build(), QUICK_SHAPE), prop::collection::vec(any::<u8>(), 4)).prop_map(|(vm, order_keys)| PushCase { vm, order_keys }).boxed()
}

pub fn run(ctx: &mut Ctx) {
    ctx.rule = "operators: call histories [(operator, seed)...] over a registry of selectors (incl. weighted / dynamic / erased trees), WithRate, WithOneOverLength, Umad (3 constructors, Vector and Plushy), TwoPointXo / UniformXo (Vec, Bitstring), collection generators, Bitstring::random*, all choice flavours, gene generators, individual generators and the usual select-recombine-mutate-score pipeline; each call runs twice from clones of a word-counting generator (equal results, equal word counts, equal next word), repeats within a history must agree, and a third run happens on another thread (fresh operator value) after that thread's rand::rng() was used. push: generated programs run twice, once more with the inputs declared in a permuted order, and in an eighth of the cases once more with 1100 unrelated variable names created between building the program and declaring its inputs. non-trivial = the operation consumed >= 1 random word / the program mentions >= 1 input; distinct by JSON encoding".into();
    ctx.assumptions.push("'nothing else influences the outcome' can only be refuted by sampling".into());
    let (n, np) = ctx.tier.pick((150_000u32, 60_000u32), (3_000_000, 1_000_000));
    ctx.run_prop("operator_histories", n, strategy, oracle);
    ctx.run_prop(
        "push_evaluation",
        np,
        push_strategy,
        |c, p| {
            thread_local! { static T: Tables = Tables::build(); }
            T.with(|t| push_oracle(t, c, p))
        },
    );
    // coverage-guided search over the same strategies and oracles (thorough tier; see ptfuzz.rs)
    crate::ptfuzz::thorough(ctx, &[("c16", 12, 300_000), ("c16p", 4, 500_000)]);
}

pub fn replay(ctx: &mut Ctx, sub: &str, case: &Value) {
    if sub == "push_evaluation" {
        let t = Tables::build();
        ctx.replay_case::<PushCase, _>(sub, case, |c, p| push_oracle(&t, c, p));
    } else {
        ctx.replay_case::<Case, _>(sub, case, oracle);
    }
}
