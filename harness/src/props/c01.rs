//! C01 — Push programs evaluate to the state the instruction semantics prescribe.

use std::io::Write as _;

use push::instruction::printing::PrintChar;
use push::instruction::Instruction;
use push::push_vm::push_io::HasStdout;
use serde_json::{json, Value};

use crate::gen_vm::{program_case, single_step_case, QUICK_SHAPE, THOROUGH_SHAPE};
use crate::model::real::{Tables, VmCase};
use crate::model::vm::Ins;
use crate::vm_oracle::{ins_name, vm_oracle, VmOpts};
use crate::{fail, guarded, Ctx, Fail, Probe};

pub const SINGLE: VmOpts = VmOpts {
    sweep: false,
    full_sweep_upto: 0,
    labels: true,
};

pub fn programs_opts(full: usize) -> VmOpts {
    VmOpts {
        sweep: true,
        full_sweep_upto: full,
        labels: true,
    }
}

pub fn oracle_single(t: &Tables, c: &VmCase, p: &mut Probe) -> Result<(), Fail> {
    let s = vm_oracle(t, c, &SINGLE, p)?;
    p.nontrivial = s.effective_steps >= 1;
    Ok(())
}

pub fn oracle_program(t: &Tables, c: &VmCase, p: &mut Probe, full: usize) -> Result<(), Fail> {
    let s = vm_oracle(t, c, &programs_opts(full), p)?;
    p.nontrivial = s.effective_steps >= 1;
    if s.effective_steps >= 10 {
        p.label("programs with >= 10 effective steps");
    }
    if s.aborted {
        p.label("programs ending in overflow abort");
    }
    if s.hit_limit_with_work {
        p.label("programs hitting the step limit with work left");
    }
    if s.double_faults > 0 {
        p.label("programs with a double fault (underflow + full destination)");
    }
    if s.max_depth >= 3 {
        p.label("programs nested >= 3 deep");
    }
    Ok(())
}

fn print_char_cases(ctx: &mut Ctx, t: &Tables) {
    fn one<const C: char>(t: &Tables) -> Result<(), Fail> {
        let case = VmCase {
            instr: None,
            exec: vec![],
            int: vec![1],
            float: vec![],
            boolean: vec![true],
            max_exec: 2,
            max_int: 2,
            max_float: 2,
            max_bool: 2,
            inputs: vec![],
            steps: 1,
        };
        let mut s = case.real(t, 1).map_err(|e| Fail::new("setup/state-construction", e))?;
        write!(s.stdout(), "ab").map_err(|e| Fail::new("setup/stdout", e.to_string()))?;
        let before = s.clone();
        let r = guarded(move || PrintChar::<C>::new().perform(s));
        match r {
            Err(p) => fail!("PrintChar/panic", "PrintChar<{C:?}> panicked: {p}"),
            Ok(Err(_)) => fail!("PrintChar/outcome-kind", "PrintChar<{C:?}> failed"),
            Ok(Ok(mut s)) => {
                let out = s.stdout_string().unwrap_or_default();
                let expected = format!("ab{C}");
                if out != expected {
                    fail!("PrintChar/output", "PrintChar<{C:?}> printed {out:?}, expected {expected:?}");
                }
                // everything but the output unchanged
                let mut m = case.model();
                m.out = expected;
                if let Some((c, d)) = crate::model::real::diff(t, &s, &m) {
                    fail!(format!("PrintChar/{c}"), "PrintChar<{C:?}>: {d}");
                }
                let _ = before;
                Ok(())
            }
        }
    }
    let results = [
        ("a", one::<'a'>(t)),
        ("é", one::<'é'>(t)),
        ("emoji", one::<'\u{1F600}'>(t)),
        ("nul", one::<'\0'>(t)),
        ("newline", one::<'\n'>(t)),
    ];
    ctx.count("print_char", results.len() as u64);
    for (name, r) in results {
        ctx.note_nontrivial(crate::fnv(&format!("print_char{name}")));
        if let Err(f) = r {
            ctx.violation("print_char", &f, json!({"char": name}));
        }
    }
}

pub fn run(ctx: &mut Ctx) {
    let t = Tables::build();
    if !t.uncovered.is_empty() {
        ctx.inconclusive.push(format!(
            "instruction variants without a row in the reference semantics (DESIGN Appendix A): {:?}",
            t.uncovered
        ));
    }
    ctx.rule = "single_step: every instruction variant from the crate's enum iterators (+ literals, inputs, prints, blocks) performed on boundary-biased states (each stack size 0..6, slack 0..5, edge-heavy i64/f64 values); programs: recursive instruction/block trees and Plushy-derived programs with initial stacks, per-stack limits, 0-4 bound inputs, lock-step against the reference interpreter and run_to_completion under a sweep of step limits; stack-churn programs that fill, empty (Flush / Pop) and refill one typed stack of small maximum while other instructions push onto it. non-trivial = at least one executed instruction changed a stack or the output (model-reported); distinct by JSON encoding of the case".into();
    ctx.assumptions.push("std Display of i64/f64/bool and Rust `as` int->float rounding are trusted; double faults (missing operands and full destination) accept skip or abort; Power with exponent > u32::MAX accepts skip or the exact value".into());
    let (n_single, n_prog, shape, full) = ctx.tier.pick(
        (400_000u32, 40_000u32, QUICK_SHAPE, 48usize),
        (6_000_000, 400_000, THOROUGH_SHAPE, 64),
    );
    print_char_cases(ctx, &t);
    ctx.run_prop("single_step", n_single, || single_step_case(&Tables::build()), |c, p| {
        thread_local! { static T: Tables = Tables::build(); }
        T.with(|t| oracle_single(t, c, p))
    });
    ctx.run_prop("programs", n_prog, || program_case(&Tables::build(), shape), move |c, p| {
        thread_local! { static T: Tables = Tables::build(); }
        T.with(|t| oracle_program(t, c, p, full))
    });
    ctx.run_prop("stack_churn_programs", n_prog / 2, || crate::gen_vm::churn_case(&Tables::build()), move |c, p| {
        thread_local! { static T: Tables = Tables::build(); }
        T.with(|t| oracle_program(t, c, p, full))
    });
    // an instruction that failed for the values it met is met again at the same depths with other values
    ctx.run_prop("retry_after_a_value_dependent_failure", n_prog / 2, || crate::gen_vm::retry_case(&Tables::build()), move |c, p| {
        thread_local! { static T: Tables = Tables::build(); }
        T.with(|t| oracle_program(t, c, p, full))
    });
    // which variants were exercised with which outcome
    let mut never_ok: Vec<String> = vec![];
    let mut table = serde_json::Map::new();
    let mut names: Vec<String> = t.all_ops().iter().map(ins_name).collect();
    for extra in [Ins::PushInt(0), Ins::PushFloat(crate::model::vm::F(0)), Ins::PushBool(true), Ins::Input(0), Ins::PrintSpace, Ins::PrintNewline, Ins::PrintPeriod, Ins::PrintString(String::new())] {
        names.push(ins_name(&extra));
    }
    names.push("Exec-Push".into());
    names.push("Block".into());
    for n in names {
        let get = |o: &str| ctx.label_count("single_step", &format!("{n}:{o}")) + ctx.label_count("programs", &format!("{n}:{o}"));
        let (ok, skip, abort) = (get("ok"), get("skip"), get("abort"));
        if ok == 0 {
            never_ok.push(n.clone());
        }
        table.insert(n, json!({"ok": ok, "skip": skip, "abort": abort}));
    }
    ctx.extra.insert("instruction_outcomes".into(), Value::Object(table));
    ctx.extra.insert("variants_never_successful".into(), json!(never_ok));
    if !never_ok.is_empty() && ctx.violations().is_empty() {
        ctx.inconclusive.push(format!("variants never exercised successfully: {never_ok:?}"));
    }
    if ctx.tier == crate::Tier::Thorough && ctx.violations().is_empty() {
        let t = Tables::build();
        for bytes in crate::fuzzrun::campaign(ctx, "vm_diff", 16, 100_000, 768) {
            let c = crate::fuzzdec::decode_vm(&bytes, &t);
            let mut p = Probe::default();
            let opts = crate::vm_oracle::VmOpts { sweep: true, full_sweep_upto: 24, labels: false };
            if let Err(f) = crate::vm_oracle::vm_oracle(&t, &c, &opts, &mut p) {
                ctx.violation("fuzz_vm_diff", &f, serde_json::to_value(&c).unwrap_or(Value::Null));
            }
        }
    }
}

pub fn replay(ctx: &mut Ctx, sub: &str, case: &Value) {
    let t = Tables::build();
    match sub {
        "single_step" => ctx.replay_case::<VmCase, _>(sub, case, |c, p| oracle_single(&t, c, p)),
        "print_char" => print_char_cases(ctx, &t),
        _ => ctx.replay_case::<VmCase, _>(sub, case, |c, p| oracle_program(&t, c, p, 64)),
    }
}
