//! C13 — weighted combinations choose members in proportion to their weights.

use std::sync::atomic::Ordering;

use ec_core::operator::selector::dyn_weighted::DynWeighted;
use ec_core::operator::selector::Selector;
use ec_core::test_results::Score;
use ec_core::weighted::error::{SelectionError, WeightSumOverflow};
use ec_core::weighted::with_weighted_item::WithWeightedItem;
use ec_core::weighted::Weighted;
use proptest::prelude::*;
use rand::rngs::StdRng;
use rand::{Rng, SeedableRng};
use serde::{Deserialize, Serialize};
use serde_json::Value;

use crate::props::c06::population;
use crate::rngs::ScriptRng;
use crate::selharness::{build_w_with, build_with, Counters, Kind, Pop, Sel, Spec, WSpec};
use crate::stats::{run_jobs, Job, Stat};
use crate::{ensure, fail, guarded, panic_key, splitmix, Ctx, Fail, Probe};

type R = Score<i64>;

#[derive(Clone, Debug, Serialize, Deserialize)]
pub enum Shape {
    /// binary tree of real WeightedPair nodes over weighted markers (marker i returns individual i)
    Tree(WSpec),
    /// `Weighted::new(m0, w0).with_item_and_weight(m1, w1)...` (2..=5 members)
    Chain(Vec<u32>),
    /// DynWeighted list
    Dyn(Vec<usize>),
    /// DynWeighted list that is used (that many selections) after every member added, before it is complete
    DynGrown(Vec<usize>, u8),
}

#[derive(Clone, Debug, Serialize, Deserialize)]
pub struct Case {
    pub shape: Shape,
    pub script: Vec<u64>,
    pub draws: u8,
    /// select from an empty population: zero total weight is still the zero-weight error (and nobody is
    /// consulted); otherwise exactly one positive-weight member is consulted and its error reported
    #[serde(default)]
    pub empty_population: bool,
}

thread_local! {
    /// (pairs, pairs whose two successive selections used the same member) of the last `sample_shape` call
    static SUCCESSIVE: std::cell::Cell<(u64, u64, Option<usize>, u64)> = const { std::cell::Cell::new((0, 0, None, 0)) };
}

/// record one successful pick for the successive-selection statistic (disjoint pairs 2t, 2t+1)
fn note_pick(m: usize) {
    SUCCESSIVE.with(|c| {
        let (mut pairs, mut same, prev, t) = c.get();
        if t % 2 == 1 {
            pairs += 1;
            same += u64::from(prev == Some(m));
        }
        c.set((pairs, same, Some(m), t + 1));
    });
}

thread_local! {
    /// set by the oracle for cases that select from an empty population
    static EMPTY_POP: std::cell::Cell<bool> = const { std::cell::Cell::new(false) };
}

/// one individual per member (marker i returns individual i), at least 8
fn pop_for(shape: &Shape) -> Pop<R> {
    if EMPTY_POP.with(std::cell::Cell::get) {
        return Vec::new();
    }
    let members = match shape {
        Shape::Dyn(w) | Shape::DynGrown(w, _) => w.len(),
        _ => 8,
    };
    population::<R>(&vec![vec![1]; members.max(8)], |r| Score(r.iter().sum()))
}

/// (leaf weights in marker order, overflow expected?)
fn tree_weights(w: &WSpec, leaves: &mut Vec<u32>) -> (u64, bool) {
    match w {
        WSpec::Leaf(_, weight) => {
            leaves.push(*weight);
            (u64::from(*weight), false)
        }
        WSpec::Node(a, b) => {
            let (sa, oa) = tree_weights(a, leaves);
            let (sb, ob) = tree_weights(b, leaves);
            let s = sa + sb;
            (s, oa || ob || s > u64::from(u32::MAX))
        }
    }
}

fn renumber(w: &mut WSpec, next: &mut usize) {
    match w {
        WSpec::Leaf(s, _) => {
            **s = Spec::Marker(*next);
            *next += 1;
        }
        WSpec::Node(a, b) => {
            renumber(a, next);
            renumber(b, next);
        }
    }
}

enum Outcome {
    /// the population was empty: exactly one member was consulted and its own error came back
    MemberFailed(usize),
    Picked(usize),
    ZeroWeight,
    OtherError(String),
}

/// Perform one selection and report which marker ran, checking "exactly one marker, the right individual".
fn one_draw<S, G>(sel: &S, is_zero: impl Fn(&S::Error) -> bool, counters: &Counters, pop: &Pop<R>, rng: &mut G) -> Result<Outcome, Fail>
where
    S: Selector<Pop<R>>,
    S::Error: std::fmt::Debug,
    G: Rng + ?Sized,
{
    let before: Vec<u64> = counters.iter().map(|(_, c)| c.load(Ordering::Relaxed)).collect();
    let r = guarded(|| sel.select(pop, rng).map(|w| w.genome as usize).map_err(|e| (is_zero(&e), format!("{e:?}"))));
    let after: Vec<u64> = counters.iter().map(|(_, c)| c.load(Ordering::Relaxed)).collect();
    let called: Vec<usize> = before.iter().zip(&after).enumerate().filter(|(_, (b, a))| a > b).map(|(i, _)| i).collect();
    let total_calls: u64 = before.iter().zip(&after).map(|(b, a)| a - b).sum();
    match r {
        Err(p) => Err(Fail::new(format!("weighted/panic:{}", panic_key(&p)), format!("selection panicked: {p}"))),
        Ok(Err((zero, dbg))) => {
            if pop.is_empty() && !zero {
                // nobody to select: the combination still delegates to exactly one member, whose error is reported
                if total_calls != 1 {
                    return Err(Fail::new(
                        "weighted/not-exactly-one-member",
                        format!("selecting from an empty population failed with {dbg} after {total_calls} member calls (members {called:?}); exactly one member must be consulted and its error reported"),
                    ));
                }
                return Ok(Outcome::MemberFailed(called[0]));
            }
            if total_calls != 0 {
                return Err(Fail::new("weighted/member-called-despite-error", format!("selection failed ({dbg}) but members {called:?} were used")));
            }
            Ok(if zero { Outcome::ZeroWeight } else { Outcome::OtherError(dbg) })
        }
        Ok(Ok(id)) => {
            if total_calls != 1 {
                return Err(Fail::new(
                    "weighted/not-exactly-one-member",
                    format!("one selection delegated to {total_calls} member calls (members {called:?}); exactly one member must be used"),
                ));
            }
            let m = called[0];
            if counters[m].0 != id {
                return Err(Fail::new(
                    "weighted/result-not-from-chosen-member",
                    format!("member {m} was used but individual {id} was returned (member {m} returns individual {})", counters[m].0),
                ));
            }
            Ok(Outcome::Picked(m))
        }
    }
}

fn judge(weights: &[u64], out: Outcome, what: &str) -> Result<Option<usize>, Fail> {
    let total: u128 = weights.iter().map(|w| u128::from(*w)).sum();
    match out {
        Outcome::Picked(m) | Outcome::MemberFailed(m) => {
            ensure!(total > 0, "weighted/zero-total-selected", "{what}: all weights are zero but member {m} was used");
            ensure!(
                weights[m] > 0,
                "weighted/zero-weight-member-used",
                "{what}: member {m} has weight 0 but was used (weights {weights:?})"
            );
            Ok(Some(m))
        }
        Outcome::ZeroWeight => {
            ensure!(total == 0, "weighted/spurious-zero-weight-error", "{what}: zero-weight error although the weights are {weights:?}");
            Ok(None)
        }
        Outcome::OtherError(e) => fail!("weighted/unexpected-error", "{what}: weights {weights:?}: {e}"),
    }
}

fn top_zero<E>(e: &SelectionError<E>) -> bool {
    matches!(e, SelectionError::ZeroWeight(_))
}

/// Build the real chain with the public chaining API and run `f` on a closure that performs one draw.
fn with_chain<T>(
    weights: &[u32],
    mut members: Vec<Sel<R>>,
    counters: &Counters,
    f: &mut dyn FnMut(&dyn Fn(&Pop<R>, &mut dyn rand::RngCore) -> Result<Outcome, Fail>) -> T,
) -> Result<T, WeightSumOverflow> {
    members.reverse();
    let mut mk = || members.pop().unwrap_or(Sel::Best);
    macro_rules! run {
        ($chain:expr) => {{
            let c = $chain?;
            Ok(f(&|pop: &Pop<R>, mut rng: &mut dyn rand::RngCore| one_draw(&c, top_zero, counters, pop, &mut rng)))
        }};
    }
    match weights.len() {
        2 => {
            let (a, b) = (mk(), mk());
            run!(Weighted::new(a, weights[0]).with_item_and_weight(b, weights[1]))
        }
        3 => {
            let (a, b, c) = (mk(), mk(), mk());
            run!(Weighted::new(a, weights[0]).with_item_and_weight(b, weights[1]).with_item_and_weight(c, weights[2]))
        }
        4 => {
            let (a, b, c, d) = (mk(), mk(), mk(), mk());
            run!(Weighted::new(a, weights[0])
                .with_item_and_weight(b, weights[1])
                .with_item_and_weight(c, weights[2])
                .with_item_and_weight(d, weights[3]))
        }
        _ => {
            let (a, b, c, d, e) = (mk(), mk(), mk(), mk(), mk());
            run!(Weighted::new(a, weights[0])
                .with_item_and_weight(b, weights[1])
                .with_item_and_weight(c, weights[2])
                .with_item_and_weight(d, weights[3])
                .with_item_and_weight(e, weights[4]))
        }
    }
}

/// Draw `n` selections from a shape; returns per-member pick counts or the construction outcome.
fn sample_shape<G: rand::RngCore>(shape: &Shape, n: u64, rng: &mut G) -> Result<(Vec<u64>, Vec<u64>, bool), Fail> {
    SUCCESSIVE.with(|c| c.set((0, 0, None, 0)));
    let pop = pop_for(shape);
    match shape {
        Shape::Tree(w) => {
            let mut leaves = vec![];
            let (_, overflow) = tree_weights(w, &mut leaves);
            let weights: Vec<u64> = leaves.iter().map(|w| u64::from(*w)).collect();
            let mut counters = Counters::new();
            let built = guarded(|| build_w_with::<R>(w, &mut counters)).map_err(|p| Fail::new("weighted/construction-panic", p))?;
            match built {
                Err(_) => {
                    ensure!(overflow, "weighted/spurious-overflow-error", "tree {w:?} rejected although no partial sum exceeds u32::MAX");
                    Ok((vec![], weights, true))
                }
                Ok(sel) => {
                    ensure!(!overflow, "weighted/overflow-not-rejected", "tree {w:?} was built although a partial weight sum exceeds u32::MAX");
                    let mut picks = vec![0u64; weights.len()];
                    for _ in 0..n {
                        let out = one_draw(&sel, |e| e.kind() == Kind::ZeroWeight, &counters, &pop, rng)?;
                        if let Some(m) = judge(&weights, out, "static tree")? {
                            picks[m] += 1;
                            note_pick(m);
                        }
                    }
                    Ok((picks, weights, false))
                }
            }
        }
        Shape::Chain(ws) => {
            let mut ws: Vec<u32> = ws.iter().copied().take(5).collect();
            while ws.len() < 2 {
                ws.push(1);
            }
            let weights: Vec<u64> = ws.iter().map(|w| u64::from(*w)).collect();
            let mut prefix = 0u64;
            let mut overflow = false;
            for w in &weights {
                prefix += w;
                overflow |= prefix > u64::from(u32::MAX);
            }
            let mut counters = Counters::new();
            let members: Vec<Sel<R>> = (0..ws.len()).map(|i| build_with::<R>(&Spec::Marker(i), &mut counters).unwrap_or(Sel::Best)).collect();
            let mut picks = vec![0u64; weights.len()];
            let mut failure: Option<Fail> = None;
            let mut dynrng: &mut dyn rand::RngCore = rng;
            let built = guarded(|| {
                with_chain(&ws, members, &counters, &mut |draw| {
                    for _ in 0..n {
                        match draw(&pop, &mut dynrng).and_then(|o| judge(&weights, o, "chain")) {
                            Ok(Some(m)) => {
                                picks[m] += 1;
                                note_pick(m);
                            }
                            Ok(None) => {}
                            Err(f) => {
                                failure = Some(f);
                                break;
                            }
                        }
                    }
                })
            });
            let built = built.map_err(|p| Fail::new("weighted/construction-panic", p))?;
            if let Some(f) = failure {
                return Err(f);
            }
            match built {
                Err(_) => {
                    ensure!(overflow, "weighted/spurious-overflow-error", "chain {ws:?} rejected although no prefix sum exceeds u32::MAX");
                    Ok((vec![], weights, true))
                }
                Ok(()) => {
                    ensure!(!overflow, "weighted/overflow-not-rejected", "chain {ws:?} was built although a prefix sum exceeds u32::MAX");
                    Ok((picks, weights, false))
                }
            }
        }
        Shape::Dyn(ws) | Shape::DynGrown(ws, _) => {
            let between = if let Shape::DynGrown(_, u) = shape { u64::from(*u) } else { 0 };
            let weights: Vec<u64> = ws.iter().map(|w| *w as u64).collect();
            let mut counters = Counters::new();
            let mut members: Vec<Sel<R>> = (0..ws.len()).map(|i| build_with::<R>(&Spec::Marker(i), &mut counters).unwrap_or(Sel::Best)).collect();
            members.reverse();
            let Some(first) = members.pop() else { return Ok((vec![], weights, false)) };
            fn is_zero(e: &ec_core::operator::selector::dyn_weighted::DynWeightedError) -> bool {
                matches!(e, ec_core::operator::selector::dyn_weighted::DynWeightedError::ZeroWeightSum(rand::seq::WeightError::InsufficientNonZero))
            }
            let mut d = DynWeighted::new(first, ws[0]);
            let mut i = 1;
            loop {
                // selections from the list as far as it has been built: members not yet added have no weight
                let partial: Vec<u64> = weights.iter().enumerate().map(|(j, w)| if j < i { *w } else { 0 }).collect();
                for _ in 0..between {
                    let out = one_draw(&d, is_zero, &counters, &pop, rng)?;
                    judge(&partial, out, "dynamic list while it is being built")?;
                }
                let Some(m) = members.pop() else { break };
                d = d.with_selector(m, ws[i]);
                i += 1;
            }
            let mut picks = vec![0u64; weights.len()];
            for _ in 0..n {
                let out = one_draw(&d, is_zero, &counters, &pop, rng)?;
                if let Some(m) = judge(&weights, out, if between > 0 { "dynamic list completed after it had been used" } else { "dynamic list" })? {
                    picks[m] += 1;
                    note_pick(m);
                }
            }
            Ok((picks, weights, false))
        }
    }
}

pub fn oracle(c: &Case, probe: &mut Probe) -> Result<(), Fail> {
    let mut rng = ScriptRng::new(&c.script, 0xC13);
    EMPTY_POP.with(|e| e.set(c.empty_population));
    let sampled = sample_shape(&c.shape, u64::from(c.draws.max(1)), &mut rng);
    EMPTY_POP.with(|e| e.set(false));
    let (picks, weights, rejected) = sampled?;
    if c.empty_population {
        probe.label("selection from an empty population");
    }
    let positive: Vec<u64> = weights.iter().copied().filter(|w| *w > 0).collect();
    let mut distinct = positive.clone();
    distinct.sort_unstable();
    distinct.dedup();
    let depth = match &c.shape {
        Shape::Tree(w) => w.depth(),
        Shape::Chain(w) => w.len().saturating_sub(1),
        Shape::Dyn(_) => 1,
        Shape::DynGrown(..) => 2,
    };
    probe.nontrivial = weights.len() >= 3 && distinct.len() >= 2 && depth >= 2;
    if matches!(c.shape, Shape::DynGrown(..)) {
        probe.label("dynamic list used while it was being built");
    }
    if rejected {
        probe.label("construction rejected (weight total overflow)");
    }
    if positive.is_empty() {
        probe.label("all weights zero");
    }
    if weights.contains(&0) && !positive.is_empty() {
        probe.label("some weights zero");
    }
    let _ = picks;
    Ok(())
}

fn weight32() -> impl Strategy<Value = u32> {
    prop_oneof![
        3 => Just(0u32),
        3 => Just(1u32),
        2 => 2u32..12,
        1 => Just(1u32 << 31),
        1 => Just(u32::MAX - 1),
        1 => Just(u32::MAX),
        1 => Just(u32::MAX / 2),
        1 => any::<u32>(),
    ]
}

fn tree_strategy() -> BoxedStrategy<WSpec> {
    let leaf = weight32().prop_map(|w| WSpec::Leaf(Box::new(Spec::Marker(0)), w));
    leaf.prop_recursive(4, 8, 2, |inner| (inner.clone(), inner).prop_map(|(a, b)| WSpec::Node(Box::new(a), Box::new(b))))
        .prop_filter("at most 8 leaves", |w| {
            let mut l = vec![];
            tree_weights(w, &mut l);
            l.len() <= 8
        })
        .prop_map(|mut w| {
            renumber(&mut w, &mut 0);
            w
        })
        .boxed()
}

pub fn strategy() -> BoxedStrategy<Case> {
    let shape = prop_oneof![
        4 => tree_strategy().prop_map(Shape::Tree),
        3 => prop::collection::vec(weight32(), 2..=5).prop_map(Shape::Chain),
        2 => prop::collection::vec(prop_oneof![3 => Just(0usize), 3 => Just(1usize), 2 => 2usize..12, 1 => Just(1usize << 40)], 1..=6).prop_map(Shape::Dyn),
        2 => (prop::collection::vec(prop_oneof![3 => Just(0usize), 3 => Just(1usize), 2 => 2usize..12, 1 => Just(1usize << 40)], 2..=6), 1u8..4).prop_map(|(w, u)| Shape::DynGrown(w, u)),
    ];
    (shape, crate::rngs::script_strategy(16), 1u8..6, prop::bool::weighted(0.15))
        .prop_map(|(shape, script, draws, empty_population)| Case { shape, script, draws, empty_population })
        .boxed()
}

/// all binary tree shapes with `leaves` leaves, weights assigned left to right
fn tree_shapes(leaves: usize, next: &mut usize, weights: &[u32]) -> Vec<WSpec> {
    fn shapes(n: usize) -> Vec<WSpec> {
        if n == 1 {
            return vec![WSpec::Leaf(Box::new(Spec::Marker(0)), 0)];
        }
        let mut out = vec![];
        for l in 1..n {
            for a in shapes(l) {
                for b in shapes(n - l) {
                    out.push(WSpec::Node(Box::new(a.clone()), Box::new(b)));
                }
            }
        }
        out
    }
    fn assign(w: &mut WSpec, i: &mut usize, weights: &[u32]) {
        match w {
            WSpec::Leaf(s, weight) => {
                **s = Spec::Marker(*i);
                *weight = weights[*i % weights.len()];
                *i += 1;
            }
            WSpec::Node(a, b) => {
                assign(a, i, weights);
                assign(b, i, weights);
            }
        }
    }
    let _ = next;
    shapes(leaves)
        .into_iter()
        .map(|mut s| {
            assign(&mut s, &mut 0, weights);
            s
        })
        .collect()
}

fn law_jobs(seed: u64) -> Vec<Job> {
    let mut shapes: Vec<Shape> = vec![];
    let weight_sets: Vec<Vec<u32>> = vec![
        vec![1, 2, 3, 10, 0],
        vec![0, 1, 0, 7, 2],
        vec![1 << 31, 1 << 30, 1 << 30, 3, 1],
        vec![u32::MAX - 1, 1, 0, 0, 0],
        vec![5, 5, 5, 5, 5],
        (0..5).map(|i| (splitmix(seed ^ i) % 50) as u32).collect(),
        (0..5).map(|i| (splitmix(seed ^ (i + 77)) % 1000) as u32 * 4000).collect(),
    ];
    for (wi, ws) in weight_sets.iter().enumerate() {
        for leaves in 2..=5usize {
            let all = tree_shapes(leaves, &mut 0, ws);
            // every shape for the first weight set, a seed-dependent one for the others
            for (si, t) in all.iter().enumerate() {
                if wi == 0 || si as u64 == splitmix(seed ^ wi as u64 ^ (leaves as u64) << 8) % all.len() as u64 {
                    shapes.push(Shape::Tree(t.clone()));
                }
            }
            shapes.push(Shape::Chain(ws[..leaves].to_vec()));
        }
        shapes.push(Shape::Dyn(ws.iter().map(|w| *w as usize).collect()));
        shapes.push(Shape::DynGrown(ws.iter().map(|w| *w as usize).collect(), 1 + (wi % 3) as u8));
    }
    // dynamic lists take usize weights: weights beyond 32 bits (and totals beyond 33, 40, 62 bits) weigh what they say
    for ws in [
        vec![3usize << 32, 1 << 32],
        vec![1 << 31, 1 << 33],
        vec![u32::MAX as usize + 1, u32::MAX as usize, 1 << 32],
        vec![1 << 40, 3 << 40, 0, 1 << 41],
        vec![1 << 61, 1 << 60, 1 << 60],
        vec![5, u32::MAX as usize * 5],
    ] {
        shapes.push(Shape::Dyn(ws.clone()));
        shapes.push(Shape::DynGrown(ws, 1));
    }
    // long dynamic lists (a size-dependent fast path must not hide behind lists of <= 6 members)
    for (len, modulus) in [(17usize, 5u64), (40, 7), (130, 3), (300, 11)] {
        let ws: Vec<usize> = (0..len as u64).map(|i| (splitmix(seed ^ 0xD1 ^ i << 16 ^ len as u64) % modulus) as usize).collect();
        shapes.push(Shape::Dyn(ws.clone()));
        if len <= 40 {
            shapes.push(Shape::DynGrown(ws, 1));
        }
    }
    shapes
        .into_iter()
        .enumerate()
        .map(|(k, shape)| {
            let name = format!("#{k} {shape:?}").replace("Leaf(Marker(", "L(").replace("Node(", "N(");
            Job {
                name: name.clone(),
                run: Box::new(move |trials, seed| {
                    let mut rng = StdRng::seed_from_u64(seed);
                    let (picks, weights, rejected) = sample_shape(&shape, trials, &mut rng)?;
                    if rejected {
                        return Ok(vec![]);
                    }
                    let total: u64 = weights.iter().sum();
                    if total == 0 {
                        return Ok(vec![]);
                    }
                    let mut stats: Vec<Stat> = weights
                        .iter()
                        .enumerate()
                        .map(|(i, w)| Stat::new("weighted/not-proportional", format!("{name}: member {i} (weight {w}) used"), picks[i], trials, *w as f64 / total as f64))
                        .collect();
                    // successive selections are independent: two in a row use the same member with probability sum p_i^2
                    let (pairs, same, _, _) = SUCCESSIVE.with(std::cell::Cell::get);
                    let p_same: f64 = weights.iter().map(|w| (*w as f64 / total as f64).powi(2)).sum();
                    stats.push(Stat::new("weighted/successive-selections-not-independent", format!("{name}: two successive selections use the same member"), same, pairs, p_same.min(1.0)));
                    Ok(stats)
                }),
            }
        })
        .collect()
}

/// Statically typed chains in which a member is itself a weighted chain that was given a weight of its own
/// (`Weighted::new(sub_chain, w)` / `.with_item_and_weight(sub_chain, w)`): the wrapper's weight decides how
/// often the sub-chain is used, the sub-chain's own weights how its members share that. Real types all the way
/// down (no harness enum between the levels).
fn rewrapped_jobs(seed: u64) -> Vec<Job> {
    let mut jobs = vec![];
    // (a, b) weights inside the sub-chain, w its weight as a member, c the weight of the plain member beside it
    let sets: Vec<[u32; 4]> = vec![[1, 1, 6, 2], [3, 3, 2, 2], [1, 3, 4, 4], [5, 1, 1, 3], [2, 7, 9, 1], [1, 1, 2, 2], [4, 1, 40, 3], [(splitmix(seed) % 9 + 1) as u32, (splitmix(seed ^ 1) % 9 + 1) as u32, (splitmix(seed ^ 2) % 20 + 1) as u32, (splitmix(seed ^ 3) % 9 + 1) as u32]];
    for (k, [a, b, w, c]) in sets.into_iter().enumerate() {
        for form in 0..3u8 {
            let name = format!(
                "{} with sub = Weighted(m0, {a}).with(m1, {b})",
                match form {
                    0 => format!("Weighted::new(sub, {w}).with_item_and_weight(m2, {c})"),
                    1 => format!("Weighted::new(m2, {c}).with_item_and_weight(sub, {w})"),
                    _ => format!("Weighted::new(sub, {w}).with_item_and_weight(sub', {c}) (sub' = Weighted(m2, {b}).with(m3, {a}))"),
                }
            );
            let _ = k;
            jobs.push(Job {
                name: name.clone(),
                run: Box::new(move |trials, seed| {
                    let trials = trials / 2;
                    let mut counters = Counters::new();
                    let mut m = |i: usize| build_with::<R>(&Spec::Marker(i), &mut counters).unwrap_or(Sel::Best);
                    let (m0, m1, m2, m3) = (m(0), m(1), m(2), m(3));
                    let pop = population::<R>(&vec![vec![1]; 8], |r| Score(r.iter().sum()));
                    let mut rng = StdRng::seed_from_u64(seed);
                    let mut picks = [0u64; 4];
                    let overflow = |_| Fail::new("weighted/spurious-overflow", format!("{name}: construction rejected"));
                    let sub = Weighted::new(m0, a).with_item_and_weight(m1, b).map_err(overflow)?;
                    macro_rules! sample {
                        ($chain:expr) => {{
                            let chain = $chain.map_err(overflow)?;
                            for _ in 0..trials {
                                match one_draw(&chain, |_| false, &counters, &pop, &mut rng)? {
                                    Outcome::Picked(i) => picks[i] += 1,
                                    other => {
                                        let what = match other {
                                            Outcome::OtherError(e) => e,
                                            Outcome::ZeroWeight => "zero-weight error".to_string(),
                                            _ => "no member used".to_string(),
                                        };
                                        return Err(Fail::new("weighted/unexpected-error", format!("{name}: {what}")));
                                    }
                                }
                            }
                        }};
                    }
                    let (wf, cf, af, bf) = (f64::from(w), f64::from(c), f64::from(a), f64::from(b));
                    let law: [f64; 4] = match form {
                        0 => {
                            sample!(Weighted::new(sub, w).with_item_and_weight(m2, c));
                            [wf / (wf + cf) * af / (af + bf), wf / (wf + cf) * bf / (af + bf), cf / (wf + cf), 0.0]
                        }
                        1 => {
                            sample!(Weighted::new(m2, c).with_item_and_weight(sub, w));
                            [wf / (wf + cf) * af / (af + bf), wf / (wf + cf) * bf / (af + bf), cf / (wf + cf), 0.0]
                        }
                        _ => {
                            let sub2 = Weighted::new(m2, b).with_item_and_weight(m3, a).map_err(overflow)?;
                            sample!(Weighted::new(sub, w).with_item_and_weight(sub2, c));
                            [wf / (wf + cf) * af / (af + bf), wf / (wf + cf) * bf / (af + bf), cf / (wf + cf) * bf / (af + bf), cf / (wf + cf) * af / (af + bf)]
                        }
                    };
                    Ok((0..4).map(|i| Stat::new("weighted/not-proportional", format!("{name}: member {i} used"), picks[i], trials, law[i])).collect())
                }),
            });
        }
    }
    jobs
}

pub fn run(ctx: &mut Ctx) {
    ctx.rule = "marker selectors (member i returns individual i and counts its calls) combined by real WeightedPair trees (all binary shapes up to 5 leaves for the laws, generated shapes up to 8 leaves for the invariants), real with_item_and_weight chains of 2..5 members and DynWeighted lists (also lists that are used for selections while they are still being extended with with_selector); weights from {0,1,2..,2^31,u32::MAX-1,u32::MAX} u random, for the dynamic lists also weights of 2^32..2^61. Invariants per selection: exactly one member used, never a weight-0 member, the returned individual is the chosen member's; all-zero => zero-weight error with no member used (also when the population is empty, where otherwise exactly one positive-weight member is consulted and its error reported); construction fails iff a partial sum exceeds u32::MAX (also after an earlier overflow). Laws: member frequencies = w_i / sum(w); for statically typed chains whose members are themselves chains wrapped with a weight of their own, the product of the shares along the path. non-trivial = >= 3 members, >= 2 distinct positive weights, nesting depth >= 2 or a list used while being built (invariants); statistics with 0 < p < 1 (laws)".into();
    ctx.assumptions.push("the payload of WeightSumOverflow is not compared".into());
    let (n, trials) = ctx.tier.pick((300_000u32, 400_000u64), (5_000_000, 5_000_000));
    ctx.run_prop("invariants", n, strategy, oracle);
    run_jobs(ctx, "weight_laws", law_jobs(ctx.seed), trials);
    run_jobs(ctx, "weight_laws_rewrapped_chains", rewrapped_jobs(ctx.seed), trials);
    // coverage-guided search over the same strategies and oracles (thorough tier; see ptfuzz.rs)
    crate::ptfuzz::thorough(ctx, &[("c13", 16, 1_500_000)]);
}

pub fn replay(ctx: &mut Ctx, sub: &str, case: &Value) {
    if sub == "weight_laws" {
        let trials = ctx.tier.pick(400_000u64, 5_000_000);
        run_jobs(ctx, "weight_laws", law_jobs(ctx.seed), trials);
    } else {
        ctx.replay_case::<Case, _>(sub, case, oracle);
    }
}
