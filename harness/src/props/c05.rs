//! C05 — genome -> program translation is total and structure preserving.

use proptest::prelude::*;
use push::genome::plushy::{Plushy, PushGene};
use push::instruction::NumOpens;
use push::push_vm::program::PushProgram;
use serde_json::Value;

use crate::gen_vm::{leaf, model_opens, parse_genes, Gene};
use crate::model::real::Tables;
use crate::model::vm::{ExecOp, Ins};
use crate::{ensure, fail, guarded, panic_key, Ctx, Fail, Probe};

fn flatten<'a>(p: &'a [PushProgram], out: &mut Vec<&'a push::instruction::PushInstruction>) {
    // iterative to survive deep nests
    let mut stack: Vec<std::slice::Iter<'a, PushProgram>> = vec![p.iter()];
    while let Some(it) = stack.last_mut() {
        match it.next() {
            None => {
                stack.pop();
            }
            Some(PushProgram::Instruction(i)) => out.push(i),
            Some(PushProgram::Block(b)) => stack.push(b.iter()),
        }
    }
}

/// every instruction opening k blocks is immediately followed by exactly k blocks and
/// no block appears anywhere else (iterative)
fn blocks_well_placed(root: &[PushProgram], opens: &dyn Fn(&push::instruction::PushInstruction) -> usize) -> Result<usize, String> {
    let mut work: Vec<&[PushProgram]> = vec![root];
    let mut max_depth = 0usize;
    let mut depth_of: Vec<usize> = vec![0];
    while let Some(seq) = work.pop() {
        let d = depth_of.pop().unwrap_or(0);
        max_depth = max_depth.max(d);
        let mut owed = 0usize; // blocks still expected right here
        for (pos, el) in seq.iter().enumerate() {
            match el {
                PushProgram::Instruction(i) => {
                    if owed > 0 {
                        return Err(format!("at depth {d} position {pos}: {owed} block(s) missing before {i}"));
                    }
                    owed = opens(i);
                }
                PushProgram::Block(b) => {
                    if owed == 0 {
                        return Err(format!("at depth {d} position {pos}: a block that no instruction opened"));
                    }
                    owed -= 1;
                    work.push(b);
                    depth_of.push(d + 1);
                }
            }
        }
        if owed > 0 {
            return Err(format!("at depth {d}: sequence ends with {owed} block(s) missing"));
        }
    }
    Ok(max_depth)
}

pub fn oracle(t: &Tables, genes: &Vec<Gene>, probe: &mut Probe) -> Result<(), Fail> {
    let real_genes: Vec<PushGene> = genes
        .iter()
        .map(|g| match g {
            Gene::Close => Some(PushGene::Close),
            Gene::I(i) => t.real(i).map(PushGene::Instruction),
        })
        .collect::<Option<Vec<_>>>()
        .ok_or_else(|| Fail::new("setup/no-real-instruction", "gene without real counterpart"))?;
    let expected_instrs: Vec<push::instruction::PushInstruction> = real_genes
        .iter()
        .filter_map(|g| match g {
            PushGene::Instruction(i) => Some(i.clone()),
            PushGene::Close => None,
        })
        .collect();
    let plushy = Plushy::new(real_genes);
    let program: Vec<PushProgram> = match guarded(move || Vec::<PushProgram>::from(plushy)) {
        Ok(p) => p,
        Err(p) => fail!(format!("parse/panic:{}", panic_key(&p)), "translation panicked: {p}; genes {genes:?}"),
    };
    // (1a) depth-first reading gives the genome's instructions in order
    let mut flat = vec![];
    flatten(&program, &mut flat);
    if flat.len() != expected_instrs.len() || flat.iter().zip(&expected_instrs).any(|(a, b)| *a != b) {
        let first = flat.iter().zip(&expected_instrs).position(|(a, b)| *a != b).unwrap_or(flat.len().min(expected_instrs.len()));
        fail!(
            "parse/instruction-sequence",
            "depth-first reading of the program differs from the genome at instruction {first}: program has {} instructions, genome {}; genes {genes:?}",
            flat.len(),
            expected_instrs.len()
        );
    }
    // (1b) block placement, with the opening counts the property states (IfElse 2; When/Unless/DupBlock 1; else 0)
    let model_k = |i: &push::instruction::PushInstruction| -> usize {
        use push::instruction::PushInstruction as P;
        match i {
            P::Exec(e) => match crate::model::real::classify_exec(e) {
                Some(ExecOp::IfElse) => 2,
                Some(ExecOp::When | ExecOp::Unless | ExecOp::DupBlock) => 1,
                _ => 0,
            },
            _ => 0,
        }
    };
    let depth = match blocks_well_placed(&program, &model_k) {
        Ok(d) => d,
        Err(e) => fail!("parse/block-placement", "{e}; genes {genes:?}\nprogram {program:?}"),
    };
    // the crate's own num_opens must agree with the documented counts
    for i in &expected_instrs {
        ensure!(
            i.num_opens() == model_k(i),
            format!("num_opens/{i}"),
            "{i}.num_opens() = {} but the instruction opens {} block(s)",
            i.num_opens(),
            model_k(i)
        );
    }
    // (2) reference parser (iterative, explicit frames) must produce the same tree
    let reference = parse_genes(genes, model_opens);
    let reference_real: Option<Vec<PushProgram>> = reference.iter().map(|p| t.program(p)).collect();
    if reference_real.as_ref() != Some(&program) {
        fail!(
            "parse/tree-shape",
            "the program tree differs from the reference parse (close ends the innermost open block, is ignored at top level, open blocks are closed at the end)\ngenes: {genes:?}\nreal: {program:?}\nreference: {reference:?}"
        );
    }
    // classification
    let mut open_now = 0usize;
    let mut unmatched_close = false;
    let mut consecutive_multi = false;
    let mut prev_opener = false;
    let mut has_opener = false;
    let mut has_close = false;
    // open_now counts blocks currently open incl. pending ones
    for g in genes {
        match g {
            Gene::Close => {
                has_close = true;
                if open_now == 0 {
                    unmatched_close = true;
                } else {
                    open_now -= 1;
                }
                prev_opener = false;
            }
            Gene::I(i) => {
                let k = model_opens(i);
                if k > 0 {
                    has_opener = true;
                    if prev_opener {
                        consecutive_multi = true;
                    }
                }
                prev_opener = k > 0;
                open_now += k;
            }
        }
    }
    probe.nontrivial = has_opener && has_close;
    if unmatched_close {
        probe.label("unmatched close");
    }
    if open_now > 0 {
        probe.label("blocks still open at the end");
    }
    if consecutive_multi {
        probe.label("consecutive openers");
    }
    if depth >= 5 {
        probe.label("depth >= 5");
    }
    if depth >= 100 {
        probe.label("depth >= 100");
    }
    Ok(())
}

fn class_gene(class: u32, k: usize) -> Gene {
    match class {
        0 => Gene::Close,
        1 => Gene::I(Ins::PushInt(k as i64)),
        2 => Gene::I(Ins::Exec([ExecOp::When, ExecOp::Unless, ExecOp::DupBlock][k % 3])),
        _ => Gene::I(Ins::Exec(ExecOp::IfElse)),
    }
}

/// all 4^n class sequences for n = 0..=max_n
fn exhaustive(max_n: u32) -> impl Iterator<Item = Vec<Gene>> {
    (0..=max_n).flat_map(|n| {
        (0u32..4u32.pow(n)).map(move |code| (0..n).map(|k| class_gene((code >> (2 * k)) & 3, k as usize)).collect())
    })
}

fn opener2() -> impl Strategy<Value = Gene> {
    prop::sample::select(vec![ExecOp::When, ExecOp::Unless, ExecOp::DupBlock, ExecOp::IfElse]).prop_map(|o| Gene::I(Ins::Exec(o)))
}
fn g2() -> impl Strategy<Value = Gene> {
    prop_oneof![
        2 => Just(Gene::Close),
        3 => (0i64..1000).prop_map(|k| Gene::I(Ins::PushInt(k))),
        1 => opener2(),
    ]
}

fn random_genes(t: &Tables, max: usize) -> BoxedStrategy<Vec<Gene>> {
    let ops = t.all_ops();
    let g = prop_oneof![
        3 => Just(Gene::Close),
        3 => (0i64..1000).prop_map(|k| Gene::I(Ins::PushInt(k))),
        2 => prop::sample::select(vec![ExecOp::When, ExecOp::Unless, ExecOp::DupBlock]).prop_map(|o| Gene::I(Ins::Exec(o))),
        2 => Just(Gene::I(Ins::Exec(ExecOp::IfElse))),
        2 => leaf(ops).prop_map(Gene::I),
        // an exec-stack literal (pushes a whole program): opens no block, whatever it carries
        1 => (0i64..50, any::<bool>()).prop_map(|(k, block)| {
            let inner = crate::model::vm::Prog::I(Ins::PushInt(k));
            Gene::I(Ins::PushExec(Box::new(if block { crate::model::vm::Prog::B(vec![inner, crate::model::vm::Prog::I(Ins::Exec(ExecOp::IfElse))]) } else { inner })))
        }),
    ];
    let opener = prop_oneof![
        prop::sample::select(vec![ExecOp::When, ExecOp::Unless, ExecOp::DupBlock, ExecOp::IfElse]).prop_map(|o| Gene::I(Ins::Exec(o)))
    ];
    prop_oneof![
        6 => prop::collection::vec(g.clone(), 0..=max),
        2 => prop::collection::vec(g, 0..=30),
        // all-open runs (depth = length) followed by a few genes
        1 => (prop::collection::vec(opener, 0..=max), prop::collection::vec(Just(Gene::Close), 0..8)).prop_map(|(mut a, b)| { a.extend(b); a }),
        // all-close runs
        1 => prop::collection::vec(Just(Gene::Close), 0..=max),
        // a deep nest, closed most or all of the way back, and then the genome goes on: whatever
        // handles depth differently beyond some level has to hand control back correctly
        2 => (prop::collection::vec(opener2(), 0..=max), 0usize..=max + 3, prop::collection::vec(g2(), 0..12), any::<u8>()).prop_map(|(mut a, closes, tail, keep)| {
            // close all the way, or leave 0..255 levels open
            let depth = a.len();
            let closes = if keep % 3 == 0 { closes.min(depth + 3) } else { depth.saturating_sub(usize::from(keep)) };
            a.extend(std::iter::repeat_n(Gene::Close, closes));
            a.extend(tail);
            a
        }),
    ]
    .boxed()
}

pub fn run(ctx: &mut Ctx) {
    let t = Tables::build();
    let (max_n, n_random, max_len) = ctx.tier.pick((8u32, 60_000u32, 2_000usize), (10, 1_500_000, 2_000));
    ctx.rule = format!("exhaustive: all 4^n sequences over gene classes {{close, 0-open literal, 1-open (When/Unless/DupBlock), 2-open (IfElse)}} for n <= {max_n}; random: sequences up to {max_len} genes over the full instruction set incl. all-opener runs (depth = length), all-close runs, and deep nests that are closed (almost) all the way back before the genome goes on. Oracles: depth-first reading = genome order; k blocks directly after every k-opener and no other block; equality with an independent iterative reference parser. non-trivial = contains an opener and a close; distinct by JSON encoding");
    ctx.exhaustive = Some(true);
    ctx.extra.insert("exhaustive_scope".into(), serde_json::json!(format!("all class sequences of length <= {max_n} (the random sub-check is not exhaustive)")));
    ctx.run_cases("exhaustive_small_scope", exhaustive(max_n), |g, p| oracle(&t, g, p));
    ctx.run_prop("random_genomes", n_random, move || random_genes(&Tables::build(), max_len), |g, p| {
        thread_local! { static T: Tables = Tables::build(); }
        T.with(|t| oracle(t, g, p))
    });
    if ctx.tier == crate::Tier::Thorough && ctx.violations().is_empty() {
        for bytes in crate::fuzzrun::campaign(ctx, "plushy", 16, 600_000, 1024) {
            let g = crate::fuzzdec::decode_genes(&bytes, &t);
            let mut p = Probe::default();
            if let Err(f) = oracle(&t, &g, &mut p) {
                ctx.violation("fuzz_plushy", &f, serde_json::to_value(&g).unwrap_or(Value::Null));
            }
        }
    }
}

pub fn replay(ctx: &mut Ctx, sub: &str, case: &Value) {
    let t = Tables::build();
    ctx.replay_case::<Vec<Gene>, _>(sub, case, |g, p| oracle(&t, g, p));
}
