//! C19 — the generated state builder builds the configured state and rejects misuse.
//!
//! Seeded *source generation*: the check emits two scratch crates under
//! /verif/gen/: (B) a compile probe with generated `#[push_state(builder)]`
//! structs and one generated builder call chain per line, each classified by an
//! independently written model of the type-state automaton as must-compile /
//! must-not-compile / unspecified and decided by `cargo check` JSON diagnostics;
//! (A) a program with generated *legal* chains, each asserting at run time what
//! the model predicts (contents top-first, maxima, overflow errors, accessors).

use std::fmt::Write as _;
use std::process::Command;

use serde_json::{json, Value};

use crate::props::c17::compile_probe;
use crate::{splitmix, Ctx, Fail};

struct Rng(u64);
impl Rng {
    fn next(&mut self) -> u64 {
        self.0 = self.0.wrapping_add(0x9E37_79B9_7F4A_7C15);
        splitmix(self.0)
    }
    fn below(&mut self, n: usize) -> usize {
        (self.next() % n.max(1) as u64) as usize
    }
    fn chance(&mut self, num: u64, den: u64) -> bool {
        self.next() % den < num
    }
}

#[derive(Clone)]
struct Ty {
    rust: &'static str,
    lit: fn(usize) -> String,
}

const TYPES: [Ty; 8] = [
    Ty { rust: "i64", lit: |i| format!("{}i64", 100 + i as i64) },
    Ty { rust: "bool", lit: |i| format!("{}", i % 2 == 0) },
    Ty { rust: "u8", lit: |i| format!("{}u8", 10 + i) },
    Ty { rust: "u32", lit: |i| format!("{}u32", 1000 + i) },
    Ty { rust: "char", lit: |i| format!("'{}'", (b'a' + (i % 26) as u8) as char) },
    Ty { rust: "String", lit: |i| format!("String::from(\"s{i}\")") },
    Ty { rust: "OrderedFloat<f64>", lit: |i| format!("OrderedFloat({}.5f64)", i) },
    Ty { rust: "(u8, u8)", lit: |i| format!("({}u8, {}u8)", i, i + 1) },
];

#[derive(Clone)]
struct StackDef {
    field: String,
    /// name used in builder method names (builder_name attribute or the field)
    method: String,
    renamed: bool,
    ty: usize,
}

#[derive(Clone)]
struct StructDef {
    name: String,
    stacks: Vec<StackDef>,
    has_stack: bool,
    /// PushState itself: stacks are int/float/bool, exec holds PushProgram, inputs exist
    is_push_state: bool,
}

const FIELD_NAMES: [&str; 10] = ["alpha", "beta", "gamma", "delta", "zeta", "my_ints", "flag_stack", "x1", "omega_9", "kappa"];
const NICKS: [&str; 5] = ["number", "flags", "small", "wide_name", "q"];

fn gen_struct(rng: &mut Rng, k: usize, n_stacks: usize, has_stack: bool) -> StructDef {
    let mut names: Vec<&str> = FIELD_NAMES.to_vec();
    let mut types: Vec<usize> = (0..TYPES.len()).collect();
    let mut nicks: Vec<&str> = NICKS.to_vec();
    let mut stacks = vec![];
    for _ in 0..n_stacks {
        let field = names.remove(rng.below(names.len())).to_string();
        let ty = types.remove(rng.below(types.len()));
        let renamed = rng.chance(1, 3) && !nicks.is_empty();
        let method = if renamed { nicks.remove(rng.below(nicks.len())).to_string() } else { field.clone() };
        stacks.push(StackDef { field, method, renamed, ty });
    }
    StructDef {
        name: format!("S{k}{}", if has_stack { "" } else { "N" }),
        stacks,
        has_stack,
        is_push_state: false,
    }
}

fn push_state_def() -> StructDef {
    StructDef {
        name: "PushState".into(),
        stacks: vec![
            StackDef { field: "int".into(), method: "int".into(), renamed: false, ty: 0 },
            StackDef { field: "float".into(), method: "float".into(), renamed: false, ty: 6 },
            StackDef { field: "bool".into(), method: "bool".into(), renamed: false, ty: 1 },
        ],
        has_stack: true,
        is_push_state: true,
    }
}

/// source of a generated struct; returns (source, number of lines)
fn struct_source(s: &StructDef) -> String {
    let mut o = String::new();
    let flags = if s.has_stack { "builder" } else { "builder, !has_stack" };
    let _ = writeln!(o, "#[derive(Default, Debug, Clone, PartialEq)] #[push_state({flags})] pub struct {} {{", s.name);
    let _ = writeln!(o, "    #[stack(exec)] pub code: Stack<u16>,");
    for (k, st) in s.stacks.iter().enumerate() {
        // every third stack also carries the documentation-only flag `ignore_doctests` (it must change nothing but the generated doc tests)
        let flagged = (s.name.len() + 2 * k) % 3 == 0;
        let attr = match (st.renamed, flagged) {
            (true, true) => format!("#[stack(builder_name = {}, ignore_doctests)]", st.method),
            (true, false) => format!("#[stack(builder_name = {})]", st.method),
            (false, true) => "#[stack(ignore_doctests)]".to_string(),
            (false, false) => "#[stack]".to_string(),
        };
        // the stack type is spelled the way users spell it: imported, or with its (absolute) path
        let spelled = ["Stack", "push::push_vm::stack::Stack", "Stack", "::push::push_vm::stack::Stack"][(s.name.len() + k) % 4];
        let _ = writeln!(o, "    {attr} pub {}: {spelled}<{}>,", st.field, TYPES[st.ty].rust);
    }
    let _ = writeln!(o, "    #[instruction_step_limit] pub steps: usize,");
    let _ = writeln!(o, "}}");
    o
}

/// value counts from here on are emitted as lazy exact-size iterators instead of literal lists
const LAZY: usize = 1 << 40;

#[derive(Clone, Debug)]
enum Op {
    MaxAll(usize),
    MaxOne(usize, usize),
    Values(usize, usize),
    Program(usize),
    NoProgram,
    Steps(usize),
    Build,
    /// the builder value reached so far is overwritten by `Default::default()` (`let mut b = ...; b = Default::default();`)
    ResetDefault,
}

#[derive(Clone, Copy, PartialEq, Debug)]
enum Phase {
    N,
    S,
    D,
}

#[derive(Clone, Copy, PartialEq, Debug)]
enum Class {
    MustCompile,
    MustNot,
    Unspecified,
}

/// The type-state automaton as the property states it.
fn classify(n_stacks: usize, ops: &[Op]) -> (Class, &'static str) {
    let mut exec = Phase::N;
    let mut exec_has_values = false;
    let mut steps = false;
    let mut st = vec![Phase::N; n_stacks];
    let mut built = false;
    for op in ops {
        if built {
            return (Class::Unspecified, "calls after build");
        }
        match op {
            Op::MaxAll(_) => {
                if st.iter().any(|p| *p == Phase::D) || exec_has_values {
                    return (Class::MustNot, "global size change after values were loaded");
                }
                if exec == Phase::D {
                    return (Class::Unspecified, "global size after the program decision (no values loaded)");
                }
                exec = Phase::S;
                st.iter_mut().for_each(|p| *p = Phase::S);
            }
            Op::MaxOne(i, _) => {
                if st[*i] == Phase::D {
                    return (Class::MustNot, "stack size change after values were loaded into it");
                }
                st[*i] = Phase::S;
            }
            Op::Values(i, _) => {
                if st[*i] == Phase::N {
                    return (Class::Unspecified, "values before any size");
                }
                st[*i] = Phase::D;
            }
            Op::Program(n) => {
                if exec != Phase::S {
                    return (Class::Unspecified, "program without a size / second program decision");
                }
                exec = Phase::D;
                exec_has_values = *n > 0;
            }
            Op::NoProgram => {
                if exec != Phase::S {
                    return (Class::Unspecified, "program decision without a size / second program decision");
                }
                exec = Phase::D;
            }
            Op::Steps(_) => {
                if steps {
                    return (Class::Unspecified, "step limit set twice");
                }
                steps = true;
            }
            Op::ResetDefault => {
                // a builder in a state that was reached through calls cannot be conjured from nothing: Default may exist
                // for the initial state only (otherwise a builder that was given nothing could be built)
                return if exec == Phase::N && !steps && st.iter().all(|p| *p == Phase::N) {
                    (Class::Unspecified, "Default::default() for the initial builder state")
                } else {
                    (Class::MustNot, "a builder state obtained from Default::default() instead of the calls that lead to it")
                };
            }
            Op::Build => {
                if exec != Phase::D || !steps {
                    return (Class::MustNot, "build without sizes / program decision / step limit");
                }
                built = true;
            }
        }
    }
    (Class::MustCompile, "legal")
}

fn chain_source(s: &StructDef, ops: &[Op], unwrap: &str) -> String {
    if let Some(k) = ops.iter().position(|o| matches!(o, Op::ResetDefault)) {
        // statement form: the prefix builds a value, Default::default() is assigned over it, the suffix continues
        let prefix = chain_source(s, &ops[..k], unwrap);
        let suffix = chain_source(s, &ops[k + 1..], unwrap);
        let suffix = suffix.strip_prefix(&format!("{}::builder()", s.name)).unwrap_or("").to_string();
        return format!("{{ let mut b = {prefix}; b = ::core::default::Default::default(); b{suffix} }}");
    }
    let mut o = format!("{}::builder()", s.name);
    let mut counter = 0usize;
    for op in ops {
        match op {
            Op::MaxAll(n) => {
                let _ = write!(o, ".with_max_stack_size({n})");
            }
            Op::MaxOne(i, n) => {
                let _ = write!(o, ".with_{}_max_size({n})", s.stacks[*i].method);
            }
            Op::Values(i, k) if *k >= LAZY => {
                // a lazily produced, astronomically long exact-size value list
                let _ = write!(o, ".with_{}_values((0..{k}usize).map(|_| {})){unwrap}", s.stacks[*i].method, (TYPES[s.stacks[*i].ty].lit)(1));
            }
            Op::Values(i, k) => {
                let vals: Vec<String> = (0..*k)
                    .map(|_| {
                        counter += 1;
                        (TYPES[s.stacks[*i].ty].lit)(counter)
                    })
                    .collect();
                let _ = write!(o, ".with_{}_values([{}]){unwrap}", s.stacks[*i].method, vals.join(", "));
            }
            Op::Program(k) => {
                let vals: Vec<String> = (0..*k).map(|j| if s.is_push_state { format!("PushProgram::from(PushInstruction::push_int({}))", 11 * (j + 1)) } else { format!("{}u16", 7 + j) }).collect();
                if s.is_push_state {
                    let _ = write!(o, ".with_program(Vec::<PushProgram>::from([{}])){unwrap}", vals.join(", "));
                } else {
                    let _ = write!(o, ".with_program(Vec::<u16>::from([{}])){unwrap}", vals.join(", "));
                }
            }
            Op::NoProgram => o.push_str(".with_no_program()"),
            Op::Steps(n) => {
                let _ = write!(o, ".with_instruction_step_limit({n})");
            }
            Op::Build => o.push_str(".build()"),
            Op::ResetDefault => {}
        }
    }
    o
}

/// "resize after load" with other calls in between: sizes, values into stack i, 0-3 unrelated
/// calls, then an individual or global resize - must not compile whatever came in between
fn gen_resize_after_load(rng: &mut Rng, s: &StructDef) -> Vec<Op> {
    let n = s.stacks.len();
    let i = rng.below(n);
    let mut ops = vec![Op::MaxAll(2 + rng.below(7))];
    if rng.chance(1, 3) {
        ops.push(Op::MaxOne(i, 3 + rng.below(5)));
    }
    let mut program = rng.chance(1, 3);
    if program {
        ops.push(if rng.chance(1, 2) { Op::Program(rng.below(3)) } else { Op::NoProgram });
    }
    ops.push(Op::Values(i, 1 + rng.below(2)));
    let mut steps = false;
    for _ in 0..rng.below(4) {
        match rng.below(6) {
            0 | 1 if !program => {
                ops.push(if rng.chance(2, 3) { Op::Program(rng.below(3)) } else { Op::NoProgram });
                program = true;
            }
            2 if !steps => {
                ops.push(Op::Steps(rng.below(30)));
                steps = true;
            }
            3 if n > 1 => {
                let j = (i + 1 + rng.below(n - 1)) % n;
                ops.push(Op::MaxOne(j, 4 + rng.below(4)));
            }
            4 if n > 1 => {
                let j = (i + 1 + rng.below(n - 1)) % n;
                ops.push(Op::Values(j, rng.below(2)));
            }
            5 => ops.push(Op::Values(i, 0)),
            _ => {}
        }
    }
    ops.push(if rng.chance(3, 4) { Op::MaxOne(i, rng.below(6)) } else { Op::MaxAll(rng.below(9)) });
    if rng.chance(1, 3) {
        ops.push(Op::Build);
    }
    ops
}

/// "resize after the program was loaded": the exec stack is a stack too - once a non-empty program has been
/// loaded, the global size (which is also the exec stack's) must not be changeable any more, whether or not
/// any other stack holds values
fn gen_resize_after_program(rng: &mut Rng, s: &StructDef) -> Vec<Op> {
    let n = s.stacks.len();
    let mut ops = vec![Op::MaxAll(3 + rng.below(6))];
    if rng.chance(1, 3) {
        ops.push(Op::MaxOne(rng.below(n), 3 + rng.below(5)));
    }
    ops.push(Op::Program(1 + rng.below(3)));
    let mut steps = false;
    for _ in 0..rng.below(3) {
        match rng.below(3) {
            0 if !steps => {
                ops.push(Op::Steps(rng.below(30)));
                steps = true;
            }
            1 => ops.push(Op::MaxOne(rng.below(n), 4 + rng.below(4))),
            _ => {}
        }
    }
    ops.push(Op::MaxAll(rng.below(9)));
    if rng.chance(1, 2) {
        if !steps {
            ops.push(Op::Steps(rng.below(30)));
        }
        ops.push(Op::Build);
    }
    ops
}

/// random walk over builder calls, biased to produce every class
fn gen_probe_chain(rng: &mut Rng, s: &StructDef) -> Vec<Op> {
    if rng.chance(1, 4) {
        return gen_resize_after_load(rng, s);
    }
    if rng.chance(1, 8) {
        return gen_resize_after_program(rng, s);
    }
    if rng.chance(1, 10) {
        // a state reached by calls, replaced by Default::default(), then (usually) finished and built
        let n = s.stacks.len();
        let mut ops = vec![Op::MaxAll(2 + rng.below(6))];
        let stage = rng.below(4);
        if stage >= 1 {
            ops.push(if rng.chance(1, 2) { Op::Program(rng.below(3)) } else { Op::NoProgram });
        }
        if stage >= 2 {
            ops.push(Op::Steps(rng.below(30)));
        }
        if stage >= 3 {
            ops.push(Op::Values(rng.below(n), rng.below(2)));
        }
        ops.push(Op::ResetDefault);
        if stage < 2 && rng.chance(1, 2) {
            ops.push(Op::Steps(rng.below(30)));
        }
        if rng.chance(2, 3) {
            ops.push(Op::Build);
        }
        return ops;
    }
    let n = s.stacks.len();
    let mut ops = vec![];
    let len = 2 + rng.below(7);
    let mostly_legal = rng.chance(1, 2);
    let mut sized = false;
    let mut program = false;
    for _ in 0..len {
        let pick = rng.below(14);
        let op = match pick {
            0 | 1 => Op::MaxAll(rng.below(9)),
            2 | 3 => Op::MaxOne(rng.below(n), rng.below(9)),
            4..=6 => Op::Values(rng.below(n), rng.below(4)),
            7 | 8 => Op::Program(rng.below(4)),
            9 => Op::NoProgram,
            10 | 11 => Op::Steps(rng.below(50)),
            _ => continue,
        };
        if mostly_legal {
            // steer: first a global size, one program decision
            match &op {
                Op::MaxAll(_) if sized => continue,
                Op::Program(_) | Op::NoProgram if !sized || program => continue,
                Op::Values(..) if !sized => continue,
                _ => {}
            }
        }
        if matches!(op, Op::MaxAll(_)) {
            sized = true;
        }
        if matches!(op, Op::Program(_) | Op::NoProgram) {
            program = true;
        }
        ops.push(op);
    }
    if mostly_legal && !sized {
        ops.insert(0, Op::MaxAll(rng.below(9)));
    }
    if rng.chance(4, 5) {
        ops.push(Op::Build);
    }
    ops
}

/// legal chain for the run-time crate (always sizes -> ... -> build), values may overflow
fn gen_legal_chain(rng: &mut Rng, s: &StructDef) -> Vec<Op> {
    let n = s.stacks.len();
    let mut ops = vec![];
    let mut has_data = vec![false; n];
    // model of what the chain has configured so far: per stack its maximum and how many values it holds
    let mut maxes = vec![usize::MAX; n];
    let mut lens = vec![0usize; n];
    // a maximum is usually tiny and sometimes "unbounded" (usize::MAX, which is also the default of a plain Stack)
    let pick_max = |rng: &mut Rng, below: usize| if rng.chance(1, 7) { usize::MAX } else { rng.below(below) };
    // individual sizes may come before or after the global one
    if rng.chance(1, 3) {
        ops.push(Op::MaxOne(rng.below(n), rng.below(7)));
    }
    let m = pick_max(rng, 8);
    ops.push(Op::MaxAll(m));
    maxes.iter_mut().for_each(|x| *x = m);
    if rng.chance(1, 4) {
        let m = pick_max(rng, 8);
        ops.push(Op::MaxAll(m));
        maxes.iter_mut().for_each(|x| *x = m);
    }
    let mut program = false;
    let mut steps = false;
    for _ in 0..(1 + rng.below(7)) {
        match rng.below(10) {
            0..=2 => {
                let i = rng.below(n);
                if !has_data[i] {
                    let m = pick_max(rng, 7);
                    ops.push(Op::MaxOne(i, m));
                    maxes[i] = m;
                }
            }
            3..=6 => {
                let i = rng.below(n);
                // occasionally an astronomically long lazy list (also as a second load onto a non-empty stack)
                let cnt = if !rng.chance(1, 12) {
                    rng.below(5)
                } else if maxes[i] < usize::MAX {
                    [usize::MAX, usize::MAX - 1, LAZY, usize::MAX - 3][rng.below(4)]
                } else if lens[i] == 0 {
                    // an unbounded empty stack would really try to take them all: only ordinary counts here
                    rng.below(5)
                } else {
                    // unbounded and non-empty: counts whose sum with what is already there does not fit in a usize
                    // (the smallest such count, and the largest) - an overflow error, not a capacity panic
                    [usize::MAX - lens[i] + 1, usize::MAX][rng.below(2)]
                };
                ops.push(Op::Values(i, cnt));
                has_data[i] = true;
                if cnt < LAZY && lens[i] + cnt <= maxes[i] {
                    lens[i] += cnt;
                }
            }
            7 if !program => {
                ops.push(if rng.chance(2, 3) { Op::Program(rng.below(5)) } else { Op::NoProgram });
                program = true;
            }
            8 if !steps => {
                ops.push(Op::Steps(rng.below(40)));
                steps = true;
            }
            _ => {}
        }
    }
    if !program {
        ops.push(if rng.chance(2, 3) { Op::Program(rng.below(5)) } else { Op::NoProgram });
    }
    if !steps {
        ops.push(Op::Steps(rng.below(40)));
    }
    ops.push(Op::Build);
    ops
}

/// what a legal chain must produce: Err(overflow at op index) or the final configuration
struct Expect {
    overflow_at: Option<usize>,
    exec_max: usize,
    program_len: usize,
    /// per stack: (max, values top-first as literal strings)
    stacks: Vec<(usize, Vec<String>)>,
    steps: usize,
}

fn predict(s: &StructDef, ops: &[Op]) -> Expect {
    let n = s.stacks.len();
    let mut e = Expect {
        overflow_at: None,
        exec_max: usize::MAX,
        program_len: 0,
        stacks: vec![(usize::MAX, vec![]); n],
        steps: 0,
    };
    let mut counter = 0usize;
    for (k, op) in ops.iter().enumerate() {
        match op {
            Op::MaxAll(m) => {
                e.exec_max = *m;
                e.stacks.iter_mut().for_each(|st| st.0 = *m);
            }
            Op::MaxOne(i, m) => e.stacks[*i].0 = *m,
            Op::Values(i, cnt) if *cnt >= LAZY => {
                // maxima in legal chains are below 8 or usize::MAX; lazy lists are only generated where they must
                // overflow: above a small maximum, or onto a non-empty unbounded stack with a count that added to
                // what is already there does not fit in a usize
                let _ = i;
                e.overflow_at = Some(k);
                return e;
            }
            Op::Values(i, cnt) => {
                let vals: Vec<String> = (0..*cnt)
                    .map(|_| {
                        counter += 1;
                        (TYPES[s.stacks[*i].ty].lit)(counter)
                    })
                    .collect();
                if e.stacks[*i].1.len() + vals.len() > e.stacks[*i].0 {
                    e.overflow_at = Some(k);
                    return e;
                }
                // the first supplied value ends up on top: new values go in front
                let mut v = vals;
                v.extend(e.stacks[*i].1.clone());
                e.stacks[*i].1 = v;
            }
            Op::Program(cnt) => {
                if *cnt > e.exec_max {
                    e.overflow_at = Some(k);
                    return e;
                }
                e.program_len = *cnt;
            }
            Op::NoProgram | Op::Build | Op::ResetDefault => {}
            Op::Steps(m) => e.steps = *m,
        }
    }
    e
}

const PRELUDE_COMMON: &str = "#![allow(dead_code, unused_imports, unused_variables, unused_must_use, clippy::all)]\nuse ordered_float::OrderedFloat;\nuse push::instruction::{PushInstruction, variable_name::VariableName};\nuse push::push_vm::program::PushProgram;\nuse push::push_vm::push_state::PushState;\nuse push::push_vm::stack::{Stack, StackError};\nuse push::push_vm::{HasStack, State};\nuse push_macros::push_state;\n";

fn write_crate(dir: &str, bin: bool, source: &str) -> Result<(), String> {
    std::fs::create_dir_all(format!("{dir}/src")).map_err(|e| e.to_string())?;
    std::fs::create_dir_all(format!("{dir}/.cargo")).map_err(|e| e.to_string())?;
    std::fs::write(format!("{dir}/.cargo/config.toml"), "[net]\noffline = true\n").map_err(|e| e.to_string())?;
    let target = if bin { "[[bin]]\nname = \"c19run\"\npath = \"src/main.rs\"" } else { "[lib]\npath = \"src/lib.rs\"" };
    std::fs::write(
        format!("{dir}/Cargo.toml"),
        format!("[package]\nname = \"verif-c19\"\nversion = \"0.0.0\"\nedition = \"2021\"\npublish = false\n\n[workspace]\n\n{target}\n\n[dependencies]\npush = {{ path = \"{repo}/packages/push\" }}\npush_macros = {{ path = \"{repo}/packages/push-macros\" }}\nordered-float = \"5.0.0\"\n\n[profile.dev]\nopt-level = 0\ndebug = false\n", repo = crate::repo_dir()),
    )
    .map_err(|e| e.to_string())?;
    if !std::path::Path::new(&format!("{dir}/Cargo.lock")).exists() {
        std::fs::copy(format!("{}/Cargo.lock", crate::repo_dir()), format!("{dir}/Cargo.lock")).map_err(|e| e.to_string())?;
    }
    std::fs::write(format!("{dir}/src/{}", if bin { "main.rs" } else { "lib.rs" }), source).map_err(|e| e.to_string())
}

fn verif_dir() -> String {
    std::env::var("VERIF_DIR_REAL").unwrap_or_else(|_| crate::VERIF_DIR.to_string())
}

pub fn run(ctx: &mut Ctx) {
    let (k_structs, m_legal, n_probe) = ctx.tier.pick((6usize, 40usize, 260usize), (30, 150, 2500));
    let mut rng = Rng(splitmix(ctx.seed ^ 0xC19));
    ctx.rule = format!("seeded source generation: PushState plus {k_structs} generated #[push_state(builder)] structs (1..5 stacks, generated field names with and without builder_name, distinct element types from {{i64, bool, u8, u32, char, String, OrderedFloat<f64>, (u8,u8)}}), each emitted with and without !has_stack. (B) {n_probe} generated builder call chains, one per line, classified by a model of the type-state automaton as must-compile / must-not-compile (build without sizes, program decision or step limit; resizing a stack, individually or globally, after values were loaded) / unspecified, decided by cargo check diagnostics per line; the struct definitions themselves are must-compile lines. (A) {m_legal} generated legal chains per struct executed and compared with the model: per stack the values top-first, the maximum last set (global vs individual in either order), Err(Overflow) exactly when a value list or program exceeds the maximum (including lazily produced lists of up to usize::MAX elements), stack::<T>() addressing the field declared for T; for PushState additionally first program element executes first and inputs resolve for every declaration order. non-trivial = a chain with >= 4 calls touching >= 2 stacks, or any must-not-compile chain; distinct by source text");
    ctx.assumptions.push("chains the statement does not decide (values before any size, a second program decision, the step limit twice, calls after build) are generated and counted but not judged; field names are drawn so that their PascalCase forms are distinct".into());

    // ---- structs
    let mut structs: Vec<StructDef> = vec![];
    for k in 0..k_structs {
        let n_stacks = 1 + (k + rng.below(2)) % 5;
        let with = gen_struct(&mut rng, k, n_stacks, true);
        let mut without = with.clone();
        without.has_stack = false;
        without.name = format!("S{k}N");
        structs.push(with);
        structs.push(without);
    }
    let ps = push_state_def();

    // ---- (B) compile probe
    let mut src = String::from(PRELUDE_COMMON);
    let mut line = src.lines().count() + 1;
    // (line range, description, class, reason, non-trivial)
    let mut expectations: Vec<(usize, usize, String, Class, String, bool)> = vec![];
    for s in &structs {
        let text = struct_source(s);
        let n = text.lines().count();
        expectations.push((line, line + n - 1, format!("definition of {} ({} stacks, {})", s.name, s.stacks.len(), if s.has_stack { "deriving the stack accessors" } else { "!has_stack" }), Class::MustCompile, "struct definition".into(), s.stacks.len() >= 2));
        src.push_str(&text);
        line += n;
    }
    let mut class_counts = [0usize; 3];
    for i in 0..n_probe {
        // probes use the !has_stack variants (and PushState) so that an accessor-derive problem cannot cascade into them
        let s = if i % 5 == 0 { &ps } else { &structs[1 + 2 * rng.below(k_structs)] };
        let ops = gen_probe_chain(&mut rng, s);
        let (class, reason) = classify(s.stacks.len(), &ops);
        class_counts[class as usize] += 1;
        let chain = chain_source(s, &ops, ".unwrap()");
        let text = format!("fn p{i}() {{ let _ = {chain}; }}\n");
        let touched: std::collections::BTreeSet<usize> = ops
            .iter()
            .filter_map(|o| match o {
                Op::MaxOne(i, _) | Op::Values(i, _) => Some(*i),
                _ => None,
            })
            .collect();
        let nt = class == Class::MustNot || (ops.len() >= 4 && touched.len() >= 2);
        expectations.push((line, line, chain, class, reason.to_string(), nt));
        src.push_str(&text);
        line += 1;
    }
    let dir_b = format!("{}/gen/c19probe", verif_dir());
    if let Err(e) = write_crate(&dir_b, false, &src) {
        ctx.inconclusive.push(format!("cannot write probe crate: {e}"));
        return;
    }
    let t0 = std::time::Instant::now();
    let errors = match compile_probe_in(&dir_b, &src) {
        Ok(e) => e,
        Err(e) => {
            ctx.inconclusive.push(format!("compile probe could not be evaluated: {e}"));
            return;
        }
    };
    ctx.count("compile_probe", expectations.len() as u64);
    let mut definitions_broken = false;
    let mut unattributed = vec![];
    let mut errs_by_exp: Vec<Vec<String>> = vec![vec![]; expectations.len()];
    for (l, code, text) in &errors {
        match expectations.iter().position(|(a, b, ..)| l >= a && l <= b) {
            Some(i) => errs_by_exp[i].push(format!("{code} {text}")),
            None => unattributed.push(format!("line {l}: {code} {text}")),
        }
    }
    if !unattributed.is_empty() {
        ctx.inconclusive.push(format!("compile probe: diagnostics outside generated items: {:?}", &unattributed[..unattributed.len().min(3)]));
    }
    let mut samples = 0;
    for (i, (_, _, descr, class, reason, nt)) in expectations.iter().enumerate() {
        if *nt {
            ctx.note_nontrivial(crate::fnv(&format!("probe {descr}")));
        }
        let has_err = !errs_by_exp[i].is_empty();
        match (class, has_err) {
            (Class::MustCompile, true) => {
                let is_def = reason == "struct definition";
                definitions_broken |= is_def;
                let sig = if is_def {
                    if errs_by_exp[i].iter().any(|e| e.starts_with("E0119")) {
                        "push_state/has_stack-coherence-downstream".to_string()
                    } else {
                        "push_state/struct-definition-rejected".to_string()
                    }
                } else {
                    "builder/legal-chain-rejected".to_string()
                };
                let f = Fail::new(sig, format!("must compile but does not: {descr}\n  {}", errs_by_exp[i].join("\n  ")));
                ctx.violation("compile_probe", &f, json!({"item": descr, "errors": errs_by_exp[i]}));
            }
            (Class::MustNot, false) => {
                let f = Fail::new(
                    format!("builder/misuse-accepted: {reason}"),
                    format!("this chain must be a compile-time error ({reason}) but it compiles: {descr}"),
                );
                ctx.violation("compile_probe", &f, json!({"chain": descr, "reason": reason}));
            }
            _ => {}
        }
        if samples < 4 && i % 61 == 7 {
            samples += 1;
            ctx.add_sample(json!({"sub": "compile_probe", "item": descr, "class": format!("{class:?}"), "reason": reason, "compiler_errors": errs_by_exp[i].len()}));
        }
    }
    ctx.extra.insert(
        "compile_probe".into(),
        json!({"items": expectations.len(), "must_compile_chains": class_counts[0], "must_not_compile_chains": class_counts[1], "unspecified_chains": class_counts[2], "wall_s": t0.elapsed().as_secs_f64()}),
    );
    if definitions_broken {
        ctx.extra.insert("runtime".into(), json!("skipped: a generated struct definition does not compile, the run-time crate cannot be built"));
        return;
    }

    // ---- (A) run-time crate
    let mut src = String::from(PRELUDE_COMMON);
    src.push_str("fn drain<T: Clone>(s: &Stack<T>) -> Vec<T> { let mut c = s.clone(); let mut v = vec![]; while let Ok(x) = c.pop() { v.push(x); } v }\n");
    for s in structs.iter().filter(|s| s.has_stack) {
        src.push_str(&struct_source(s));
    }
    let mut tests: Vec<(String, bool)> = vec![];
    let runtime_structs: Vec<&StructDef> = structs.iter().filter(|s| s.has_stack).chain(std::iter::once(&ps)).collect();
    for s in &runtime_structs {
        for _ in 0..m_legal {
            let ops = gen_legal_chain(&mut rng, s);
            debug_assert_eq!(classify(s.stacks.len(), &ops).0, Class::MustCompile);
            let e = predict(s, &ops);
            let id = tests.len();
            let chain = chain_source(s, &ops, "?");
            let touched: std::collections::BTreeSet<usize> = ops
                .iter()
                .filter_map(|o| match o {
                    Op::MaxOne(i, _) | Op::Values(i, _) => Some(*i),
                    _ => None,
                })
                .collect();
            tests.push((chain.clone(), ops.len() >= 4 && touched.len() >= 2));
            let _ = writeln!(src, "fn t{id}() -> Result<(), String> {{");
            let _ = writeln!(src, "    let r: Result<{}, StackError> = (|| Ok({chain}))();", s.name);
            if e.overflow_at.is_some() {
                let _ = writeln!(src, "    return match r {{ Err(StackError::Overflow {{ .. }}) => Ok(()), Err(e) => Err(format!(\"expected an overflow error, got {{e}}\")), Ok(_) => Err(\"more values or program elements than the stack's maximum were accepted\".to_string()) }};");
            } else {
                let _ = writeln!(src, "    let s = r.map_err(|e| format!(\"spurious error: {{e}}\"))?;");
                let exec_field = if s.is_push_state { "stack::<PushProgram>()" } else { "code" };
                let _ = writeln!(src, "    if s.{exec_field}.max_stack_size() != {} {{ return Err(format!(\"exec maximum {{}} expected {}\", s.{exec_field}.max_stack_size())); }}", e.exec_max, e.exec_max);
                let _ = writeln!(src, "    if s.{exec_field}.size() != {} {{ return Err(format!(\"program length {{}} expected {}\", s.{exec_field}.size())); }}", e.program_len, e.program_len);
                if !s.is_push_state && e.program_len > 0 {
                    let _ = writeln!(src, "    if drain(&s.code) != (0..{}u16).map(|j| 7 + j).collect::<Vec<u16>>() {{ return Err(format!(\"program order (top first) {{:?}}\", drain(&s.code))); }}", e.program_len);
                }
                for (i, st) in s.stacks.iter().enumerate() {
                    let ty = TYPES[st.ty].rust;
                    let acc = format!("HasStack::<{ty}>::stack::<{ty}>(&s)");
                    let (max, vals) = &e.stacks[i];
                    let _ = writeln!(src, "    if {acc}.max_stack_size() != {max} {{ return Err(format!(\"stack `{}`: maximum {{}} expected {max}\", {acc}.max_stack_size())); }}", st.field);
                    let _ = writeln!(src, "    {{ let expected: Vec<{ty}> = vec![{}]; if drain({acc}) != expected {{ return Err(format!(\"stack `{}` (top first): {{:?}} expected {{:?}}\", drain({acc}), expected)); }} }}", vals.join(", "), st.field);
                    if !s.is_push_state {
                        let _ = writeln!(src, "    if !std::ptr::eq({acc}, &s.{}) {{ return Err(\"stack::<{ty}>() does not address the field `{}` declared for that element type\".to_string()); }}", st.field, st.field);
                    }
                }
                if s.is_push_state {
                    let _ = writeln!(src, "    if s.max_instruction_steps() != {} {{ return Err(format!(\"step limit {{}} expected {}\", s.max_instruction_steps())); }}", e.steps, e.steps);
                } else {
                    let _ = writeln!(src, "    if s.steps != {} {{ return Err(format!(\"step limit {{}} expected {}\", s.steps)); }}", e.steps, e.steps);
                }
                let _ = writeln!(src, "    Ok(())");
            }
            let _ = writeln!(src, "}}");
        }
    }
    // PushState specials: program order and inputs in every declaration order
    let perms = [[0usize, 1, 2], [0, 2, 1], [1, 0, 2], [1, 2, 0], [2, 0, 1], [2, 1, 0]];
    for (pi, perm) in perms.iter().enumerate() {
        let id = tests.len();
        let decl = ["with_int_input(\"a\", 5)", "with_bool_input(\"b\", true)", "with_float_input(\"c\", OrderedFloat(2.5))"];
        let chain = format!(
            "PushState::builder().with_max_stack_size(10).with_program([PushProgram::from(PushInstruction::InputVar(VariableName::from(\"a\"))), PushProgram::from(PushInstruction::InputVar(VariableName::from(\"c\"))), PushProgram::from(PushInstruction::InputVar(VariableName::from(\"b\"))), PushProgram::from(PushInstruction::push_int(77))]).map_err(|e| e.to_string())?.{}.{}.{}.with_instruction_step_limit({})",
            decl[perm[0]],
            decl[perm[1]],
            decl[perm[2]],
            3 + pi % 2
        );
        tests.push((chain.clone(), true));
        let _ = writeln!(src, "fn t{id}() -> Result<(), String> {{");
        let _ = writeln!(src, "    let s = {chain}.build();");
        let _ = writeln!(src, "    let s = s.run_to_completion().map_err(|_| \"aborted\".to_string())?;");
        let ints = if 3 + pi % 2 == 4 { "vec![77i64, 5]" } else { "vec![5i64]" };
        let _ = writeln!(src, "    if drain(s.stack::<i64>()) != {ints} {{ return Err(format!(\"int stack {{:?}}\", drain(s.stack::<i64>()))); }}");
        let _ = writeln!(src, "    if drain(s.stack::<bool>()) != vec![true] {{ return Err(format!(\"bool stack {{:?}}\", drain(s.stack::<bool>()))); }}");
        let _ = writeln!(src, "    if drain(s.stack::<OrderedFloat<f64>>()) != vec![OrderedFloat(2.5)] {{ return Err(\"float stack\".to_string()); }}");
        let _ = writeln!(src, "    Ok(())\n}}");
    }
    {
        // first program element executes first (step limit 1)
        let id = tests.len();
        tests.push(("PushState: step limit 1 executes the first supplied program element".into(), true));
        let _ = writeln!(src, "fn t{id}() -> Result<(), String> {{");
        let _ = writeln!(src, "    let s = PushState::builder().with_max_stack_size(5).with_program([PushProgram::from(PushInstruction::push_int(11)), PushProgram::from(PushInstruction::push_int(22)), PushProgram::from(PushInstruction::push_int(33))]).map_err(|e| e.to_string())?.with_instruction_step_limit(1).build();");
        let _ = writeln!(src, "    let s = s.run_to_completion().map_err(|_| \"aborted\".to_string())?;");
        let _ = writeln!(src, "    if drain(s.stack::<i64>()) != vec![11i64] {{ return Err(format!(\"after one step the int stack is {{:?}}, expected [11]\", drain(s.stack::<i64>()))); }}");
        let _ = writeln!(src, "    if s.stack::<PushProgram>().size() != 2 {{ return Err(\"exec size after one step\".to_string()); }}");
        let _ = writeln!(src, "    Ok(())\n}}");
    }
    let _ = writeln!(src, "fn main() {{");
    let _ = writeln!(src, "    let tests: Vec<fn() -> Result<(), String>> = vec![{}];", (0..tests.len()).map(|i| format!("t{i}")).collect::<Vec<_>>().join(", "));
    // chains that load an astronomically long lazy list run last: should the tree under test ever take such a
    // list instead of rejecting it, the process dies there - after everything else has been judged and printed
    let mut run_order: Vec<usize> = (0..tests.len()).collect();
    run_order.sort_by_key(|i| tests[*i].0.contains("usize).map(|_|"));
    let _ = writeln!(src, "    let order: Vec<usize> = vec![{}];", run_order.iter().map(ToString::to_string).collect::<Vec<_>>().join(", "));
    let _ = writeln!(src, "    for i in order {{ let t = tests[i]; match std::panic::catch_unwind(|| t()) {{ Ok(Ok(())) => {{}}, Ok(Err(e)) => println!(\"FAIL\\t{{i}}\\t{{}}\", e.replace('\\n', \" \")), Err(_) => println!(\"FAIL\\t{{i}}\\tpanicked\") }} }}");
    let _ = writeln!(src, "    println!(\"DONE\\t{{}}\", tests.len());\n}}");
    let dir_a = format!("{}/gen/c19run", verif_dir());
    if let Err(e) = write_crate(&dir_a, true, &src) {
        ctx.inconclusive.push(format!("cannot write run-time crate: {e}"));
        return;
    }
    let target = format!("{}/harness/target/probe", verif_dir());
    let t1 = std::time::Instant::now();
    let build = Command::new("cargo")
        .args(["build", "--offline", "--bin", "c19run"])
        .current_dir(&dir_a)
        .env("CARGO_TARGET_DIR", &target)
        .env("CARGO_NET_OFFLINE", "true")
        .output();
    match build {
        Ok(o) if o.status.success() => {}
        Ok(o) => {
            let err = String::from_utf8_lossy(&o.stderr);
            let first: Vec<&str> = err.lines().filter(|l| l.starts_with("error")).take(4).collect();
            // every chain in this crate is legal by the model: a compile error is a rejected legal chain
            let f = Fail::new("builder/legal-chain-rejected", format!("the run-time crate of legal builder chains does not compile: {first:?}"));
            ctx.violation("legal_chains", &f, json!({"errors": first}));
            return;
        }
        Err(e) => {
            ctx.inconclusive.push(format!("cannot run cargo: {e}"));
            return;
        }
    }
    let out = Command::new(format!("{target}/debug/c19run")).output();
    let Ok(out) = out else {
        ctx.inconclusive.push("cannot run the generated program".into());
        return;
    };
    let text = String::from_utf8_lossy(&out.stdout);
    let finished = text.lines().any(|l| l.starts_with("DONE"));
    if !finished && !text.lines().any(|l| l.starts_with("FAIL")) {
        ctx.inconclusive.push("the generated program did not finish".into());
        return;
    }
    // (a program that died after reporting failures: the failures it printed before are judged below)
    ctx.count("legal_chains", tests.len() as u64);
    for (chain, nt) in &tests {
        if *nt {
            ctx.note_nontrivial(crate::fnv(chain));
        }
    }
    for (chain, _) in tests.iter().step_by(tests.len() / 3 + 1) {
        ctx.add_sample(json!({"sub": "legal_chains", "chain": chain}));
    }
    for l in text.lines().filter(|l| l.starts_with("FAIL")) {
        let mut parts = l.splitn(3, '\t');
        let _ = parts.next();
        let idx: usize = parts.next().and_then(|s| s.parse().ok()).unwrap_or(0);
        let msg = parts.next().unwrap_or("");
        let kind = if msg.contains("top first") || msg.contains("program order") {
            "builder/value-order"
        } else if msg.contains("maximum") {
            "builder/maximum-not-last-set"
        } else if msg.contains("overflow") || msg.contains("accepted") {
            "builder/overflow-not-reported"
        } else if msg.contains("does not address") {
            "builder/accessor-addresses-wrong-field"
        } else if msg.contains("spurious") {
            "builder/spurious-error"
        } else {
            "builder/built-state-differs"
        };
        let f = Fail::new(kind, format!("{msg}\n  chain: {}", tests.get(idx).map_or("?", |t| t.0.as_str())));
        ctx.violation("legal_chains", &f, json!({"chain": tests.get(idx).map(|t| t.0.clone()), "message": msg}));
    }
    ctx.extra.insert("runtime".into(), json!({"legal_chains": tests.len(), "structs": runtime_structs.len(), "build_and_run_wall_s": t1.elapsed().as_secs_f64()}));
}

fn compile_probe_in(dir: &str, source: &str) -> Result<Vec<(usize, String, String)>, String> {
    // same mechanics as C17's probe, but the crate manifest was written by `write_crate`
    std::fs::write(format!("{dir}/src/lib.rs"), source).map_err(|e| e.to_string())?;
    compile_probe_existing(dir)
}

fn compile_probe_existing(dir: &str) -> Result<Vec<(usize, String, String)>, String> {
    let target = format!("{}/harness/target/probe", verif_dir());
    let out = Command::new("cargo")
        .args(["check", "--offline", "--message-format=json", "--lib"])
        .current_dir(dir)
        .env("CARGO_TARGET_DIR", &target)
        .env("CARGO_NET_OFFLINE", "true")
        .output()
        .map_err(|e| format!("cannot run cargo: {e}"))?;
    let mut errors = vec![];
    let mut other = vec![];
    for line in String::from_utf8_lossy(&out.stdout).lines() {
        let Ok(v) = serde_json::from_str::<Value>(line) else { continue };
        if v["reason"] != "compiler-message" {
            continue;
        }
        let m = &v["message"];
        if m["level"] != "error" {
            continue;
        }
        let code = m["code"]["code"].as_str().unwrap_or("").to_string();
        let text = m["message"].as_str().unwrap_or("").to_string();
        let in_probe = v["target"]["name"].as_str().is_some_and(|n| n.contains("verif"));
        // the primary span; if it lies inside a macro expansion follow it back to the generated file
        let mut span_line = None;
        if let Some(spans) = m["spans"].as_array() {
            let mut ordered: Vec<&Value> = spans.iter().filter(|s| s["is_primary"] == true).collect();
            ordered.extend(spans.iter().filter(|s| s["is_primary"] != true));
            for sp in ordered {
                let mut cur = sp;
                for _ in 0..8 {
                    if cur["file_name"].as_str().is_some_and(|f| f.ends_with("src/lib.rs")) {
                        span_line = cur["line_start"].as_u64();
                        break;
                    }
                    if cur["expansion"].is_null() {
                        break;
                    }
                    cur = &cur["expansion"]["span"];
                }
                if span_line.is_some() {
                    break;
                }
            }
        }
        match (in_probe, span_line) {
            (true, Some(l)) => errors.push((l as usize, code, text)),
            _ => {
                if !text.starts_with("aborting due to") && !text.starts_with("could not compile") {
                    other.push(format!("{code} {text}"));
                }
            }
        }
    }
    if !other.is_empty() {
        return Err(format!("errors outside the generated items: {:?}", &other[..other.len().min(3)]));
    }
    if errors.is_empty() && !out.status.success() {
        return Err(format!("cargo check failed without diagnostics: {}", String::from_utf8_lossy(&out.stderr).lines().rev().take(5).collect::<Vec<_>>().join(" | ")));
    }
    let _ = compile_probe; // shared helper kept for C17
    Ok(errors)
}

pub fn replay(ctx: &mut Ctx, _sub: &str, _case: &Value) {
    run(ctx);
}
