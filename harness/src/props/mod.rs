use serde_json::Value;

use crate::Ctx;

macro_rules! properties {
    ($($id:literal => $m:ident),* $(,)?) => {
        $(pub mod $m;)*

        /// Dispatch a full run. Returns false for an unknown property id.
        pub fn run(ctx: &mut Ctx) -> bool {
            match ctx.property.as_str() {
                $($id => $m::run(ctx),)*
                _ => return false,
            }
            true
        }

        fn replay_dispatch(ctx: &mut Ctx, sub: &str, case: &Value) -> bool {
            match ctx.property.as_str() {
                $($id => $m::replay(ctx, sub, case),)*
                _ => return false,
            }
            true
        }

        pub const IDS: &[&str] = &[$($id),*];
    };
}

properties! {
    "C01" => c01,
    "C02" => c02,
    "C03" => c03,
    "C04" => c04,
    "C05" => c05,
    "C06" => c06,
    "C07" => c07,
    "C08" => c08,
    "C09" => c09,
    "C10" => c10,
    "C11" => c11,
    "C12" => c12,
    "C13" => c13,
    "C14" => c14,
    "C15" => c15,
    "C16" => c16,
    "C17" => c17,
    "C18" => c18,
    "C19" => c19,
}

/// Replay one stored case (a replay/regression JSON written by `Ctx::finish`).
pub fn replay_file(ctx: &mut Ctx, path: &str) -> bool {
    let Ok(text) = std::fs::read_to_string(path) else {
        return false;
    };
    let Ok(v) = serde_json::from_str::<Value>(&text) else {
        return false;
    };
    let sub = v["sub"].as_str().unwrap_or("").to_string();
    let case = v["case"].clone();
    replay_dispatch(ctx, &sub, &case)
}
