pub mod c01;
pub mod c02;
pub mod c03;
pub mod c04;
pub mod c05;

use serde_json::Value;

use crate::Ctx;

/// Dispatch a full run. Returns false for an unknown property id.
pub fn run(ctx: &mut Ctx) -> bool {
    match ctx.property.as_str() {
        "C01" => c01::run(ctx),
        "C02" => c02::run(ctx),
        "C03" => c03::run(ctx),
        "C04" => c04::run(ctx),
        "C05" => c05::run(ctx),
        _ => return false,
    }
    true
}

/// Replay one stored case (a replay/regression JSON written by `Ctx::finish`).
pub fn replay_file(ctx: &mut Ctx, path: &str) -> bool {
    let Ok(text) = std::fs::read_to_string(path) else {
        return false;
    };
    let Ok(v) = serde_json::from_str::<Value>(&text) else {
        return false;
    };
    let sub = v["sub"].as_str().unwrap_or("").to_string();
    let case = v["case"].clone();
    match ctx.property.as_str() {
        "C01" => c01::replay(ctx, &sub, &case),
        "C02" => c02::replay(ctx, &sub, &case),
        "C03" => c03::replay(ctx, &sub, &case),
        "C04" => c04::replay(ctx, &sub, &case),
        "C05" => c05::replay(ctx, &sub, &case),
        _ => return false,
    }
    true
}
