//! C04 — the bounded stack is a faithful, all-or-nothing LIFO.
//!
//! Generated histories of stack operations are applied in lock-step to the
//! real `push::push_vm::stack::Stack` and to a `Vec` + capacity model; after
//! every operation the return value, the full contents, size, emptiness and
//! maximum are compared.

use collectable::TryExtend;
use proptest::prelude::*;
use push::push_vm::stack::{Stack, StackError};
use serde::{Deserialize, Serialize};
use serde_json::Value;

use crate::{ensure, fail, guarded, panic_key, Ctx, Fail, Probe};

#[derive(Clone, Debug, Serialize, Deserialize, PartialEq)]
pub enum Op {
    Push,
    Pop,
    Pop2,
    Pop3,
    Top,
    Top2,
    Top3,
    /// discard exactly n
    Discard(usize),
    /// discard size + delta - 2 (so around the current size)
    DiscardNear(u8),
    PushMany(u8),
    TryExtend(u8),
    /// try_extend with an iterator whose size hint is valid but imprecise:
    /// (count, lower-bound kind, upper-bound kind), see `Hinted`
    TryExtendHint(u8, u8, u8),
    SetMax(usize),
    /// set max to size + delta - 2 (around the current size)
    SetMaxNear(u8),
    Query,
}

#[derive(Clone, Debug, Serialize, Deserialize)]
pub struct Hist {
    pub cap: usize,
    pub ops: Vec<Op>,
}

pub fn op_strategy() -> impl Strategy<Value = Op> {
    prop_oneof![
        6 => Just(Op::Push),
        3 => Just(Op::Pop),
        2 => Just(Op::Pop2),
        2 => Just(Op::Pop3),
        1 => Just(Op::Top),
        1 => Just(Op::Top2),
        1 => Just(Op::Top3),
        2 => prop_oneof![(0usize..12).prop_map(Op::Discard), Just(Op::Discard(usize::MAX)), Just(Op::Discard(usize::MAX - 1))],
        2 => (0u8..5).prop_map(Op::DiscardNear),
        5 => prop_oneof![12 => 0u8..7, 3 => 7u8..72].prop_map(Op::PushMany),
        3 => prop_oneof![12 => 0u8..7, 3 => 7u8..72].prop_map(Op::TryExtend),
        4 => (prop_oneof![12 => 0u8..7, 3 => 7u8..72], 0u8..3, 0u8..6).prop_map(|(k, lo, hi)| Op::TryExtendHint(k, lo, hi)),
        2 => prop_oneof![(0usize..10).prop_map(Op::SetMax), Just(Op::SetMax(usize::MAX))],
        2 => (0u8..5).prop_map(Op::SetMaxNear),
        1 => Just(Op::Query),
    ]
}

pub fn hist_strategy(max_ops: usize) -> impl Strategy<Value = Hist> {
    (
        prop_oneof![
            Just(0usize),
            Just(1),
            Just(2),
            Just(3),
            Just(5),
            Just(8),
            Just(usize::MAX),
            Just(33),
            Just(64),
            Just(100),
            Just(usize::MAX - 1)
        ],
        prop::collection::vec(op_strategy(), 0..=max_ops),
    )
        .prop_map(|(cap, ops)| Hist { cap, ops })
}

/// An iterator that deliberately has no useful size hint.
struct Plain<T>(std::vec::IntoIter<T>);
impl<T> Iterator for Plain<T> {
    type Item = T;
    fn next(&mut self) -> Option<T> {
        self.0.next()
    }
}

use crate::iters::Hinted;

#[derive(Debug, PartialEq, Clone)]
enum Ret<T> {
    Unit,
    One(T),
    Two(T, T),
    Three(T, T, T),
    Under(usize, usize),
    Over,
    /// outcome deliberately unconstrained (zero insertion above the maximum)
    UnitOrOver,
}

fn conv<T, R>(r: Result<R, StackError>, f: impl FnOnce(R) -> Ret<T>) -> Ret<T> {
    match r {
        Ok(v) => f(v),
        Err(StackError::Underflow {
            num_requested,
            num_present,
        }) => Ret::Under(num_requested, num_present),
        Err(StackError::Overflow { .. }) => Ret::Over,
    }
}

pub fn op_name(op: &Op) -> &'static str {
    match op {
        Op::Push => "push",
        Op::Pop => "pop",
        Op::Pop2 => "pop2",
        Op::Pop3 => "pop3",
        Op::Top => "top",
        Op::Top2 => "top2",
        Op::Top3 => "top3",
        Op::Discard(_) | Op::DiscardNear(_) => "discard",
        Op::PushMany(_) => "push_many",
        Op::TryExtend(_) | Op::TryExtendHint(..) => "try_extend",
        Op::SetMax(_) | Op::SetMaxNear(_) => "set_max_stack_size",
        Op::Query => "query",
    }
}

pub fn check_hist<T>(h: &Hist, mk: impl Fn(u32) -> T, probe: &mut Probe) -> Result<(), Fail>
where
    T: Clone + PartialEq + std::fmt::Debug,
{
    let mut real: Stack<T> = Stack::default();
    real.set_max_stack_size(h.cap);
    let mut model: Vec<T> = Vec::new();
    let mut cap = h.cap;
    let mut next = 1u32;
    let mut fresh = |n: usize| -> Vec<T> {
        (0..n)
            .map(|_| {
                let v = mk(next);
                next += 1;
                v
            })
            .collect()
    };
    let mut failed_ops = 0;
    let mut multi_ops = 0;
    let mut shrinking_setmax = false;
    let mut rolled_back_extend = false;
    let mut over_discard = false;

    for (step, op) in h.ops.iter().enumerate() {
        let name = op_name(op);
        let n = model.len();
        // ---- model
        let under = |k: usize| Ret::Under(k, n);
        let top = |i: usize| model[n - 1 - i].clone();
        let mut inserted = false;
        let (expected, new_model, pushed_values): (Ret<T>, Option<Vec<T>>, Vec<T>) = match op {
            Op::Push => {
                let v = fresh(1);
                if n >= cap {
                    (Ret::Over, None, v)
                } else {
                    let mut m = model.clone();
                    m.push(v[0].clone());
                    inserted = true;
                    (Ret::Unit, Some(m), v)
                }
            }
            Op::Pop => {
                if n >= 1 {
                    let mut m = model.clone();
                    m.truncate(n - 1);
                    (Ret::One(top(0)), Some(m), vec![])
                } else {
                    (Ret::Under(1, 0), None, vec![])
                }
            }
            Op::Pop2 => {
                if n >= 2 {
                    let mut m = model.clone();
                    m.truncate(n - 2);
                    (Ret::Two(top(0), top(1)), Some(m), vec![])
                } else {
                    (under(2), None, vec![])
                }
            }
            Op::Pop3 => {
                if n >= 3 {
                    let mut m = model.clone();
                    m.truncate(n - 3);
                    (Ret::Three(top(0), top(1), top(2)), Some(m), vec![])
                } else {
                    (under(3), None, vec![])
                }
            }
            Op::Top => {
                if n >= 1 {
                    (Ret::One(top(0)), None, vec![])
                } else {
                    (Ret::Under(1, 0), None, vec![])
                }
            }
            Op::Top2 => {
                if n >= 2 {
                    (Ret::Two(top(0), top(1)), None, vec![])
                } else {
                    (under(2), None, vec![])
                }
            }
            Op::Top3 => {
                if n >= 3 {
                    (Ret::Three(top(0), top(1), top(2)), None, vec![])
                } else {
                    (under(3), None, vec![])
                }
            }
            Op::Discard(_) | Op::DiscardNear(_) => {
                let k = match op {
                    Op::Discard(k) => *k,
                    Op::DiscardNear(d) => (n + usize::from(*d)).saturating_sub(2),
                    _ => unreachable!(),
                };
                if k > n {
                    over_discard = true;
                    (Ret::Under(k, n), None, vec![])
                } else {
                    let mut m = model.clone();
                    m.truncate(n - k);
                    (Ret::Unit, Some(m), vec![])
                }
            }
            Op::PushMany(k) | Op::TryExtend(k) | Op::TryExtendHint(k, _, _) => {
                let vs = fresh(usize::from(*k));
                multi_ops += 1;
                if vs.is_empty() && n > cap {
                    // DESIGN C04 L: inserting zero elements above the maximum is unconstrained
                    (Ret::UnitOrOver, None, vs)
                } else if n.checked_add(vs.len()).is_none_or(|t| t > cap) {
                    if matches!(op, Op::TryExtend(_) | Op::TryExtendHint(..)) {
                        rolled_back_extend = true;
                    }
                    (Ret::Over, None, vs)
                } else {
                    let mut m = model.clone();
                    m.extend(vs.iter().rev().cloned());
                    inserted = !vs.is_empty();
                    (Ret::Unit, Some(m), vs)
                }
            }
            Op::SetMax(_) | Op::SetMaxNear(_) => {
                let m = match op {
                    Op::SetMax(m) => *m,
                    Op::SetMaxNear(d) => (n + usize::from(*d)).saturating_sub(2),
                    _ => unreachable!(),
                };
                if m < n {
                    shrinking_setmax = true;
                }
                cap = m;
                (Ret::Unit, None, vec![])
            }
            Op::Query => (Ret::Unit, None, vec![]),
        };

        // ---- real
        let pv = pushed_values.clone();
        let got: Result<Ret<T>, String> = guarded(|| match op {
            Op::Push => conv(real.push(pv[0].clone()), |()| Ret::Unit),
            Op::Pop => conv(real.pop(), Ret::One),
            Op::Pop2 => conv(real.pop2(), |(a, b)| Ret::Two(a, b)),
            Op::Pop3 => conv(real.pop3(), |(a, b, c)| Ret::Three(a, b, c)),
            Op::Top => conv(real.top().cloned(), Ret::One),
            Op::Top2 => conv(real.top2().map(|(a, b)| (a.clone(), b.clone())), |(a, b)| Ret::Two(a, b)),
            Op::Top3 => conv(
                real.top3().map(|(a, b, c)| (a.clone(), b.clone(), c.clone())),
                |(a, b, c)| Ret::Three(a, b, c),
            ),
            Op::Discard(_) | Op::DiscardNear(_) => {
                let k = match op {
                    Op::Discard(k) => *k,
                    Op::DiscardNear(d) => (n + usize::from(*d)).saturating_sub(2),
                    _ => unreachable!(),
                };
                conv(real.discard(k), |()| Ret::Unit)
            }
            Op::PushMany(_) => conv(real.push_many(pv.clone()), |()| Ret::Unit),
            Op::TryExtend(_) => {
                let mut it = Plain(pv.clone().into_iter());
                conv(real.try_extend(&mut it), |()| Ret::Unit)
            }
            Op::TryExtendHint(_, lo, hi) => {
                let mut it = Hinted(pv.clone().into_iter(), *lo, *hi);
                conv(real.try_extend(&mut it), |()| Ret::Unit)
            }
            Op::SetMax(_) | Op::SetMaxNear(_) => {
                real.set_max_stack_size(cap);
                Ret::Unit
            }
            Op::Query => Ret::Unit,
        });
        let got = match got {
            Ok(g) => g,
            Err(p) => fail!(
                format!("{name}/panic:{}", panic_key(&p)),
                "step {step} {op:?}: panicked: {p}; model before: {model:?} cap {cap}"
            ),
        };
        if got != Ret::Unit {
            if matches!(got, Ret::Under(..) | Ret::Over) {
                failed_ops += 1;
            }
        }
        // ---- compare
        let ret_ok = match &expected {
            Ret::UnitOrOver => matches!(got, Ret::Unit | Ret::Over),
            e => *e == got,
        };
        if !ret_ok {
            // classify the F4-style case separately: an insertion that succeeded above the max
            if matches!(expected, Ret::Over) && got == Ret::Unit && real.size() > real.max_stack_size() {
                fail!(
                    format!("{name}/size-exceeds-max"),
                    "step {step} {op:?}: succeeded although size {} > max {}; contents before: {model:?}",
                    real.size(),
                    real.max_stack_size()
                );
            }
            fail!(
                format!("{name}/return-value"),
                "step {step} {op:?}: returned {got:?}, expected {expected:?}; contents before: {model:?} cap {cap}"
            );
        }
        let is_err = matches!(got, Ret::Under(..) | Ret::Over);
        if let (false, Some(m)) = (is_err, new_model) {
            model = m;
        }
        if !(real == model) {
            let aspect = if is_err { "contents-after-error" } else { "contents" };
            fail!(
                format!("{name}/{aspect}"),
                "step {step} {op:?} -> {got:?}: real contents {real:?} but model {model:?}"
            );
        }
        // the slice / array-reference comparison flavours agree with the Vec one
        ensure!(
            real == model.as_slice() && real == &model[..] && !(real == [model.as_slice(), model.as_slice()].concat()) || model.is_empty(),
            format!("{name}/contents-comparison-flavours"),
            "step {step} {op:?}: Stack == &[T] / == [T] disagree with Stack == Vec<T> on {model:?}"
        );
        ensure!(
            real.size() == model.len(),
            format!("{name}/size"),
            "step {step} {op:?}: size() = {} but {} elements",
            real.size(),
            model.len()
        );
        ensure!(
            real.is_empty() == model.is_empty(),
            format!("{name}/is_empty"),
            "step {step} {op:?}: is_empty() = {} with {} elements",
            real.is_empty(),
            model.len()
        );
        ensure!(
            real.max_stack_size() == cap,
            format!("{name}/max_stack_size"),
            "step {step} {op:?}: max_stack_size() = {} expected {cap}",
            real.max_stack_size()
        );
        if model.len() <= cap {
            ensure!(
                real.is_full() == (model.len() == cap),
                format!("{name}/is_full"),
                "step {step} {op:?}: is_full() = {} with size {} max {cap}",
                real.is_full(),
                model.len()
            );
        }
        if inserted && !is_err {
            ensure!(
                real.size() <= real.max_stack_size(),
                format!("{name}/size-exceeds-max"),
                "step {step} {op:?}: successful insertion left size {} > max {}",
                real.size(),
                real.max_stack_size()
            );
        }
    }
    probe.nontrivial = h.ops.len() >= 5 && failed_ops >= 1 && multi_ops >= 1;
    if shrinking_setmax {
        probe.label("set_max below current size");
    }
    if rolled_back_extend {
        probe.label("try_extend rolled back");
    }
    if over_discard {
        probe.label("discard > size");
    }
    if failed_ops > 0 {
        probe.label("has failing op");
    }
    Ok(())
}

fn oracle_u16(h: &Hist, p: &mut Probe) -> Result<(), Fail> {
    check_hist::<u16>(h, |i| i as u16, p)
}
fn oracle_string(h: &Hist, p: &mut Probe) -> Result<(), Fail> {
    check_hist::<String>(h, |i| format!("v{i}"), p)
}

// ------------------------------------------------------------------ zero-sized elements, astronomic counts

/// Histories on `Stack<()>`: elements cost nothing, so counts near `usize::MAX` are reachable - bulk
/// insertions whose size added to the current size does not even fit in a `usize` must be refused like
/// any other overflow (never a panic, never accepted), and sizes far beyond memory work like small ones.
#[derive(Clone, Debug, Serialize, Deserialize)]
pub enum ZOp {
    Push,
    Pop,
    /// push_many of exactly the free room minus this many (kept below 200000 elements)
    PushManyFitting(u8),
    /// push_many of the free room plus 1 + this many
    PushManyOver(u8),
    /// push_many of `usize::MAX - size + 1 + this`: the sum overflows a usize (needs size > this)
    PushManyWrapping(u8),
    /// push_many of `usize::MAX` elements onto a non-empty stack
    PushManyMax,
    /// try_extend with free room + 1 + this many (only while the room is below 200000)
    TryExtendOver(u8),
    TryExtendFitting(u8),
    SetMax(usize),
    SetMaxNearTop(u8),
    Discard(u8),
    DiscardAll,
}

#[derive(Clone, Debug, Serialize, Deserialize)]
pub struct ZHist {
    pub cap: usize,
    pub ops: Vec<ZOp>,
}

pub fn zst_oracle(h: &ZHist, probe: &mut Probe) -> Result<(), Fail> {
    let mut real: Stack<()> = Stack::default();
    real.set_max_stack_size(h.cap);
    let (mut len, mut cap) = (0usize, h.cap);
    let mut wrapped = false;
    for (step, op) in h.ops.iter().enumerate() {
        let room = cap.saturating_sub(len);
        // (number of elements, must it succeed) or None when the op is skipped in this state
        let bulk = |n: usize| (n, len.checked_add(n).is_some_and(|t| t <= cap));
        let plan: Option<(&str, usize, bool)> = match op {
            ZOp::Push => Some(("push", 1, len < cap)),
            ZOp::PushManyFitting(d) => (room.saturating_sub(usize::from(*d)) <= 200_000).then(|| { let (n, ok) = bulk(room.saturating_sub(usize::from(*d))); ("push_many", n, ok) }).filter(|(_, n, _)| *n > 0 || len <= cap),
            ZOp::PushManyOver(e) => room.checked_add(1 + usize::from(*e)).map(|n| ("push_many", n, false)),
            ZOp::PushManyWrapping(e) => (len > usize::from(*e)).then(|| ("push_many", usize::MAX - len + 1 + usize::from(*e), false)),
            ZOp::PushManyMax => (len > 0).then_some(("push_many", usize::MAX, false)),
            ZOp::TryExtendOver(e) => (room <= 200_000).then(|| ("try_extend", room + 1 + usize::from(*e), false)),
            ZOp::TryExtendFitting(d) => (room.saturating_sub(usize::from(*d)) <= 200_000 && room > usize::from(*d)).then(|| ("try_extend", room - usize::from(*d), true)),
            ZOp::Pop | ZOp::SetMax(_) | ZOp::SetMaxNearTop(_) | ZOp::Discard(_) | ZOp::DiscardAll => None,
        };
        let what;
        let outcome: Result<Result<(), StackError>, String> = match (op, plan) {
            (ZOp::Push, _) => {
                what = "push".to_string();
                guarded(|| real.push(()))
            }
            (_, Some((name, n, _))) => {
                what = format!("{name} of {n} elements");
                if n > usize::MAX / 2 {
                    wrapped = true;
                }
                if name == "push_many" {
                    guarded(|| real.push_many(std::iter::repeat_n((), n)))
                } else {
                    guarded(|| real.try_extend(&mut std::iter::repeat_n((), n)))
                }
            }
            (ZOp::Pop, _) => {
                what = "pop".to_string();
                guarded(|| real.pop())
            }
            (ZOp::SetMax(m), _) => {
                cap = *m;
                real.set_max_stack_size(cap);
                continue;
            }
            (ZOp::SetMaxNearTop(d), _) => {
                cap = usize::MAX - usize::from(*d);
                real.set_max_stack_size(cap);
                continue;
            }
            (ZOp::Discard(k), _) => {
                what = format!("discard({k})");
                guarded(|| real.discard(usize::from(*k)))
            }
            (ZOp::DiscardAll, _) => {
                what = format!("discard({len})");
                guarded(|| real.discard(len))
            }
            _ => continue, // op not applicable in this state
        };
        let got = match outcome {
            Ok(r) => r,
            Err(p) => fail!(format!("zst/panic:{}", panic_key(&p)), "step {step}: {what} on a Stack<()> of {len} elements (maximum {cap}) panicked: {p}"),
        };
        let expect_ok = match (op, plan) {
            (ZOp::Push, _) => len < cap,
            (_, Some((_, _, ok))) => ok,
            (ZOp::Pop, _) => len >= 1,
            (ZOp::Discard(k), _) => usize::from(*k) <= len,
            (ZOp::DiscardAll, _) => true,
            _ => true,
        };
        ensure!(
            got.is_ok() == expect_ok,
            "zst/return-value",
            "step {step}: {what} on a Stack<()> of {len} elements (maximum {cap}) returned {got:?}, expected {}",
            if expect_ok { "Ok" } else { "an error" }
        );
        if expect_ok {
            match (op, plan) {
                (ZOp::Push, _) => len += 1,
                (_, Some((_, n, _))) => len += n,
                (ZOp::Pop, _) => len -= 1,
                (ZOp::Discard(k), _) => len -= usize::from(*k),
                (ZOp::DiscardAll, _) => len = 0,
                _ => {}
            }
        }
        ensure!(
            real.size() == len && real.is_empty() == (len == 0) && real.max_stack_size() == cap,
            "zst/size",
            "step {step}: after {what} the stack reports size {} (expected {len}), maximum {}",
            real.size(),
            real.max_stack_size()
        );
    }
    probe.nontrivial = wrapped && h.ops.len() >= 3;
    if wrapped {
        probe.label("bulk insertion of more than usize::MAX / 2 elements attempted");
    }
    if len > 1_000_000 {
        probe.label("stack of more than a million zero-sized elements");
    }
    Ok(())
}

pub fn zst_strategy() -> impl Strategy<Value = ZHist> {
    let op = prop_oneof![
        4 => Just(ZOp::Push),
        2 => Just(ZOp::Pop),
        3 => (0u8..4).prop_map(ZOp::PushManyFitting),
        3 => (0u8..4).prop_map(ZOp::PushManyOver),
        4 => (0u8..4).prop_map(ZOp::PushManyWrapping),
        2 => Just(ZOp::PushManyMax),
        2 => (0u8..4).prop_map(ZOp::TryExtendOver),
        2 => (0u8..4).prop_map(ZOp::TryExtendFitting),
        2 => prop_oneof![(0usize..10).prop_map(ZOp::SetMax), Just(ZOp::SetMax(usize::MAX)), Just(ZOp::SetMax(100_000))],
        2 => (0u8..4).prop_map(ZOp::SetMaxNearTop),
        1 => (0u8..5).prop_map(ZOp::Discard),
        1 => Just(ZOp::DiscardAll),
    ];
    (prop_oneof![Just(usize::MAX), Just(usize::MAX - 1), Just(8usize), Just(100_000usize), Just(0usize), Just(usize::MAX / 2 + 1)], prop::collection::vec(op, 0..16)).prop_map(|(cap, ops)| ZHist { cap, ops })
}

pub fn run(ctx: &mut Ctx) {
    ctx.rule = "histories Vec<Op> over push/pop/pop2/pop3/top/top2/top3/discard/push_many/try_extend(plain iterator)/set_max_stack_size/queries on Stack<u16> and Stack<String>, unique values per history, capacities {0,1,2,3,5,8,33,64,100,usize::MAX-1,usize::MAX}, bulk insertions of 0..6 and, less often, any count up to 71, try_extend iterators without a size hint and with valid but imprecise hints; lock-step against a Vec+capacity model after every op; plus histories on Stack<()> (zero-sized elements) with capacities up to usize::MAX and bulk insertions whose size added to the current size does not fit in a usize. non-trivial = length >= 5 with >= 1 failing op and >= 1 multi-element op; distinct by JSON encoding of the history".into();
    ctx.assumptions.push("zero-element insertion above a lowered maximum is unconstrained; is_full only compared while size <= max".into());
    let (n, len) = ctx.tier.pick((200_000, 40), (3_000_000, 400));
    ctx.run_prop("hist_u16", n, || hist_strategy(len), oracle_u16);
    ctx.run_prop("hist_string", n / 4, || hist_strategy(len), oracle_string);
    // short histories, dense: many more distinct prefixes of length <= 6
    ctx.run_prop("hist_short", n, || hist_strategy(6), oracle_u16);
    ctx.run_prop("hist_zero_sized", n / 4, zst_strategy, zst_oracle);
    if ctx.tier == crate::Tier::Thorough && ctx.violations().is_empty() {
        for bytes in crate::fuzzrun::campaign(ctx, "stack_hist", 16, 1_500_000, 512) {
            let h = crate::fuzzdec::decode_hist(&bytes);
            let mut p = Probe::default();
            if let Err(f) = oracle_u16(&h, &mut p) {
                ctx.violation("fuzz_stack_hist", &f, serde_json::to_value(&h).unwrap_or(Value::Null));
            }
        }
    }
    // coverage-guided search over the same strategies and oracles (thorough tier; see ptfuzz.rs)
    crate::ptfuzz::thorough(ctx, &[("c04z", 8, 2_000_000)]);
}

pub fn replay(ctx: &mut Ctx, sub: &str, case: &Value) {
    match sub {
        "hist_string" => ctx.replay_case::<Hist, _>(sub, case, oracle_string),
        "hist_zero_sized" => ctx.replay_case::<ZHist, _>(sub, case, zst_oracle),
        "fuzz_stack_hist" => ctx.replay_case::<Hist, _>(sub, case, oracle_u16),
        _ => ctx.replay_case::<Hist, _>(sub, case, oracle_u16),
    }
}
