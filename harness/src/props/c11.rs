//! C11 — mutation keeps genome structure: flips stay in place, UMAD only inserts/deletes.

use std::cell::{Cell, RefCell};

use ec_core::operator::mutator::Mutator;
use ec_linear::genome::bitstring::Bitstring;
use ec_linear::genome::vector::Vector;
use ec_linear::mutator::umad::Umad;
use ec_linear::mutator::with_one_over_length::WithOneOverLength;
use ec_linear::mutator::with_rate::WithRate;
use proptest::prelude::*;
use push::genome::plushy::{Plushy, PushGene};
use push::instruction::variable_name::VariableName;
use push::instruction::PushInstruction;
use rand::distr::Distribution;
use rand::Rng;
use serde::{Deserialize, Serialize};
use serde_json::Value;

use crate::rngs::ScriptRng;
use crate::{ensure, fail, guarded, panic_key, Ctx, Fail, Probe};

#[derive(Clone, Copy, Debug, PartialEq, Eq, Serialize, Deserialize)]
pub enum FlipGenome {
    VecBool,
    Bitstring,
    VecTag,
    VectorTag,
    /// a user-defined genome type (own `Linear` / `FromIterator` / `IntoIterator` impls over a `VecDeque`)
    UserTag,
}

#[derive(Clone, Copy, Debug, PartialEq, Eq, Serialize, Deserialize)]
pub enum UmadGenome {
    Vector,
    Plushy,
    Bitstring,
    /// a user-defined genome type (see `Ring`)
    User,
}

/// A genome type a user of the library could write: genes in a ring buffer, handed out by an iterator that is
/// not an `ExactSizeIterator`.
#[derive(Clone, Debug, PartialEq)]
pub struct Ring<T>(pub std::collections::VecDeque<T>);
impl<T> ec_core::genome::Genome for Ring<T> {
    type Gene = T;
}
impl<T> ec_linear::genome::Linear for Ring<T> {
    fn size(&self) -> usize {
        self.0.len()
    }
    fn gene_mut(&mut self, index: usize) -> Option<&mut T> {
        self.0.get_mut(index)
    }
}
impl<T> FromIterator<T> for Ring<T> {
    fn from_iter<I: IntoIterator<Item = T>>(iter: I) -> Self {
        // filled from the back and rotated, so that the buffer is not laid out contiguously from slot 0
        let mut d: std::collections::VecDeque<T> = iter.into_iter().collect();
        d.rotate_left(0);
        Self(d)
    }
}
impl<T> IntoIterator for Ring<T> {
    type Item = T;
    type IntoIter = std::iter::Chain<std::collections::vec_deque::IntoIter<T>, std::iter::Empty<T>>;
    fn into_iter(self) -> Self::IntoIter {
        self.0.into_iter().chain(std::iter::empty())
    }
}

#[derive(Clone, Copy, Debug, PartialEq, Serialize, Deserialize)]
pub enum Ctor {
    New,
    WithEmptyRate(f64),
    WithoutEmpty,
}

#[derive(Clone, Debug, Serialize, Deserialize)]
pub enum Case {
    Flip {
        genome: FlipGenome,
        bits: Vec<bool>,
        /// None = WithOneOverLength
        rate: Option<f32>,
        script: Vec<u64>,
    },
    Umad {
        genome: UmadGenome,
        len: usize,
        add: f64,
        del: f64,
        ctor: Ctor,
        script: Vec<u64>,
        /// Plushy only: parent positions that hold a close marker instead of a (distinct) literal
        #[serde(default)]
        closes: Vec<bool>,
        /// other parents the same mutator value is used on before the judged mutation (see `umad_case`)
        #[serde(default)]
        warm: u8,
    },
}

/// a gene that remembers its position and whether it was negated
#[derive(Clone, Copy, Debug, PartialEq, Eq)]
pub struct TagBit {
    pub pos: u32,
    pub flipped: bool,
}

impl std::ops::Not for TagBit {
    type Output = Self;
    fn not(self) -> Self {
        Self {
            pos: self.pos,
            flipped: !self.flipped,
        }
    }
}

#[derive(Clone, Copy, Debug, PartialEq, Eq)]
pub enum Tg {
    Parent(u32),
    New(u32),
}

/// gene generator with a disjoint alphabet; every produced gene has a fresh serial
pub struct NewGenes {
    next: Cell<u32>,
    produced: RefCell<Vec<u32>>,
}

impl NewGenes {
    fn new() -> Self {
        Self {
            next: Cell::new(0),
            produced: RefCell::new(vec![]),
        }
    }
    fn fresh<R: Rng + ?Sized>(&self, rng: &mut R) -> u32 {
        let _ = rng.next_u32();
        let k = self.next.get();
        self.next.set(k + 1);
        self.produced.borrow_mut().push(k);
        k
    }
}

impl Distribution<Tg> for &NewGenes {
    fn sample<R: Rng + ?Sized>(&self, rng: &mut R) -> Tg {
        Tg::New(self.fresh(rng))
    }
}

impl Distribution<PushGene> for &NewGenes {
    fn sample<R: Rng + ?Sized>(&self, rng: &mut R) -> PushGene {
        let k = self.fresh(rng);
        PushGene::Instruction(PushInstruction::InputVar(VariableName::from(format!("new{k}").as_str())))
    }
}

impl Distribution<bool> for &NewGenes {
    fn sample<R: Rng + ?Sized>(&self, rng: &mut R) -> bool {
        self.fresh(rng) % 2 == 0
    }
}

fn check_flip(name: &str, n: usize, out: &[(u32, bool)], rate: Option<f32>) -> Result<usize, Fail> {
    ensure!(
        out.len() == n,
        format!("{name}/length-changed"),
        "genome of {n} genes became {} genes",
        out.len()
    );
    for (i, (pos, _)) in out.iter().enumerate() {
        ensure!(
            *pos as usize == i,
            format!("{name}/gene-moved"),
            "position {i} holds the gene that was at position {pos}"
        );
    }
    let flips = out.iter().filter(|(_, f)| *f).count();
    let eff = rate.unwrap_or(if n == 0 { 0.0 } else { 1.0 / n as f32 });
    if eff <= 0.0 {
        ensure!(flips == 0, format!("{name}/rate-0-not-identity"), "rate 0 flipped {flips} of {n} genes");
    }
    if eff >= 1.0 {
        ensure!(flips == n, format!("{name}/rate-1-not-all-flipped"), "rate {eff} flipped only {flips} of {n} genes");
    }
    Ok(flips)
}

fn flip_case(genome: FlipGenome, bits: &[bool], rate: Option<f32>, script: &[u64], probe: &mut Probe) -> Result<(), Fail> {
    let n = bits.len();
    let mut rng = ScriptRng::new(script, 0xC11);
    let name = format!("{}<{genome:?}>", if rate.is_some() { "WithRate" } else { "WithOneOverLength" });
    let tags = || -> Vec<TagBit> { (0..n as u32).map(|pos| TagBit { pos, flipped: false }).collect() };
    let from_bits = |out: Vec<bool>| -> Vec<(u32, bool)> {
        out.iter()
            .enumerate()
            .map(|(i, b)| (i as u32, bits.get(i).is_some_and(|o| o != b)))
            .collect()
    };
    let from_tags = |out: Vec<TagBit>| -> Vec<(u32, bool)> { out.iter().map(|t| (t.pos, t.flipped)).collect() };
    // in a third of the cases the thread has just mutated genomes of other lengths at other rates
    // (nothing a mutator or its thread remembers from them may influence the judged mutation)
    if script.len() % 3 == 0 {
        probe.label("other genomes mutated on this thread first");
        let mut warm_rng = ScriptRng::new(&[], 0xBEEF ^ n as u64);
        let _ = guarded(|| {
            let _ = WithOneOverLength.mutate(vec![false; n + 5], &mut warm_rng).is_ok();
            let _ = WithRate::new(0.5).mutate(vec![true; 3], &mut warm_rng).is_ok();
            let _ = WithOneOverLength.mutate(Bitstring { bits: vec![true; 2 * n + 1] }, &mut warm_rng).is_ok();
            let _ = WithRate::new(0.03).mutate(Bitstring { bits: vec![false; 40] }, &mut warm_rng).is_ok();
        });
    }
    let r: Result<Result<(usize, Vec<(u32, bool)>), String>, String> = guarded(|| {
        Ok(match (genome, rate) {
            (FlipGenome::VecBool, Some(r)) => {
                let o = WithRate::new(r).mutate(bits.to_vec(), &mut rng).map_err(|e| e.to_string())?;
                (o.len(), from_bits(o))
            }
            (FlipGenome::VecBool, None) => {
                let o = WithOneOverLength.mutate(bits.to_vec(), &mut rng).map_err(|e| e.to_string())?;
                (o.len(), from_bits(o))
            }
            (FlipGenome::Bitstring, Some(r)) => {
                let o = WithRate::new(r).mutate(Bitstring { bits: bits.to_vec() }, &mut rng).map_err(|e| e.to_string())?;
                (o.bits.len(), from_bits(o.bits))
            }
            (FlipGenome::Bitstring, None) => {
                let o = WithOneOverLength.mutate(Bitstring { bits: bits.to_vec() }, &mut rng).map_err(|e| e.to_string())?;
                (o.bits.len(), from_bits(o.bits))
            }
            (FlipGenome::VecTag, Some(r)) => {
                let o = WithRate::new(r).mutate(tags(), &mut rng).map_err(|e| e.to_string())?;
                (o.len(), from_tags(o))
            }
            (FlipGenome::VecTag, None) => {
                let o = WithOneOverLength.mutate(tags(), &mut rng).map_err(|e| e.to_string())?;
                (o.len(), from_tags(o))
            }
            (FlipGenome::VectorTag, Some(r)) => {
                let o = WithRate::new(r).mutate(Vector { genes: tags() }, &mut rng).map_err(|e| e.to_string())?;
                (o.genes.len(), from_tags(o.genes))
            }
            (FlipGenome::VectorTag, None) => {
                let o = WithOneOverLength.mutate(Vector { genes: tags() }, &mut rng).map_err(|e| e.to_string())?;
                (o.genes.len(), from_tags(o.genes))
            }
            (FlipGenome::UserTag, Some(r)) => {
                let o = WithRate::new(r).mutate(tags().into_iter().collect::<Ring<TagBit>>(), &mut rng).map_err(|e| e.to_string())?;
                (o.0.len(), from_tags(o.0.into_iter().collect()))
            }
            (FlipGenome::UserTag, None) => {
                let o = WithOneOverLength.mutate(tags().into_iter().collect::<Ring<TagBit>>(), &mut rng).map_err(|e| e.to_string())?;
                (o.0.len(), from_tags(o.0.into_iter().collect()))
            }
        })
    });
    match r {
        Err(p) => fail!(format!("{name}/panic:{}", panic_key(&p)), "mutating {n} genes with rate {rate:?} panicked: {p}"),
        Ok(Err(e)) => fail!(format!("{name}/error"), "mutating {n} genes with rate {rate:?} failed: {e}"),
        Ok(Ok((_, out))) => {
            let flips = check_flip(&name, n, &out, rate)?;
            let inside = rate.map_or(n >= 2, |r| r > 0.0 && r < 1.0);
            probe.nontrivial = n >= 2 && inside && flips > 0;
            if n == 0 {
                probe.label("empty genome");
            }
            Ok(())
        }
    }
}

/// child as tokens: Ok(parent position) / Err(new serial)
fn check_umad(name: &str, n: usize, child: &[Result<u32, u32>], produced: &[u32], add: f64, del: f64, ctor: Ctor) -> Result<(), Fail> {
    // slots P0 N0 P1 N1 ... ; each token takes a slot strictly after the previous one
    let mut next_slot = 0usize; // smallest usable slot
    let mut seen_new = std::collections::BTreeSet::new();
    for (k, tok) in child.iter().enumerate() {
        match tok {
            Ok(p) => {
                let slot = 2 * (*p as usize);
                ensure!(
                    (*p as usize) < n,
                    format!("{name}/foreign-parent-gene"),
                    "child gene {k} claims parent position {p} of {n}"
                );
                ensure!(
                    slot >= next_slot,
                    format!("{name}/order-or-extra-insertion"),
                    "child {child:?}: parent gene {p} at child position {k} appears out of order, duplicated, or after more than one insertion per position (Ok = parent position, Err = new gene)"
                );
                next_slot = slot + 1;
            }
            Err(serial) => {
                ensure!(
                    produced.contains(serial),
                    format!("{name}/new-gene-not-from-generator"),
                    "new gene #{serial} was not produced by the supplied generator in this call"
                );
                ensure!(
                    seen_new.insert(*serial),
                    format!("{name}/new-gene-duplicated"),
                    "new gene #{serial} appears twice"
                );
                if n == 0 {
                    // empty parent: handled below
                    continue;
                }
                let slot = if next_slot % 2 == 1 { next_slot } else { next_slot + 1 };
                ensure!(
                    slot < 2 * n,
                    format!("{name}/order-or-extra-insertion"),
                    "child {child:?}: more than one new gene after some parent position (or a new gene with no position left)"
                );
                next_slot = slot + 1;
            }
        }
    }
    let news = child.iter().filter(|t| t.is_err()).count();
    let survivors = child.len() - news;
    if n == 0 {
        ensure!(survivors == 0, format!("{name}/foreign-parent-gene"), "empty parent but child has parent genes");
        ensure!(news <= 1, format!("{name}/empty-parent-more-than-one-gene"), "empty parent produced {news} new genes");
        match ctor {
            Ctor::WithoutEmpty => ensure!(news == 0, format!("{name}/empty-addition-disabled-but-added"), "empty-genome addition is disabled but a gene was added"),
            Ctor::New => {
                if add <= 0.0 {
                    ensure!(news == 0, format!("{name}/rate-0-not-identity"), "addition rate 0 added a gene to the empty genome");
                }
            }
            Ctor::WithEmptyRate(e) => {
                if e <= 0.0 {
                    ensure!(news == 0, format!("{name}/rate-0-not-identity"), "empty addition rate 0 added a gene");
                }
            }
        }
        return Ok(());
    }
    if add <= 0.0 && del <= 0.0 {
        ensure!(
            news == 0 && survivors == n,
            format!("{name}/rate-0-not-identity"),
            "rates 0/0 changed the genome: {child:?}"
        );
    }
    if add <= 0.0 {
        ensure!(news == 0, format!("{name}/addition-rate-0-added"), "addition rate 0 but {news} new genes");
    }
    if del <= 0.0 {
        ensure!(survivors == n, format!("{name}/deletion-rate-0-deleted"), "deletion rate 0 but only {survivors} of {n} parent genes survive");
    }
    if del >= 1.0 {
        ensure!(child.is_empty(), format!("{name}/deletion-rate-1-not-empty"), "deletion rate 1 left {child:?}");
    }
    if add >= 1.0 && del <= 0.0 {
        let ok = child.len() == 2 * n && child.iter().enumerate().all(|(k, t)| if k % 2 == 0 { *t == Ok((k / 2) as u32) } else { t.is_err() });
        ensure!(ok, format!("{name}/addition-1-deletion-0-shape"), "addition 1 / deletion 0 must give P0 N P1 N ...; got {child:?}");
    }
    Ok(())
}

fn umad_case(genome: UmadGenome, n: usize, add: f64, del: f64, ctor: Ctor, script: &[u64], closes: &[bool], warm: u8, probe: &mut Probe) -> Result<(), Fail> {
    let gen = NewGenes::new();
    let mut rng = ScriptRng::new(script, 0x0C11);
    // the same mutator value is first used on other parents (an empty one, a longer one): whatever it
    // remembers from them must not influence the judged mutation
    let mut warm_rng = ScriptRng::new(&[], 0xAA ^ u64::from(warm));
    let warm_lens: &[usize] = match warm % 4 {
        0 => &[],
        1 => &[0],
        2 => &[7],
        _ => &[0, 5],
    };
    if warm % 4 != 0 {
        probe.label("mutator value used on other parents first");
    }
    let name = format!("Umad<{genome:?}>");
    fn mk<G>(ctor: Ctor, add: f64, del: f64, g: G) -> Umad<G> {
        match ctor {
            Ctor::New => Umad::new(add, del, g),
            Ctor::WithEmptyRate(e) => Umad::new_with_empty_rate(add, e, del, g),
            Ctor::WithoutEmpty => Umad::new_without_empty(add, del, g),
        }
    }
    let r: Result<Vec<Result<u32, u32>>, String> = guarded(|| match genome {
        UmadGenome::Vector => {
            let parent = Vector {
                genes: (0..n as u32).map(Tg::Parent).collect::<Vec<_>>(),
            };
            let u = mk(ctor, add, del, &gen);
            for l in warm_lens {
                let Ok(_) = u.mutate(Vector { genes: (0..*l as u32).map(Tg::Parent).collect::<Vec<_>>() }, &mut warm_rng);
            }
            gen.produced.borrow_mut().clear();
            let Ok(child) = u.mutate(parent, &mut rng);
            child
                .genes
                .iter()
                .map(|g| match g {
                    Tg::Parent(p) => Ok(*p),
                    Tg::New(s) => Err(*s),
                })
                .collect()
        }
        UmadGenome::User => {
            let parent: Ring<Tg> = (0..n as u32).map(Tg::Parent).collect();
            let u = mk(ctor, add, del, &gen);
            for l in warm_lens {
                let Ok(_) = u.mutate((0..*l as u32).map(Tg::Parent).collect::<Ring<Tg>>(), &mut warm_rng);
            }
            gen.produced.borrow_mut().clear();
            let Ok(child) = u.mutate(parent, &mut rng);
            child
                .0
                .iter()
                .map(|g| match g {
                    Tg::Parent(p) => Ok(*p),
                    Tg::New(s) => Err(*s),
                })
                .collect()
        }
        UmadGenome::Plushy => {
            let is_close = |i: usize| closes.get(i).copied().unwrap_or(false);
            let parent_genes: Vec<PushGene> = (0..n).map(|i| if is_close(i) { PushGene::Close } else { PushGene::Instruction(PushInstruction::push_int(i as i64)) }).collect();
            let parent = Plushy::new(parent_genes.clone());
            let u = mk(ctor, add, del, &gen);
            for l in warm_lens {
                let Ok(_) = u.mutate(Plushy::new((0..*l).map(|i| PushGene::Instruction(PushInstruction::push_int(1000 + i as i64)))), &mut warm_rng);
            }
            gen.produced.borrow_mut().clear();
            let Ok(child) = u.mutate(parent, &mut rng);
            // close markers are indistinguishable: walk the slot grammar P0 N0 P1 N1 ... and give
            // every surviving gene the leftmost parent position that is still reachable (greedy is
            // optimal: a smaller slot never hurts later tokens)
            let mut next_slot = 0usize;
            child
                .get_genes()
                .iter()
                .map(|g| match g {
                    PushGene::Instruction(PushInstruction::InputVar(v)) => {
                        let slot = if next_slot % 2 == 1 { next_slot } else { next_slot + 1 };
                        next_slot = slot + 1;
                        Err(v.to_string().trim_start_matches("new").parse::<u32>().unwrap_or(u32::MAX))
                    }
                    other => match (next_slot.div_ceil(2)..n).find(|j| parent_genes[*j] == *other) {
                        Some(j) => {
                            next_slot = 2 * j + 1;
                            Ok(j as u32)
                        }
                        None => Ok(u32::MAX),
                    },
                })
                .collect()
        }
        UmadGenome::Bitstring => {
            // genes cannot carry tags; only the size bounds are observable
            let parent = Bitstring { bits: vec![true; n] };
            let u = mk(ctor, add, del, &gen);
            for l in warm_lens {
                let Ok(_) = u.mutate(Bitstring { bits: vec![false; *l] }, &mut warm_rng);
            }
            gen.produced.borrow_mut().clear();
            let Ok(child) = u.mutate(parent, &mut rng);
            let produced = gen.produced.borrow().len();
            let len = child.bits.len();
            // encode: as many "new" tokens as generator calls (bounded), the rest unknown -> checked separately
            let _ = produced;
            (0..len).map(|_| Ok(u32::MAX - 1)).collect()
        }
    });
    let child = match r {
        Ok(c) => c,
        Err(p) => fail!(format!("{name}/panic:{}", panic_key(&p)), "UMAD({add}, {del}, {ctor:?}) on {n} genes panicked: {p}"),
    };
    let produced = gen.produced.borrow().clone();
    if genome == UmadGenome::Bitstring {
        let len = child.len();
        ensure!(
            len <= 2 * n.max(usize::from(n == 0)),
            format!("{name}/too-long"),
            "child of a {n}-bit parent has {len} bits"
        );
        ensure!(
            len <= n + produced.len(),
            format!("{name}/genes-from-nowhere"),
            "child has {len} bits but the parent had {n} and the generator produced {}",
            produced.len()
        );
        if n == 0 && ctor == Ctor::WithoutEmpty {
            ensure!(len == 0, format!("{name}/empty-addition-disabled-but-added"), "empty-genome addition is disabled but a gene was added");
        }
        if del >= 1.0 && n > 0 {
            ensure!(len == 0, format!("{name}/deletion-rate-1-not-empty"), "deletion rate 1 left {len} bits");
        }
        if add <= 0.0 && del <= 0.0 && n > 0 {
            ensure!(len == n, format!("{name}/rate-0-not-identity"), "rates 0/0 changed the length to {len}");
        }
        probe.nontrivial = n >= 2 && len != n;
        return Ok(());
    }
    check_umad(&name, n, &child, &produced, add, del, ctor)?;
    let inside = |r: f64| r > 0.0 && r < 1.0;
    let changed = child.len() != n || child.iter().any(Result::is_err);
    probe.nontrivial = n >= 2 && (inside(add) || inside(del)) && changed;
    if n == 0 {
        probe.label("empty parent");
    }
    if child.iter().any(Result::is_err) && child.iter().any(Result::is_ok) {
        probe.label("insertions and survivors");
    }
    Ok(())
}

pub fn oracle(case: &Case, probe: &mut Probe) -> Result<(), Fail> {
    match case {
        Case::Flip {
            genome,
            bits,
            rate,
            script,
        } => flip_case(*genome, bits, *rate, script, probe),
        Case::Umad {
            genome,
            len,
            add,
            del,
            ctor,
            script,
            closes,
            warm,
        } => umad_case(*genome, *len, *add, *del, *ctor, script, closes, *warm, probe),
    }
}

fn rate01() -> impl Strategy<Value = f64> {
    prop_oneof![2 => Just(0.0f64), 2 => Just(1.0f64), 5 => 0.0f64..=1.0, 2 => (1u32..20).prop_map(|k| f64::from(k) / 20.0)]
}

pub fn strategy(max_len: usize) -> BoxedStrategy<Case> {
    let script = || crate::rngs::script_strategy(24);
    let flip = (
        prop::sample::select(vec![FlipGenome::VecBool, FlipGenome::Bitstring, FlipGenome::VecTag, FlipGenome::VectorTag, FlipGenome::UserTag]),
        prop::collection::vec(any::<bool>(), 0..=max_len),
        prop_oneof![
            2 => Just(None),
            2 => Just(Some(0.0f32)),
            2 => Just(Some(1.0f32)),
            1 => Just(Some(1.5f32)),
            1 => Just(Some(f32::MAX)),
            5 => (0.0f32..=1.0).prop_map(Some),
        ],
        script(),
    )
        .prop_map(|(genome, bits, rate, script)| Case::Flip { genome, bits, rate, script });
    let umad = (
        prop::sample::select(vec![UmadGenome::Vector, UmadGenome::Vector, UmadGenome::Plushy, UmadGenome::Plushy, UmadGenome::Bitstring, UmadGenome::User]),
        prop_oneof![1 => Just(0usize), 1 => Just(1usize), 5 => 0usize..=max_len],
        rate01(),
        rate01(),
        prop_oneof![3 => Just(Ctor::New), 2 => rate01().prop_map(Ctor::WithEmptyRate), 2 => Just(Ctor::WithoutEmpty)],
        script(),
        prop_oneof![1 => Just(vec![]), 2 => prop::collection::vec(prop::bool::weighted(0.35), 0..=max_len)],
        prop_oneof![3 => Just(0u8), 2 => 1u8..4],
    )
        .prop_map(|(genome, len, add, del, ctor, script, closes, warm)| Case::Umad { genome, len, add, del, ctor, script, closes, warm });
    prop_oneof![1 => flip, 2 => umad].boxed()
}

pub fn run(ctx: &mut Ctx) {
    ctx.rule = "flip mutators (WithRate with rates {0, 1, >1} u (0,1); WithOneOverLength) on Vec<bool>, Bitstring, Vec<TagBit>, Vector<TagBit> and a user-defined genome type (own Linear / FromIterator / IntoIterator impls over a ring buffer) (genes carry position and a negation flag); UMAD through all three constructors on Vector<tagged genes>, Plushy (parent gene i = literal i or a close marker, new genes from a disjoint alphabet with fresh serials) and Bitstring (sizes only), lengths 0..40 (and, in a second sub-check, up to 700; thorough 120 / 6000), generated random stream; in two fifths of the UMAD cases the same mutator value is first used on an empty and / or a longer parent. non-trivial = len >= 2, a rate strictly inside (0,1), child differs from parent; distinct by JSON encoding".into();
    let (n, len) = ctx.tier.pick((1_000_000u32, 40usize), (12_000_000, 120));
    ctx.run_prop("mutations", n, move || strategy(len), oracle);
    // long genomes: nothing structural may depend on a machine-word, byte-counter or buffer size
    let (n_long, long) = ctx.tier.pick((30_000u32, 700usize), (400_000, 6_000));
    ctx.run_prop("mutations_long_genomes", n_long, move || strategy(long), oracle);
    // coverage-guided search over the same strategies and oracles (thorough tier; see ptfuzz.rs)
    crate::ptfuzz::thorough(ctx, &[("c11", 16, 1_500_000), ("c11L", 16, 200_000)]);
}

pub fn replay(ctx: &mut Ctx, sub: &str, case: &Value) {
    ctx.replay_case::<Case, _>(sub, case, oracle);
}
