//! C07 — best / worst / tournament apply the intended selection pressure.

use std::cell::RefCell;
use std::cmp::Ordering;
use std::collections::BTreeMap;
use std::num::NonZeroUsize;

use ec_core::operator::selector::best::Best;
use ec_core::operator::selector::tournament::Tournament;
use ec_core::operator::selector::worst::Worst;
use ec_core::operator::selector::Selector;
use ec_core::population::Population;
use proptest::prelude::*;
use rand::rngs::StdRng;
use rand::SeedableRng;
use serde::{Deserialize, Serialize};
use serde_json::Value;

use crate::rngs::ScriptRng;
use crate::selharness::PaddedVec;
use crate::stats::{binom, run_jobs, Job, Stat};
use crate::{ensure, fail, guarded, panic_key, splitmix, Ctx, Fail, Probe};

thread_local! {
    static COMPARED: RefCell<Vec<u32>> = const { RefCell::new(Vec::new()) };
}

/// individual ordered by `key`; every comparison logs the ids involved
#[derive(Debug, Clone)]
pub struct PInd {
    pub id: u32,
    pub key: i64,
}

impl PartialEq for PInd {
    fn eq(&self, o: &Self) -> bool {
        self.key == o.key
    }
}
impl Eq for PInd {}
impl PartialOrd for PInd {
    fn partial_cmp(&self, o: &Self) -> Option<Ordering> {
        Some(self.cmp(o))
    }
}
impl Ord for PInd {
    fn cmp(&self, o: &Self) -> Ordering {
        COMPARED.with(|c| {
            let mut c = c.borrow_mut();
            c.push(self.id);
            c.push(o.id);
        });
        self.key.cmp(&o.key)
    }
}

fn take_compared() -> Vec<u32> {
    COMPARED.with(|c| {
        let mut v = std::mem::take(&mut *c.borrow_mut());
        v.sort_unstable();
        v.dedup();
        v
    })
}

fn pop_of(keys: &[i64]) -> Vec<PInd> {
    keys.iter().enumerate().map(|(i, k)| PInd { id: i as u32, key: *k }).collect()
}

/// One tournament draw with the sampled subset recovered from the comparison log.
fn draw<S, P, R: rand::Rng>(t: &S, population: &P, k: usize, rng: &mut R) -> Result<(u32, Vec<u32>), Fail>
where
    S: Selector<P>,
    S::Error: std::fmt::Display,
    P: Population<Individual = PInd> + AsRef<[PInd]>,
{
    let pop: &[PInd] = population.as_ref();
    take_compared();
    let r = guarded(|| t.select(population, rng).map(|w| (w.id, std::ptr::from_ref(w))));
    let mut s = take_compared();
    if let Some(stranger) = s.iter().find(|i| **i as usize >= pop.len()) {
        return Err(Fail::new("Tournament/compared-a-non-member", format!("a tournament of {k} over {} individuals compared individual {stranger}, which is not in the population", pop.len())));
    }
    match r {
        Err(p) => Err(Fail::new(format!("Tournament/panic:{}", panic_key(&p)), format!("tournament of {k} over {} panicked: {p}", pop.len()))),
        Ok(Err(e)) => Err(Fail::new("Tournament/spurious-error", format!("tournament of {k} over {}: {e}", pop.len()))),
        Ok(Ok((id, ptr))) => {
            if !pop.iter().any(|i| std::ptr::eq(i, ptr)) {
                return Err(Fail::new("Tournament/not-a-member", "winner is not an element of the population"));
            }
            if k == 1 && s.is_empty() {
                s = vec![id];
            }
            if !s.contains(&id) {
                s.push(id);
                s.sort_unstable();
            }
            if k >= 2 && s.len() < k {
                return Err(Fail::new(
                    "Tournament/fewer-than-k-distinct",
                    format!(
                        "a tournament of size {k} over {} individuals compared only the {} distinct individuals {s:?}; k distinct individuals must take part (sampling without replacement)",
                        pop.len(),
                        s.len()
                    ),
                ));
            }
            let best = s.iter().map(|i| pop[*i as usize].key).max().unwrap_or(i64::MIN);
            if pop[id as usize].key != best {
                return Err(Fail::new(
                    "Tournament/winner-not-best-of-sample",
                    format!("tournament sample {s:?} (keys {:?}) returned individual {id} with key {}", s.iter().map(|i| pop[*i as usize].key).collect::<Vec<_>>(), pop[id as usize].key),
                ));
            }
            Ok((id, s))
        }
    }
}

#[derive(Clone, Debug, Serialize, Deserialize)]
pub struct Case {
    pub keys: Vec<i64>,
    pub k: usize,
    pub script: Vec<u64>,
    /// > 0: before every judged draw the same thread runs a tournament over another population that is
    /// this many individuals larger (whatever a selector or its thread remembers must not leak)
    #[serde(default)]
    pub other: u8,
    /// > 0: the population is a user-defined type whose live individuals are a prefix of a larger store
    /// (this many strangers lie behind it), with a lazy borrowed iterator and a hand-written size()
    #[serde(default)]
    pub padded: u8,
}

/// The same claims on the library's own individuals: `EcIndividual`s ordered by their `TestResults`, whose
/// per-case result vectors have different lengths and shapes while the totals are the keys.
fn library_individuals(c: &Case) -> Result<(), Fail> {
    use ec_core::test_results::{Error as ErrRes, Score};
    let rows: Vec<Vec<i64>> = c
        .keys
        .iter()
        .enumerate()
        .map(|(i, k)| match i % 3 {
            0 => vec![*k],
            1 => vec![k.wrapping_sub(1), 1],
            _ => vec![0, *k, 0],
        })
        .collect();
    if c.keys.iter().any(|k| k.checked_sub(1).is_none()) || rows.is_empty() {
        return Ok(());
    }
    let n = rows.len();
    let k = c.k.max(1).min(n);
    macro_rules! on {
        ($name:literal, $pop:expr, $best_key:expr, $worst_key:expr, $not_better:expr) => {{
            let pop = $pop;
            let mut rng = ScriptRng::new(&c.script, 0xC07E);
            let key_of = |g: u32| c.keys[g as usize];
            for (what, want) in [("Best", $best_key), ("Worst", $worst_key)] {
                let r = guarded(|| if what == "Best" { Best.select(&pop, &mut rng).map(|w| w.genome).map_err(|e| e.to_string()) } else { Worst.select(&pop, &mut rng).map(|w| w.genome).map_err(|e| e.to_string()) });
                match r {
                    Err(p) => fail!(format!("{what}/panic:{}", panic_key(&p)), "{what} on {n} {} individuals panicked: {p}", $name),
                    Ok(Err(e)) => fail!(format!("{what}/spurious-error"), "{what} on {n} {} individuals: {e}", $name),
                    Ok(Ok(g)) => ensure!(
                        Some(&key_of(g)) == want,
                        format!("{what}/not-extremal"),
                        "{what} over {} individuals with totals {:?} (result vectors of different lengths) returned the individual with total {}",
                        $name,
                        c.keys,
                        key_of(g)
                    ),
                }
            }
            for size in [n, k] {
                let t = Tournament::new(NonZeroUsize::new(size).unwrap_or(NonZeroUsize::MIN));
                match guarded(|| t.select(&pop, &mut rng).map(|w| w.genome).map_err(|e| e.to_string())) {
                    Err(p) => fail!(format!("Tournament/panic:{}", panic_key(&p)), "tournament of {size} over {n} {} individuals panicked: {p}", $name),
                    Ok(Err(e)) => fail!("Tournament/spurious-error", "tournament of {size} over {n} {} individuals: {e}", $name),
                    Ok(Ok(g)) => {
                        let not_better = (0..n as u32).filter(|o| *o != g && $not_better(key_of(*o), key_of(g))).count();
                        ensure!(
                            not_better >= size - 1,
                            "Tournament/winner-rank",
                            "the winner of a size-{size} tournament over {} individuals with totals {:?} (result vectors of different lengths) has total {} and is at least as good as only {not_better} others",
                            $name,
                            c.keys,
                            key_of(g)
                        );
                    }
                }
            }
        }};
    }
    on!("score", crate::props::c06::population::<Score<i64>>(&rows, |r| Score(r.iter().sum())), c.keys.iter().max(), c.keys.iter().min(), |other: i64, winner: i64| other <= winner);
    on!("error", crate::props::c06::population::<ErrRes<i64>>(&rows, |r| ErrRes(r.iter().sum())), c.keys.iter().min(), c.keys.iter().max(), |other: i64, winner: i64| other >= winner);
    Ok(())
}

pub fn oracle(c: &Case, probe: &mut Probe) -> Result<(), Fail> {
    library_individuals(c)?;
    if c.padded == 0 {
        oracle_on(c, probe, |keys| pop_of(keys))
    } else {
        probe.label("user-defined population type (lazy iterator, hand-written size, padded store)");
        // behind the live prefix lie strangers that would beat (or lose to) everybody
        let extras = usize::from(c.padded);
        oracle_on(c, probe, move |keys| {
            let n = keys.len();
            PaddedVec::with_extras(pop_of(keys), (0..extras).map(|e| PInd { id: (n + e) as u32, key: if e % 2 == 0 { i64::MAX } else { i64::MIN } }))
        })
    }
}

fn oracle_on<P>(c: &Case, probe: &mut Probe, make: impl Fn(&[i64]) -> P) -> Result<(), Fail>
where
    P: Population<Individual = PInd> + AsRef<[PInd]>,
    for<'a> &'a P: IntoIterator<Item = &'a PInd>,
{
    let population = make(&c.keys);
    let pop: &[PInd] = population.as_ref();
    let n = pop.len();
    let mut rng = ScriptRng::new(&c.script, 0xC07);
    // best / worst
    for (name, want) in [("Best", c.keys.iter().max()), ("Worst", c.keys.iter().min())] {
        let r = guarded(|| {
            if name == "Best" {
                Best.select(&population, &mut rng).map(|w| (w.key, std::ptr::from_ref(w))).map_err(|e| e.to_string())
            } else {
                Worst.select(&population, &mut rng).map(|w| (w.key, std::ptr::from_ref(w))).map_err(|e| e.to_string())
            }
        });
        take_compared();
        match (r, want) {
            (Err(p), _) => fail!(format!("{name}/panic:{}", panic_key(&p)), "{name} on {n} individuals panicked: {p}"),
            (Ok(Err(_)), None) => {}
            (Ok(Err(e)), Some(_)) => fail!(format!("{name}/spurious-error"), "{name} on {n} individuals: {e}"),
            (Ok(Ok(_)), None) => fail!(format!("{name}/empty-population-accepted"), "{name} returned an individual from an empty population"),
            (Ok(Ok((key, ptr))), Some(w)) => {
                ensure!(pop.iter().any(|i| std::ptr::eq(i, ptr)), format!("{name}/not-a-member"), "{name} returned a non-member");
                ensure!(
                    key == *w,
                    format!("{name}/not-extremal"),
                    "{name} over keys {:?} returned key {key}, the extremal key is {w}",
                    c.keys
                );
            }
        }
    }
    // tournament
    let k = c.k.max(1);
    let t = Tournament::new(NonZeroUsize::new(k).unwrap_or(NonZeroUsize::MIN));
    if k > n {
        take_compared();
        let r = guarded(|| t.select(&population, &mut rng).map(|w| w.id).map_err(|e| e.to_string()));
        match r {
            Err(p) => fail!("Tournament/panic-size", "tournament of {k} over {n} panicked: {p}"),
            Ok(Ok(id)) => fail!("Tournament/oversized-accepted", "tournament of {k} over {n} individuals returned {id}"),
            Ok(Err(_)) => {}
        }
        probe.label("k > n");
        probe.nontrivial = true;
        return Ok(());
    }
    let other_pop = make(&(0..(n + usize::from(c.other)) as i64).collect::<Vec<_>>());
    for _ in 0..3 {
        if c.other > 0 {
            let _ = guarded(|| t.select(&other_pop, &mut rng).map(|w| w.id).ok());
            take_compared();
        }
        let (id, s) = draw(&t, &population, k, &mut rng)?;
        // at least as good as k-1 other members
        let not_better = pop.iter().filter(|i| i.id != id && i.key <= pop[id as usize].key).count();
        ensure!(
            not_better >= k - 1,
            "Tournament/winner-rank",
            "winner {id} (key {}) of a size-{k} tournament is at least as good as only {not_better} others; sample {s:?}",
            pop[id as usize].key
        );
        if s.len() > k {
            probe.label("more than k individuals compared (subset law not applicable)");
        }
    }
    let distinct = {
        let mut d = c.keys.clone();
        d.sort_unstable();
        d.dedup();
        d.len()
    };
    probe.nontrivial = n >= 3 && distinct >= 2 && k > 1 && k < n;
    if distinct < n {
        probe.label("ties");
    }
    if k == n {
        probe.label("k = n");
    }
    if k == 1 {
        probe.label("k = 1");
    }
    Ok(())
}

pub fn strategy(max_n: usize) -> BoxedStrategy<Case> {
    (prop_oneof![3 => 0usize..=8, 2 => 0usize..=max_n])
        .prop_flat_map(|n| {
            let key = prop_oneof![3 => 0i64..4, 2 => -100i64..100, 1 => any::<i64>()];
            (
                prop::collection::vec(key, n),
                prop_oneof![4 => 1usize..=n.max(1), 1 => Just(n + 1), 1 => Just(n), 1 => Just(1usize)],
                crate::rngs::script_strategy(24),
                prop_oneof![3 => Just(0u8), 1 => 1u8..9],
                prop_oneof![3 => Just(0u8), 1 => 1u8..4],
            )
        })
        .prop_map(|(keys, k, script, other, padded)| Case { keys, k, script, other, padded })
        .boxed()
}

fn subsets(n: usize, k: usize) -> Vec<Vec<u32>> {
    (0u32..(1 << n))
        .filter(|m| m.count_ones() as usize == k)
        .map(|m| (0..n as u32).filter(|i| m >> i & 1 == 1).collect())
        .collect()
}

fn law_jobs(seed: u64) -> Vec<Job> {
    let mut jobs = vec![];
    let mut cfg = 0u64;
    for n in 1usize..=7 {
        for k in 1..=n {
            // variant 2: every judged draw is preceded, on the same thread, by a tournament of the same
            // size over another population of n + 5 individuals (the law of the judged draw is unchanged)
            // variant 3: the same with a *smaller* other population (n - 1 or n - 2 individuals), which is also the
            // first one the selector value ever sees
            for variant in 0..4u64 {
                if variant == 1 && (n < 3 || (n + k) % 2 == 0) {
                    continue;
                }
                if variant == 2 && (n < 3 || (n + k) % 3 != 0) {
                    continue;
                }
                if variant == 3 && (n < 3 || (n + k) % 2 == 1) {
                    continue;
                }
                let alternating = variant >= 2;
                let other_n = if variant == 3 { n - 1 - (k % 2).min(n - 2) } else { n + 5 };
                cfg += 1;
                let keys: Vec<i64> = (0..n)
                    .map(|i| {
                        if variant != 1 {
                            // distinct keys in a seed-dependent order
                            ((splitmix(seed ^ cfg ^ (i as u64) << 8) % 1000) as i64) * 8 + i as i64
                        } else {
                            (splitmix(seed ^ cfg ^ (i as u64) << 8) % 3) as i64
                        }
                    })
                    .collect();
                let name = format!("Tournament({k}) over keys {keys:?}{}", if alternating { format!(", alternating with a population of {other_n}") } else { String::new() });
                let keys2 = keys.clone();
                jobs.push(Job {
                    name: name.clone(),
                    run: Box::new(move |trials, seed| {
                        let pop = pop_of(&keys2);
                        let t = Tournament::new(NonZeroUsize::new(k).unwrap_or(NonZeroUsize::MIN));
                        let erased: Box<dyn ec_core::operator::selector::DynSelector<Vec<PInd>> + Send + Sync> = Box::new(Tournament::new(NonZeroUsize::new(k).unwrap_or(NonZeroUsize::MIN)));
                        let mut rng = StdRng::seed_from_u64(seed);
                        let mut subset_counts: BTreeMap<Vec<u32>, u64> = BTreeMap::new();
                        let mut winner_key: BTreeMap<i64, u64> = BTreeMap::new();
                        let mut winner_id = vec![0u64; n];
                        let mut oversampled = 0u64;
                        let other_pop = pop_of(&(0..other_n as i64).collect::<Vec<_>>());
                        let (mut prev_key, mut same_pairs) = (None::<i64>, 0u64);
                        for trial in 0..trials {
                            if alternating {
                                let _ = t.select(&other_pop, &mut rng).map(|w| w.id).ok();
                                take_compared();
                            }
                            // every third configuration goes through the type-erased form of the selector
                            let (id, s) = if cfg % 3 == 1 { draw(&erased, &pop, k, &mut rng)? } else { draw(&t, &pop, k, &mut rng)? };
                            if trial % 2 == 1 && prev_key == Some(pop[id as usize].key) {
                                same_pairs += 1;
                            }
                            prev_key = Some(pop[id as usize].key);
                            if s.len() == k {
                                *subset_counts.entry(s).or_default() += 1;
                            } else {
                                oversampled += 1;
                            }
                            *winner_key.entry(pop[id as usize].key).or_default() += 1;
                            winner_id[id as usize] += 1;
                        }
                        let all = subsets(n, k);
                        let c = binom(n as u64, k as u64);
                        let mut stats = vec![];
                        if oversampled == 0 {
                            for s in &all {
                                stats.push(Stat::new(
                                    "Tournament/subset-not-uniform",
                                    format!("{name}: sample {s:?}"),
                                    subset_counts.get(s).copied().unwrap_or(0),
                                    trials,
                                    1.0 / c,
                                ));
                            }
                        }
                        // winner law per key class by enumerating all k-subsets
                        let mut law: BTreeMap<i64, f64> = BTreeMap::new();
                        for key in &keys2 {
                            law.entry(*key).or_insert(0.0);
                        }
                        for s in &all {
                            let best = s.iter().map(|i| keys2[*i as usize]).max().unwrap_or(0);
                            *law.entry(best).or_default() += 1.0 / c;
                        }
                        let p_same: f64 = law.values().map(|p| p * p).sum();
                        for (key, p) in law {
                            stats.push(Stat::new(
                                "Tournament/winner-law",
                                format!("{name}: winner has key {key}"),
                                winner_key.get(&key).copied().unwrap_or(0),
                                trials,
                                p.min(1.0),
                            ));
                        }
                        // successive tournaments are independent
                        stats.push(Stat::new("Tournament/successive-tournaments-not-independent", format!("{name}: two successive winners have the same key"), same_pairs, trials / 2, p_same.min(1.0)));
                        if k == 1 {
                            for (i, w) in winner_id.iter().enumerate() {
                                stats.push(Stat::new("Tournament/size-1-not-uniform", format!("{name}: individual {i} chosen"), *w, trials, 1.0 / n as f64));
                            }
                        }
                        Ok(stats)
                    }),
                });
            }
        }
    }
    jobs
}

/// Larger populations: inclusion of every individual at k/n, co-inclusion of individual pairs at
/// k(k-1)/(n(n-1)), and the winner-rank law C(r-1,k-1)/C(n,k) for distinct keys (ranks pooled into
/// at most 12 classes), so that a fast path that only acts beyond some population or tournament
/// size cannot hide behind the small-scope enumeration above.
fn large_law_jobs(seed: u64) -> Vec<Job> {
    let mut jobs = vec![];
    let configs: [(usize, usize); 14] = [(9, 4), (12, 2), (12, 7), (16, 3), (17, 15), (31, 2), (32, 5), (33, 20), (64, 2), (64, 7), (65, 40), (100, 3), (150, 10), (300, 37)];
    for (ci, (n, k)) in configs.into_iter().enumerate() {
        // distinct keys in a seed-dependent order: key = rank (0 = worst)
        let mut ranks: Vec<usize> = (0..n).collect();
        for i in (1..n).rev() {
            let j = (splitmix(seed ^ 0x1A26E ^ ((ci as u64) << 32) ^ i as u64) % (i as u64 + 1)) as usize;
            ranks.swap(i, j);
        }
        let name = format!("Tournament({k}) over {n} distinct keys");
        jobs.push(Job {
            name: name.clone(),
            run: Box::new(move |trials, seed| {
                let keys: Vec<i64> = ranks.iter().map(|r| *r as i64).collect();
                let pop = pop_of(&keys);
                let t = Tournament::new(NonZeroUsize::new(k).unwrap_or(NonZeroUsize::MIN));
                let erased: Box<dyn ec_core::operator::selector::DynSelector<Vec<PInd>> + Send + Sync> = Box::new(ec_core::operator::selector::dyn_weighted::DynWeighted::new(Tournament::new(NonZeroUsize::new(k).unwrap_or(NonZeroUsize::MIN)), 2));
                let mut rng = StdRng::seed_from_u64(seed);
                let trials = (trials / 4).max(50_000);
                let mut included = vec![0u64; n];
                let mut exact = 0u64;
                // pairs (i, i+1 mod n) and (i, i + n/2 mod n)
                let mut pair_adj = vec![0u64; n];
                let mut pair_far = vec![0u64; n];
                let mut rank_wins = vec![0u64; n];
                // every second configuration: the selector value has first been used on a smaller population (and in
                // every fourth keeps being used on it in alternation); nothing of that may show in the judged draws
                let smaller = pop_of(&(0..(n * 2 / 3).max(1) as i64).collect::<Vec<_>>());
                if ci % 2 == 1 {
                    for _ in 0..3 {
                        let _ = t.select(&smaller, &mut rng).map(|w| w.id).ok();
                        take_compared();
                    }
                }
                for _ in 0..trials {
                    if ci % 4 == 3 {
                        let _ = t.select(&smaller, &mut rng).map(|w| w.id).ok();
                        take_compared();
                    }
                    let (id, s) = if ci % 3 == 2 { draw(&erased, &pop, k, &mut rng)? } else { draw(&t, &pop, k, &mut rng)? };
                    rank_wins[ranks[id as usize]] += 1;
                    if s.len() == k {
                        exact += 1;
                        let mut inset = vec![false; n];
                        for i in &s {
                            inset[*i as usize] = true;
                            included[*i as usize] += 1;
                        }
                        for i in 0..n {
                            if inset[i] && inset[(i + 1) % n] {
                                pair_adj[i] += 1;
                            }
                            if inset[i] && inset[(i + n / 2) % n] {
                                pair_far[i] += 1;
                            }
                        }
                    }
                }
                let mut stats = vec![];
                // the comparison log shows all k entrants only when every entrant takes part in a comparison (k >= 2);
                // if an implementation compares more than k individuals the subset statistics are skipped
                if exact == trials && k >= 2 {
                    let p_in = k as f64 / n as f64;
                    let p_pair = (k * (k - 1)) as f64 / (n * (n - 1)) as f64;
                    for i in 0..n {
                        stats.push(Stat::new("Tournament/subset-not-uniform", format!("{name}: individual {i} takes part"), included[i], trials, p_in));
                    }
                    for i in 0..n {
                        if n > 2 {
                            stats.push(Stat::new("Tournament/subset-not-uniform", format!("{name}: individuals {i} and {} both take part", (i + 1) % n), pair_adj[i], trials, p_pair));
                        }
                        if n > 3 && n / 2 != 1 && (i + n / 2) % n != i {
                            stats.push(Stat::new("Tournament/subset-not-uniform", format!("{name}: individuals {i} and {} both take part", (i + n / 2) % n), pair_far[i], trials, p_pair));
                        }
                    }
                }
                // winner rank law, ranks pooled from the top into <= 12 classes of comparable mass
                let c = binom(n as u64, k as u64);
                let law: Vec<f64> = (0..n).map(|r| binom(r as u64, k as u64 - 1) / c).collect(); // rank r (0-based) wins: C(r, k-1)/C(n,k)
                let mut lo = n;
                let mut class = 0;
                while lo > 0 && class < 12 {
                    let mut hi = lo;
                    let mut mass = 0.0;
                    let mut wins = 0u64;
                    while lo > 0 && (mass < 1.0 / 12.0 || class == 11) {
                        lo -= 1;
                        mass += law[lo];
                        wins += rank_wins[lo];
                    }
                    stats.push(Stat::new("Tournament/winner-law", format!("{name}: winner has rank in {lo}..{hi} (0 = worst)"), wins, trials, mass.min(1.0)));
                    hi = lo;
                    let _ = hi;
                    class += 1;
                }
                Ok(stats)
            }),
        });
    }
    jobs
}

/// Populations beyond 16-bit (and, in thorough runs, 20-bit) sizes: the lowest and the highest position
/// among the k entrants and the winner's rank are judged in 16 buckets each against
/// P(all k entrants among t given individuals) = C(t,k)/C(n,k).
fn huge_law_jobs(seed: u64, thorough: bool) -> Vec<Job> {
    let mut configs: Vec<(usize, usize)> = vec![(65_537, 2), (100_000, 2), (100_000, 3), (300_000, 5)];
    if thorough {
        configs.extend([(1_000_003, 2), (2_000_000, 7), (70_000, 2)]);
    }
    let mut jobs = vec![];
    for (ci, (n, k)) in configs.into_iter().enumerate() {
        let name = format!("Tournament({k}) over {n} distinct keys (position buckets)");
        jobs.push(Job {
            name: name.clone(),
            run: Box::new(move |trials, jseed| {
                // rank of the individual at each position: a seed-dependent permutation
                let mut ranks: Vec<u32> = (0..n as u32).collect();
                for i in (1..n).rev() {
                    let j = (splitmix(seed ^ 0x4A6E ^ ((ci as u64) << 40) ^ i as u64) % (i as u64 + 1)) as usize;
                    ranks.swap(i, j);
                }
                let keys: Vec<i64> = ranks.iter().map(|r| i64::from(*r)).collect();
                let pop = pop_of(&keys);
                let t = Tournament::new(NonZeroUsize::new(k).unwrap_or(NonZeroUsize::MIN));
                let mut rng = StdRng::seed_from_u64(jseed);
                let trials = (trials / 4).max(50_000);
                let bucket = |x: usize| x * 16 / n;
                let (mut lo, mut hi, mut win) = ([0u64; 16], [0u64; 16], [0u64; 16]);
                let mut exact = 0u64;
                for _ in 0..trials {
                    let (id, s) = draw(&t, &pop, k, &mut rng)?;
                    win[bucket(ranks[id as usize] as usize)] += 1;
                    if s.len() == k {
                        exact += 1;
                        lo[bucket(s[0] as usize)] += 1;
                        hi[bucket(s[k - 1] as usize)] += 1;
                    }
                }
                // C(t,k)/C(n,k)
                let all_within = |t: usize| -> f64 { (0..k).map(|j| (t as f64 - j as f64).max(0.0) / (n - j) as f64).product() };
                let edge = |b: usize| (b * n).div_ceil(16); // first position of bucket b
                let mut stats = vec![];
                for b in 0..16 {
                    let (a, z) = (edge(b), edge(b + 1).min(n));
                    // highest position (or the winner's rank) in [a, z): all k within the first z, not all within the first a
                    let p_top = all_within(z) - all_within(a);
                    // lowest position in [a, z): all k at positions >= a, not all at positions >= z
                    let p_low = all_within(n - a) - all_within(n - z);
                    stats.push(Stat::new("Tournament/winner-law", format!("{name}: winner's rank in bucket {b}/16"), win[b], trials, p_top.clamp(0.0, 1.0)));
                    if exact == trials {
                        stats.push(Stat::new("Tournament/subset-not-uniform", format!("{name}: highest entrant position in bucket {b}/16"), hi[b], trials, p_top.clamp(0.0, 1.0)));
                        stats.push(Stat::new("Tournament/subset-not-uniform", format!("{name}: lowest entrant position in bucket {b}/16"), lo[b], trials, p_low.clamp(0.0, 1.0)));
                    }
                }
                Ok(stats)
            }),
        });
    }
    jobs
}

/// The named constructors are the sizes they say.
fn constructor_check(ctx: &mut Ctx) {
    let cases: Vec<(&str, Tournament, usize)> = vec![
        ("Tournament::binary()", Tournament::binary(), 2),
        ("Tournament::of_size::<1>()", Tournament::of_size::<1>(), 1),
        ("Tournament::of_size::<2>()", Tournament::of_size::<2>(), 2),
        ("Tournament::of_size::<3>()", Tournament::of_size::<3>(), 3),
        ("Tournament::of_size::<7>()", Tournament::of_size::<7>(), 7),
    ];
    let seed = ctx.seed;
    ctx.run_cases("named_constructors", cases.iter().map(|(n, _, k)| ((*n).to_string(), *k)).collect::<Vec<_>>(), |(name, k), probe| {
        let t = &cases.iter().find(|(n, _, _)| n == name).expect("listed").1;
        let k = *k;
        probe.nontrivial = true;
        // exactly k-1 individuals: must be refused; k individuals: everyone takes part and the best wins
        let small = pop_of(&(0..k as i64 - 1).collect::<Vec<_>>());
        let mut rng = StdRng::seed_from_u64(seed ^ k as u64);
        take_compared();
        ensure!(guarded(|| t.select(&small, &mut rng).is_err()).unwrap_or(false), "Tournament/constructor-size", "{name} accepted a population of {} individuals", k - 1);
        let exact = pop_of(&(0..k as i64).rev().collect::<Vec<_>>());
        for _ in 0..50 {
            let (id, s) = draw(t, &exact, k, &mut rng)?;
            ensure!(s.len() == k && exact[id as usize].key == k as i64 - 1, "Tournament/constructor-size", "{name} over exactly {k} individuals: sample {s:?}, winner key {}", exact[id as usize].key);
        }
        // over a larger population it behaves as Tournament::new(k): k distinct entrants
        let big = pop_of(&(0..40).collect::<Vec<_>>());
        for _ in 0..200 {
            let (_, s) = draw(t, &big, k, &mut rng)?;
            ensure!(k == 1 || s.len() == k, "Tournament/constructor-size", "{name} compared {} individuals of 40, expected {k}", s.len());
        }
        Ok(())
    });
}

pub fn run(ctx: &mut Ctx) {
    ctx.rule = "invariants: generated populations (0..200 individuals ordered by a key, with ties; also as the library's own EcIndividuals ordered by TestResults whose result vectors have different lengths and the keys as totals, in both polarities), all tournament sizes incl. n and n+1, generated random stream; the sampled subset of each tournament is recovered from the ids the individuals' Ord::cmp is asked to compare. laws (every third configuration through the type-erased form of the selector, boxed or inside a dynamic weighted list of one): for every n <= 7 and k <= n (distinct keys, and a tie-laden variant) seeded draws compared with the uniform law 1/C(n,k) over k-subsets and the winner law obtained by enumerating all k-subsets; for 14 larger configurations (n up to 300, k up to 40) the inclusion rate k/n of every individual, the co-inclusion rate of neighbouring and opposite pairs and the pooled winner-rank law C(r,k-1)/C(n,k); for populations of 65537..300000 (thorough: 2 million) individuals the lowest / highest entrant position and the winner's rank in 16 buckets; the named constructors binary() / of_size::<N>() are the sizes they say. non-trivial = n >= 3 with >= 2 distinct keys and 1 < k < n (invariants); each (statistic, configuration) with 0 < p < 1 (laws)".into();
    ctx.assumptions.push("on ties any maximal individual is accepted; if an implementation compares more than k individuals the subset law is skipped and only the winner law is used".into());
    let (n_cases, trials) = ctx.tier.pick((400_000u32, 1_000_000u64), (6_000_000, 10_000_000));
    ctx.run_prop("invariants", n_cases, || strategy(200), oracle);
    run_jobs(ctx, "tournament_laws", law_jobs(ctx.seed), trials);
    run_jobs(ctx, "tournament_laws_large", large_law_jobs(ctx.seed), trials);
    run_jobs(ctx, "tournament_laws_huge", huge_law_jobs(ctx.seed, ctx.tier == crate::Tier::Thorough), trials);
    constructor_check(ctx);
    // coverage-guided search over the same strategies and oracles (thorough tier; see ptfuzz.rs)
    crate::ptfuzz::thorough(ctx, &[("c07", 16, 1_000_000)]);
}

pub fn replay(ctx: &mut Ctx, sub: &str, case: &Value) {
    if sub == "tournament_laws" {
        let trials = ctx.tier.pick(1_000_000u64, 10_000_000);
        run_jobs(ctx, "tournament_laws", law_jobs(ctx.seed), trials);
    } else if sub == "tournament_laws_large" {
        let trials = ctx.tier.pick(1_000_000u64, 10_000_000);
        run_jobs(ctx, "tournament_laws_large", large_law_jobs(ctx.seed), trials);
    } else if sub == "tournament_laws_huge" {
        let trials = ctx.tier.pick(1_000_000u64, 10_000_000);
        run_jobs(ctx, "tournament_laws_huge", huge_law_jobs(ctx.seed, ctx.tier == crate::Tier::Thorough), trials);
    } else if sub == "named_constructors" {
        constructor_check(ctx);
    } else {
        ctx.replay_case::<Case, _>(sub, case, oracle);
    }
}
