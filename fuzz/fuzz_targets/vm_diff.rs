#![no_main]
//! C01/C02/C03: bytes -> machine configuration + program -> differential against the reference interpreter.
use libfuzzer_sys::fuzz_target;
use vh::fuzzdec::decode_vm;
use vh::vm_oracle::{vm_oracle, VmOpts};
use vh::Probe;

fuzz_target!(|data: &[u8]| {
    vh::fuzz_support::init();
    vh::fuzz_support::with_tables(|t| {
        let c = decode_vm(data, t);
        let mut p = Probe::default();
        let opts = VmOpts { sweep: true, full_sweep_upto: 24, labels: false };
        if let Err(f) = vm_oracle(t, &c, &opts, &mut p) {
            vh::fuzz_support::report("C01", &f);
        }
    });
});
