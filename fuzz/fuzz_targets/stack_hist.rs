#![no_main]
//! C04: bytes -> stack operation history -> lock-step against the Vec model.
use libfuzzer_sys::fuzz_target;
use vh::fuzzdec::decode_hist;
use vh::props::c04::check_hist;
use vh::Probe;

fuzz_target!(|data: &[u8]| {
    vh::fuzz_support::init();
    let h = decode_hist(data);
    let mut p = Probe::default();
    if let Err(f) = check_hist::<u16>(&h, |i| i as u16, &mut p) {
        vh::fuzz_support::report("C04", &f);
    }
});
