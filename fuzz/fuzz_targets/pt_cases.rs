#![no_main]
//! Several properties: the bytes are the random stream of the proptest strategy of the sub-check
//! named by VERIF_FUZZ_SUB; the generated case is judged by that sub-check's oracle.
use libfuzzer_sys::fuzz_target;
use std::sync::OnceLock;

static SUB: OnceLock<String> = OnceLock::new();

fuzz_target!(|data: &[u8]| {
    vh::fuzz_support::init();
    let key = SUB.get_or_init(|| std::env::var("VERIF_FUZZ_SUB").unwrap_or_default());
    if let Some((f, _)) = vh::ptfuzz::judge(key, data) {
        let property = vh::ptfuzz::sub_of(key).map_or("?", |(p, _, _)| p);
        vh::fuzz_support::report(property, &f);
    }
});
