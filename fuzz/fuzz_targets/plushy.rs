#![no_main]
//! C05: bytes -> gene sequence -> structural predicates + reference parser.
use libfuzzer_sys::fuzz_target;
use vh::fuzzdec::decode_genes;
use vh::Probe;

fuzz_target!(|data: &[u8]| {
    vh::fuzz_support::init();
    vh::fuzz_support::with_tables(|t| {
        let g = decode_genes(data, t);
        let mut p = Probe::default();
        if let Err(f) = vh::props::c05::oracle(t, &g, &mut p) {
            vh::fuzz_support::report("C05", &f);
        }
    });
});
