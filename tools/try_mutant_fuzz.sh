#!/bin/bash
# tools/try_mutant_fuzz.sh <patch> <sub-check key> [runs] [jobs] -- applies a seeded change to /repo, rebuilds the pt_cases
# fuzz target, runs libFuzzer campaigns on the sub-check from random starting inputs, reports the first rejected case, undoes the change.
PATCH="$1"; KEY="$2"; RUNS="${3:-1000000}"; JOBS="${4:-8}"
REPO="${VERIF_REPO:-/repo}"; HOME_V="${VERIF_HOME:-/verif}"
cd "$REPO" || exit 2
git diff --quiet || { echo "$REPO has uncommitted changes"; exit 2; }
git apply "$PATCH" || { echo "patch does not apply"; exit 2; }
W=$(mktemp -d /tmp/ptfuzz.XXXX)
( cd "$HOME_V" && CARGO_NET_OFFLINE=true cargo +nightly fuzz build --fuzz-dir "$HOME_V/fuzz" -s none pt_cases 2>&1 | grep -E "^error" -A5 )
for j in $(seq 1 "$JOBS"); do
  mkdir -p "$W/c$j"; head -c 300 /dev/urandom > "$W/c$j/r0"; head -c 2000 /dev/urandom > "$W/c$j/r1"; head -c "${MAXLEN:-4096}" /dev/urandom > "$W/c$j/r2"; head -c $(( ${MAXLEN:-4096} * 3 / 4 )) /dev/urandom > "$W/c$j/r3"
  ( VERIF_DIR="$HOME_V" VERIF_FUZZ_SUB="$KEY" "$HOME_V/fuzz/target/x86_64-unknown-linux-gnu/release/pt_cases" "$W/c$j" -runs="$RUNS" -seed="$j" -len_control=0 -max_len=${MAXLEN:-4096} -timeout=60 -artifact_prefix="$W/a$j-" > "$W/log$j" 2>&1 ) &
done
wait
grep -h "FUZZ-VIOLATION" "$W"/log* | sort | uniq -c | head -5
grep -h "stat::number_of_executed_units" "$W"/log* | awk '{s+=$2} END {print "executions:", s}'
ls "$W" | grep -c "^a.*-crash" | sed 's/^/crashing inputs: /'
rm -rf "$W"
git checkout -- .; git clean -fdq packages
