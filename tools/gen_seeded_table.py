#!/usr/bin/env python3
"""Rewrites the table of DESIGN.md §8 from seeded/*/meta.json."""
import json, glob, os, re
p='/verif/DESIGN.md'
s=open(p).read()
rows=[]
for d in sorted(glob.glob('/verif/seeded/*/meta.json')):
    m=json.load(open(d)); name=os.path.basename(os.path.dirname(d))
    res=m['checks_run_against_it']['results']
    caught='; '.join(f"{k}: {'**caught** ('+', '.join(sorted(set(v['signatures']))[:2])+')' if v['exit']==1 else ('not flagged' if v['exit']==0 else 'exit '+str(v['exit']))}" for k,v in res.items())
    rows.append(f"| `{name}` | {m['breaks_property']} | {m['needs_to_manifest']} | {caught} |")
start=s.index("| seeded change | written against |")
end=s.index("\n\n", start)
table="| seeded change | written against | needs, to manifest | quick-tier result |\n|---|---|---|---|\n"+"\n".join(rows)
s=s[:start]+table+s[end:]
open(p,'w').write(s)
print(len(rows),"rows")
