#!/bin/bash
# tools/seed_sweep.sh "<seeds>" [ids...]  -- runs quick checks on the unchanged tree under several seeds (evidence goes to a scratch dir)
SEEDS="${1:-1 2 3 4 5}"; shift
IDS="${*:-C01 C02 C03 C04 C05 C06 C07 C08 C09 C10 C11 C12 C13 C14 C15 C16 C17 C18 C19}"
mkdir -p /tmp/mut/sweep/{evidence,replays,regressions}; cp /verif/known_findings.jsonl /tmp/mut/sweep/; cp /verif/regressions/* /tmp/mut/sweep/regressions/
for s in $SEEDS; do for id in $IDS; do
  out=$(cd "${VERIF_HOME:-/verif}" && VERIF_SEED=$s VERIF_DIR_OVERRIDE=/tmp/mut/sweep ./check $id quick 2>&1); code=$?
  echo "seed=$s $id exit=$code $(echo "$out" | tail -1 | sed 's/.*evaluations/evaluations/')"
  [ $code -ne 0 ] && echo "$out" | grep -E "VIOLATION|signature|INCONCLUSIVE" | head -5
done; done
