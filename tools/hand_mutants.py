#!/usr/bin/env python3
"""Sensitivity pass: applies small hand-written mutants to /repo (string replacement),
runs the named checks (quick), reverts, and writes seeded/HAND_MUTANTS.md.
These are sensitivity probes, not seeded changes: they are not required to keep the
repository's own suite green (many do, because the suite is thin)."""
import subprocess, sys, os, json, re
R='/repo/packages/'
M=[
 # (name, property checks, file, old, new, count)
 ("subtract-operands-swapped","C01",R+"push/src/instruction/int/mod.rs",".map(|(&x, &y)| x.checked_sub(y))",".map(|(&x, &y)| y.checked_sub(x))"),
 ("min-is-max","C01",R+"push/src/instruction/int/mod.rs",".map(|(&x, &y)| x.min(y))",".map(|(&x, &y)| x.max(y))"),
 ("implies-reversed","C01",R+"push/src/instruction/bool.rs",".map(|(x, y)| !x || y)",".map(|(x, y)| x || !y)"),
 ("ifelse-false-discards-else","C01",R+"push/src/instruction/exec/ifelse.rs","""            (Ok(false), Ok(_), Ok(_)) => Ok(state)
                .with_stack_discard::<bool>(1)
                .with_stack_discard::<PushProgram>(1),""","""            (Ok(false), Ok(_), Ok(_)) => Ok(state)
                .with_stack_discard::<bool>(1)
                .with_stack_discard::<PushProgram>(2),"""),
 ("block-unfolds-backwards","C01 C04 C19",R+"push/src/push_vm/stack.rs","self.values.extend(iter.rev());","self.values.extend(iter);"),
 ("float-protected-divide-negzero","C01",R+"push/src/instruction/float.rs","if y == 0.0 { OrderedFloat(1.0) } else { x / y }","if y.0 == 0.0 && y.0.is_sign_positive() { OrderedFloat(1.0) } else { x / y }"),
 ("abs-wrapping","C01",R+"push/src/instruction/int/abs.rs",".map(|x| x.saturating_abs())",".map(|x| x.wrapping_abs())"),
 ("clamp-ignores-reversed-bounds","C01",R+"push/src/instruction/int/clamp.rs","let (min, max) = if min > max { (max, min) } else { (min, max) };","let (min, max) = if min > max { (min, min) } else { (min, max) };"),
 ("frombool-discards-before-push","C02",R+"push/src/instruction/int/mod.rs","""                bool_stack
                    .top()
                    .map_err(PushInstructionError::from)
                    .map(|&b| i64::from(b))""","""                bool_stack
                    .pop()
                    .map_err(PushInstructionError::from)
                    .map(i64::from)"""),
 ("bool-fromint-no-precheck","C02",R+"push/src/instruction/bool.rs","let mut state = state.not_full::<bool>().map_err_into()?;","let mut state = state;"),
 ("swap-repushes-in-same-order","C01",R+"push/src/instruction/common/swap.rs","""                .with_push(x)
                .map_err_into()?
                .with_push(y)""","""                .with_push(y)
                .map_err_into()?
                .with_push(x)"""),
 ("step-loop-off-by-one","C03 C01",R+"push/src/push_vm/push_state.rs","while instruction_steps < self.max_instruction_steps() {","while instruction_steps <= self.max_instruction_steps() {"),
 ("push-many-capacity-off-by-one","C03 C04",R+"push/src/push_vm/stack.rs",".is_none_or(|x| x > self.max_stack_size)",".is_none_or(|x| x > self.max_stack_size.saturating_add(1))"),
 ("power-unchecked","C03 C01",R+"push/src/instruction/int/mod.rs","x.checked_pow(y)","Some(x.wrapping_pow(y))"),
 ("pop2-order","C04",R+"push/src/push_vm/stack.rs","""            let x = self.pop()?;
            let y = self.pop()?;
            Ok((x, y))""","""            let x = self.pop()?;
            let y = self.pop()?;
            Ok((y, x))"""),
 ("try-extend-no-reverse","C04",R+"push/src/push_vm/stack.rs","self.values[current_len..].reverse();",""),
 ("try-extend-no-rollback","C04",R+"push/src/push_vm/stack.rs","self.values.truncate(current_len);",""),
 ("top3-middle-wrong","C04",R+"push/src/push_vm/stack.rs",".get(index_third_to_top + 1)",".get(index_third_to_top)"),
 ("close-at-top-level-ends-parse","C05",R+"push/src/push_vm/program.rs","""                    if !is_top_level {
                        // This closes a block, so return up to the caller.
                        return;
                    }""","""                    {
                        return;
                    }"""),
 ("unless-opens-zero","C05",R+"push/src/instruction/exec/unless.rs","""impl NumOpens for Unless {
    fn num_opens(&self) -> usize {
        1""","""impl NumOpens for Unless {
    fn num_opens(&self) -> usize {
        0"""),
 ("dupblock-opens-two","C05",R+"push/src/instruction/exec/dup_block.rs","""impl NumOpens for DupBlock {
    fn num_opens(&self) -> usize {
        1""","""impl NumOpens for DupBlock {
    fn num_opens(&self) -> usize {
        2"""),
 ("tournament-guard-le","C06 C07",R+"ec-core/src/operator/selector/tournament.rs","if population.size() < self.size.into() {","if population.size() <= self.size.into() {"),
 ("lexicase-returns-first","C08 C06",R+"ec-core/src/operator/selector/lexicase.rs","        candidates.shuffle(rng);\n        candidates\n            .first()","        candidates\n            .first()"),
 ("tournament-min","C07",R+"ec-core/src/operator/selector/tournament.rs","            .choose_multiple(rng, self.size.into())\n            .max()","            .choose_multiple(rng, self.size.into())\n            .min()"),
 ("tournament-first-k","C07",R+"ec-core/src/operator/selector/tournament.rs","            .choose_multiple(rng, self.size.into())\n            .max()","            .iter().take(self.size.into())\n            .max()"),
 ("best-is-min","C07",R+"ec-core/src/operator/selector/best.rs","population.into_iter().max().ok_or(EmptyPopulation)","population.into_iter().min().ok_or(EmptyPopulation)"),
 ("lexicase-no-shuffle","C08",R+"ec-core/src/operator/selector/lexicase.rs","        case_indices.shuffle(rng);\n",""),
 ("lexicase-keeps-worse","C08",R+"ec-core/src/operator/selector/lexicase.rs","                    Ordering::Less => {}","                    Ordering::Less => winners.push(c),"),
 ("error-order-not-reversed","C15 C08",R+"ec-core/src/test_results.rs","self.0.cmp(&other.0).reverse()","self.0.cmp(&other.0)"),
 ("generation-size-minus-one","C09",R+"ec-core/src/generation.rs","std::iter::repeat_n(&alias.population, alias.population.size())","std::iter::repeat_n(&alias.population, alias.population.size().saturating_sub(1))"),
 ("generation-par-seeded-zero","C09",R+"ec-core/src/generation.rs",".map_init(rand::rng, |rng, p| alias.child_maker.apply(p, rng))",".map_init(|| <rand::rngs::StdRng as rand::SeedableRng>::seed_from_u64(0), |rng, p| alias.child_maker.apply(p, rng))"),
 ("two-point-inclusive-segment","C10",R+"ec-linear/src/recombinator/two_point_xo.rs","first_genome[first..second].swap_with_slice(&mut second_genome[first..second]);","{ let e = (second + 1).min(len); first_genome[first..e].swap_with_slice(&mut second_genome[first..e]); }"),
 ("crossover-gene-next-index","C10",R+"ec-linear/src/genome/bitstring.rs","if let (Some(lhs), Some(rhs)) = (self.gene_mut(index), other.gene_mut(index)) {","if let (Some(lhs), Some(rhs)) = (self.gene_mut(index), other.gene_mut(index.saturating_add(1))) {"),
 ("uniform-xo-biased","C12 C10",R+"ec-linear/src/recombinator/uniform_xo.rs","                if rng.random::<bool>() {\n                    first_genome[pos].clone()","                if rng.random_bool(0.55) {\n                    first_genome[pos].clone()"),
 ("umad-new-before-old","C11",R+"ec-linear/src/mutator/umad.rs","[old_gene, new_gene]","[new_gene, old_gene]"),
 ("umad-deletion-not-applied-when-added","C11 C12",R+"ec-linear/src/mutator/umad.rs","let old_gene = (!delete_gene).then_some(gene);","let old_gene = (!delete_gene || add_gene).then_some(gene);"),
 ("with-rate-inverted","C12 C11",R+"ec-linear/src/mutator/with_rate.rs","if r < self.mutation_rate { !bit } else { bit }","if r > self.mutation_rate { !bit } else { bit }"),
 ("one-over-length-plus-one","C12",R+"ec-linear/src/mutator/with_one_over_length.rs","let mutation_rate = 1.0 / genome_length;","let mutation_rate = 1.0 / (genome_length + 1.0);"),
 ("umad-new-gene-never-deleted","C12",R+"ec-linear/src/mutator/umad.rs","let delete_new_gene = add_gene && rng.random_bool(self.deletion_rate);","let delete_new_gene = false && add_gene && rng.random_bool(self.deletion_rate);"),
 ("close-probability-one-over-n","C12",R+"push/src/genome/plushy.rs","                    .get()\n                    .saturating_add(1),","                    .get(),"),
 ("random-with-probability-inverted","C12",R+"ec-linear/src/genome/bitstring.rs","rng.random_bool(self.true_probability)","rng.random_bool(1.0 - self.true_probability)"),
 ("weighted-pair-ratio-b","C13",R+"ec-core/src/weighted/weighted_pair.rs","Bernoulli::from_ratio(a_weight, weight_sum).ok()","Bernoulli::from_ratio(b_weight, weight_sum).ok()"),
 ("weighted-pair-weight-is-b","C13",R+"ec-core/src/weighted/weighted_pair.rs","            distr,\n            weight_sum,\n        })","            distr,\n            weight_sum: b_weight,\n        })"),
 ("and-runs-g-first","C14",R+"ec-core/src/operator/composable/and.rs","""        let f_value = self.f.apply(x.clone(), rng).map_err(AndError::First)?;
        let g_value = self.g.apply(x, rng).map_err(AndError::Second)?;""","""        let g_value = self.g.apply(x.clone(), rng).map_err(AndError::Second)?;
        let f_value = self.f.apply(x, rng).map_err(AndError::First)?;"""),
 ("map-vec-no-short-circuit","C14",R+"ec-core/src/operator/composable/map.rs","""            .map(|(i, x)| self.f.apply(x, rng).map_err(|e| MapError(e, i)))
            .collect()""","""            .map(|(i, x)| self.f.apply(x, rng).map_err(|e| MapError(e, i)))
            .collect::<Vec<_>>()
            .into_iter()
            .collect()"""),
 ("map-error-index-off-by-one","C14",R+"ec-core/src/operator/composable/map.rs","let second_result = self.f.apply(y, rng).map_err(|e| MapError(e, 1))?;\n        Ok([first_result, second_result])","let second_result = self.f.apply(y, rng).map_err(|e| MapError(e, 2))?;\n        Ok([first_result, second_result])"),
 ("testresults-cmp-lexicographic","C15",R+"ec-core/src/test_results.rs","""impl<R: Ord> Ord for TestResults<R> {
    fn cmp(&self, other: &Self) -> Ordering {
        self.total_result.cmp(&other.total_result)""","""impl<R: Ord> Ord for TestResults<R> {
    fn cmp(&self, other: &Self) -> Ordering {
        self.results.cmp(&other.results)"""),
 ("individual-generator-scores-fresh-genome","C15",R+"ec-core/src/individual/ec.rs","let test_results = self.scorer.score(&genome);\n\n        EcIndividual::new(genome, test_results)","let test_results = self.scorer.score(&self.genome_generator.sample(rng));\n\n        EcIndividual::new(genome, test_results)"),
 ("tournament-uses-thread-rng","C16",R+"ec-core/src/operator/selector/tournament.rs",".choose_multiple(rng, self.size.into())",".choose_multiple(&mut rand::rng(), self.size.into())"),
 ("erased-select-twice","C17",R+"ec-core/src/operator/selector/erased.rs","        (**self).dyn_select(population, &mut rng)\n    }\n}","        let _ = (**self).dyn_select(population, &mut rng);\n        (**self).dyn_select(population, &mut rng)\n    }\n}"),
 ("dyn-ref-impls-drop-rc","C17",R+"ec-macros/src/dyn_ref_impls/mod.rs","        Box::new(Arc),\n        Box::new(Rc),","        Box::new(Arc),"),
 ("collection-takes-one-more","C18",R+"ec-core/src/distributions/collection.rs",".take(self.size)",".take(self.size.saturating_add(usize::from(self.size == 7)))"),
 ("one-of-cloning-skips-last","C18",R+"ec-core/src/distributions/wrappers/owned.rs","range: Uniform::new(0, num_choices.get()).map_err(|_| EmptySlice)?,","range: Uniform::new(0, num_choices.get().max(2) - 1).map_err(|_| EmptySlice)?,"),
 ("builder-size-after-data-allowed","C19",R+"push-macros/src/push_state/printing/generate_builder.rs","""                    if ident == field {
                        quote! {#generic_name: #utilities_mod_ident::Dataless}
                    } else {""","""                    if ident == field {
                        quote! {#generic_name: #utilities_mod_ident::StackState}
                    } else {"""),
 ("builder-build-without-step-limit","C19",R+"push-macros/src/push_state/printing/generate_builder.rs","""    let max_instruction_steps_generic_with_size_and_data = max_instruction_steps
        .as_ref()
        .map(|_| quote! {#utilities_mod_ident::WithSizeAndData,})""","""    let max_instruction_steps_generic_with_size_and_data = max_instruction_steps
        .as_ref()
        .map(|_| quote! {(),})"""),
]
only = sys.argv[1:]
rows=[]
subprocess.run("git -C /repo diff --quiet",shell=True,check=True)
os.makedirs("/tmp/mut/scratch_verif/evidence",exist_ok=True)
for name,checks,path,old,new in M:
    if only and name not in only: continue
    src=open(path).read()
    n=src.count(old)
    if n==0:
        rows.append((name,checks,"pattern not found",[])); print(name,"PATTERN NOT FOUND"); continue
    open(path,'w').write(src.replace(old,new,1))
    res=[]
    try:
        for c in checks.split():
            p=subprocess.run(f"cd /verif && VERIF_DIR_OVERRIDE=/tmp/mut/scratch_verif ./check {c} quick",shell=True,capture_output=True,text=True)
            sigs=sorted(set(re.findall(r"signature: (.*)",p.stdout)))[:3]
            res.append((c,p.returncode,sigs))
    finally:
        open(path,'w').write(src)
    rows.append((name,checks,"applied",res))
    print(name, [(c,rc) for c,rc,_ in res], flush=True)
subprocess.run("git -C /repo diff --quiet",shell=True,check=True)
if not only:
    with open('/verif/seeded/HAND_MUTANTS.md','w') as f:
        f.write("# Hand-written sensitivity mutants\n\nSmall deliberate breakages (one string replacement each in `/repo`, reverted afterwards; `tools/hand_mutants.py`). They complement the independently written seeded changes in the sibling directories; they are sensitivity probes and were not required to keep the repository's own suite green. `exit 1` = the check reported a violation, `exit 0` = it stayed silent, `exit 2` = the harness no longer builds against the mutated tree.\n\n| mutant | checks run | result |\n|---|---|---|\n")
        for name,checks,st,res in rows:
            r='; '.join(f"{c}: exit {rc}" + (f" ({', '.join(s)})" if s else "") for c,rc,s in res) if res else st
            f.write(f"| {name} | {checks} | {r} |\n")
