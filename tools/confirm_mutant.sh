#!/bin/bash
# tools/confirm_mutant.sh <ID> [worktree]  -- re-checks a sub-agent's seeded change in its scratch worktree:
#  (1) whole suite + demo WITH the change: every failure must be in the demo target
#  (2) demo alone WITHOUT the change: must pass
# Prints a summary; full logs under <worktree>-out/confirm.*.log
ID="$1"; WT="${2:-/tmp/mut/$ID}"; OUT="${WT}-out"
export CARGO_TARGET_DIR="$WT/target" CARGO_NET_OFFLINE=true
cd "$WT" || exit 2
DEMO=$(git status --porcelain | awk '/^\?\?/{print $2}' | grep -v '^target' | head -5 | tr '\n' ' ')
echo "tracked changes:"; git diff --stat | tail -3
echo "untracked (demo): $DEMO"
cargo test --workspace --no-fail-fast --offline >"$OUT/confirm.with.log" 2>&1
echo "--- WITH change: failing targets / tests:"
grep -E "^test .* FAILED|^error: test failed|test result: FAILED" "$OUT/confirm.with.log" | head -12
echo "ok-results: $(grep -c 'test result: ok' "$OUT/confirm.with.log")  failed-results: $(grep -c 'test result: FAILED' "$OUT/confirm.with.log")"
git diff > "$OUT/patch.confirmed.diff"; git apply -R "$OUT/patch.confirmed.diff" || exit 2   # (git stash is shared between worktrees: not used)
cargo test --workspace --no-fail-fast --offline >"$OUT/confirm.without.log" 2>&1
echo "--- WITHOUT change: ok-results: $(grep -c 'test result: ok' "$OUT/confirm.without.log")  failed-results: $(grep -c 'test result: FAILED' "$OUT/confirm.without.log")"
grep -E "^test .* FAILED|^error" "$OUT/confirm.without.log" | head -5
git apply "$OUT/patch.confirmed.diff"
cmp -s "$OUT/patch.confirmed.diff" "$OUT/patch.diff" && echo "patch.diff matches worktree diff" || echo "NOTE: patch.diff differs from worktree diff (using worktree diff)"
