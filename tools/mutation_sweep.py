#!/usr/bin/env python3
"""Systematic sensitivity probe: small syntactic mutants of the files the properties are anchored in.

  tools/mutation_sweep.py --workers 4 --per-file 6 --seed 1 [--only <substring>] [--out seeded/MUTATION_SWEEP.jsonl]

For every sampled mutant (one token-level change on one line of library code, never in tests, comments,
attributes or `use` lines) a worker applies it to its own scratch checkout of the repository, runs the quick
checks of the properties anchored in that file from its own relocated copy of /verif (tools/scratch_copy.sh),
and records the first check that reports a violation.  Mutants that no check reports are then run through the
repository's own tests for that crate: `killed-by-repo-tests`, or `survived` (to be looked at by hand:
equivalent mutant, outside every property, or a gap).  Nothing touches /repo or /verif/harness/target.
"""
import argparse, json, os, random, re, subprocess, sys, time, collections
from multiprocessing import Process, Queue

ROOT = "/tmp/mx"

OPS = [
    # (name, regex, replacement)
    ("le->lt", r" <= ", " < "), ("lt->le", r" < ", " <= "), ("ge->gt", r" >= ", " > "), ("gt->ge", r" > ", " >= "),
    ("eq->ne", r" == ", " != "), ("ne->eq", r" != ", " == "),
    ("plus->minus", r" \+ ", " - "), ("minus->plus", r" - ", " + "), ("mul->add", r" \* ", " + "),
    ("and->or", r" && ", " || "), ("or->and", r" \|\| ", " && "),
    ("true->false", r"\btrue\b", "false"), ("false->true", r"\bfalse\b", "true"),
    ("min->max", r"\.min\(", ".max("), ("max->min", r"\.max\(", ".min("),
    ("first->last", r"\.first\(\)", ".last()"), ("last->first", r"\.last\(\)", ".first()"),
    ("drop-rev", r"\.rev\(\)", ""), ("drop-not", r"!(?=[a-z_(])", ""),
    ("incl-range", r"\.\.(?![=.])", "..="), ("excl-range", r"\.\.=", ".."),
    ("0->1", r"(?<![\w.])0(?![\w.])", "1"), ("1->2", r"(?<![\w.])1(?![\w.])", "2"), ("2->1", r"(?<![\w.])2(?![\w.])", "1"), ("3->2", r"(?<![\w.])3(?![\w.])", "2"),
    ("checked_add->sub", r"checked_add", "checked_sub"), ("checked_sub->add", r"checked_sub", "checked_add"), ("checked_mul->add", r"checked_mul", "checked_add"),
    ("saturating->wrapping", r"saturating_", "wrapping_"),
    ("Less->Greater", r"Ordering::Less", "Ordering::Greater"), ("Greater->Less", r"Ordering::Greater", "Ordering::Less"),
    ("is_empty-negate", r"(\w+)\.is_empty\(\)", r"!\1.is_empty()"),
    ("top->top2ish", r"\.pop2\(\)", ".pop2().map(|(a, b)| (b, a))"),
    ("then_some->none", r"\.then_some\(", ".then_some("),  # placeholder, never differs (kept for stable numbering)
    ("Some->None-ret", r"=> Some\(([a-z_]+)\),", r"=> None,"),
    ("shuffle-drop", r"^\s*[a-z_.]+\.shuffle\(rng\);\s*$", ""),
    ("discard1", r"with_stack_discard::<([A-Za-z0-9_<>]+)>\(2\)", r"with_stack_discard::<\1>(1)"),
    ("swap-ab", r"\(a, b\)", "(b, a)"), ("swap-xy", r"\(x, y\)", "(y, x)"),
    ("checked_div->rem", r"checked_div\b", "checked_rem"), ("checked_rem->div", r"checked_rem\b", "checked_div"), ("checked_pow->mul", r"checked_pow\(", "checked_mul(i64::from"),
    ("stmt-delete", r"^(\s*)[a-z_][\w.]*(?:\.[a-z_]+)+\([^;{}]*\);\s*$", r"\1"),
    ("negate-if", r"\bif (?!let\b)([^{]+) \{", r"if !(\1) {"),
    ("swap-array-pair", r"\[([a-z_]+), ([a-z_]+)\]", r"[\2, \1]"),
    ("rate-swap-a", r"addition_rate", "deletion_rate"), ("rate-swap-d", r"self\.deletion_rate", "self.addition_rate"),
    ("max-minus-1", r"\b(u32|usize|i64|u64)::MAX\b", r"(\1::MAX - 1)"),
    ("some->none", r"(?<!let )(?<!=> )\bSome\(([a-z_.]+)\)(?! =>)(?! =)", "None"),
    ("take-plus-1", r"\.take\(([^()]+)\)", r".take(\1 + 1)"),
    ("size->size-1", r"\.size\(\)", ".size().saturating_sub(1)"), ("len->len-1", r"\.len\(\)", ".len().saturating_sub(1)"),
    ("unwrap_or-flip", r"unwrap_or\(0\)", "unwrap_or(1)"), ("unwrap_or-flip1", r"unwrap_or\(1\)", "unwrap_or(0)"),
    ("and_then->map-drop", r"\.filter\(([^()]*\([^()]*\)[^()]*|[^()]*)\)", ""),
    ("clone->default", r"\bstd::mem::swap\(&mut (\w+), &mut (\w+)\);", ""),
    ("from_ratio-args", r"from_ratio\(([^,]+), ([^)]+)\)", r"from_ratio(\2 - \1, \2)"),
    ("choose_multiple-k", r"choose_multiple\(rng, ([^)]+)\)", r"choose_multiple(rng, (\1) - 1)"),
    ("lt-nospace", r"(\w) < (\w)", r"\1 >= \2"), ("gt-nospace", r"(\w) > (\w)", r"\1 <= \2"),
]

SKIP_LINE = re.compile(r"^\s*(//|#\[|#!\[|use |pub use |mod |pub mod |\*|/\*|$|\}|\{|\)|type |impl<|where|extern )")


def code_lines(path):
    """indices of lines that are library code (stops at the first #[cfg(test)])"""
    out = []
    with open(path) as f:
        lines = f.read().split("\n")
    in_doc_block = False
    for i, l in enumerate(lines):
        if "#[cfg(test)]" in l:
            break
        if SKIP_LINE.match(l):
            continue
        if "debug_assert" in l or "unreachable!" in l or "#[" in l.strip()[:2]:
            continue
        out.append(i)
    return lines, out


def mutants_of(relpath, per_file, rng):
    path = "/repo/" + relpath
    lines, idx = code_lines(path)
    cands = []
    for i in idx:
        code = lines[i].split("//")[0]
        if code.rstrip().endswith("\\") or code.strip().startswith('"') or "reason =" in code or "expect(" in code:
            continue  # inside a string literal / lint attribute
        boundish = re.search(r"\bfn \b|\btrait \b|\bdyn \b|\bimpl\b|: [A-Z]|'static|'[a-z]+\b|\?Sized|\bSend\b|\bSync\b|\bwhere\b|Error: ", code) is not None
        for name, pat, rep in OPS:
            if boundish and name in ("plus->minus", "minus->plus", "mul->add", "lt->le", "gt->ge"):
                continue
            for m in re.finditer(pat, code):
                new = code[: m.start()] + re.sub(pat, rep, code[m.start() : m.end()], count=1) + code[m.end() :]
                if new != code:
                    cands.append((i, name, new + lines[i][len(code) :]))
    rng.shuffle(cands)
    # prefer distinct lines and distinct operators
    chosen, seen_lines, seen_ops = [], set(), collections.Counter()
    for c in cands:
        if len(chosen) >= per_file:
            break
        if c[0] in seen_lines or seen_ops[c[1]] >= 2:
            continue
        seen_lines.add(c[0])
        seen_ops[c[1]] += 1
        chosen.append(c)
    return [(relpath, i, name, lines[i], new) for (i, name, new) in chosen]


def sh(cmd, env=None, cwd=None, timeout=1800):
    e = dict(os.environ)
    e.update(env or {})
    try:
        p = subprocess.run(cmd, shell=True, cwd=cwd, env=e, stdout=subprocess.PIPE, stderr=subprocess.STDOUT, timeout=timeout, text=True)
        return p.returncode, p.stdout
    except subprocess.TimeoutExpired:
        return 124, "timeout"


def worker(w, q, out_q, threads):
    base = f"{ROOT}/w{w}"
    env = {"VERIF_HOME": f"{base}/verif", "VERIF_REPO": f"{base}/repo", "VERIF_THREADS": str(threads), "RAYON_NUM_THREADS": str(threads), "CARGO_BUILD_JOBS": str(threads), "VERIF_DIR_OVERRIDE": f"{base}/scratch_verif", "CARGO_NET_OFFLINE": "true"}
    while True:
        item = q.get()
        if item is None:
            break
        relpath, i, op, old, new, ids = item
        path = f"{base}/repo/{relpath}"
        src = open(path).read()
        lines = src.split("\n")
        assert lines[i] == old, (relpath, i)
        lines[i] = new
        open(path, "w").write("\n".join(lines))
        rec = {"file": relpath, "line": i + 1, "op": op, "old": old.strip(), "new": new.strip(), "checks": {}, "t": 0}
        t0 = time.time()
        verdict = None
        for pid in ids:
            code, out = sh(f"./check {pid} quick", env=env, cwd=f"{base}/verif")
            sig = re.findall(r"signature: (.*)", out)
            rec["checks"][pid] = {"exit": code, "signatures": sig[:3]}
            if code == 1:
                verdict = f"caught-by-{pid}"
                break
            if code == 2 and "does not build" in out:
                verdict = "does-not-compile"
                break
        if verdict is None:
            crate = relpath.split("/")[1]
            code, out = sh(f"cargo test -p {crate} --offline --no-fail-fast 2>&1 | tail -40", env={"CARGO_TARGET_DIR": f"{base}/rt", "CARGO_NET_OFFLINE": "true", "CARGO_BUILD_JOBS": str(threads)}, cwd=f"{base}/repo")
            failed = "test result: FAILED" in out or "error: could not compile" in out or "error[" in out
            verdict = "killed-by-repo-tests" if failed else "survived"
            if any(v["exit"] == 2 for v in rec["checks"].values()):
                verdict += "+inconclusive-check"
        rec["verdict"] = verdict
        rec["t"] = round(time.time() - t0, 1)
        open(path, "w").write(src)
        out_q.put(rec)


def main():
    ap = argparse.ArgumentParser()
    ap.add_argument("--workers", type=int, default=4)
    ap.add_argument("--threads", type=int, default=4)
    ap.add_argument("--per-file", type=int, default=6)
    ap.add_argument("--seed", type=int, default=1)
    ap.add_argument("--only", default="")
    ap.add_argument("--skip-props", default="C19")
    ap.add_argument("--out", default="/verif/seeded/MUTATION_SWEEP.jsonl")
    ap.add_argument("--list", action="store_true")
    a = ap.parse_args()
    rng = random.Random(a.seed)
    anchors = collections.defaultdict(list)
    for l in open("/verif/properties.jsonl"):
        p = json.loads(l)
        for f in p["anchors"]["files"]:
            anchors[f].append(p["id"])
    skip = set(a.skip_props.split(",")) if a.skip_props else set()
    cost = {"C17": 9, "C19": 10, "C09": 5, "C03": 4, "C05": 3}
    work = []
    for f in sorted(anchors):
        if a.only and a.only not in f:
            continue
        related = [("packages/push/src/instruction/", ["C01", "C02", "C05"]), ("packages/push/src/push_vm/stack.rs", ["C04", "C02", "C01"]), ("packages/push/src/push_vm/", ["C01", "C02", "C03"]),
                   ("packages/push/src/genome/", ["C05", "C11", "C12"]), ("packages/ec-core/src/operator/selector/", ["C06"]), ("packages/ec-core/src/weighted/", ["C13", "C06"]),
                   ("packages/ec-core/src/distributions/", ["C18", "C16"]), ("packages/ec-linear/src/", ["C10", "C11", "C12"]), ("packages/ec-core/src/operator/composable/", ["C14"])]
        extra = [i for pre, l in related if f.startswith(pre) for i in l]
        ids = [i for i in dict.fromkeys(anchors[f] + extra) if i not in skip]
        if not ids or not os.path.exists("/repo/" + f):
            continue
        ids.sort(key=lambda i: cost.get(i, 1))
        for m in mutants_of(f, a.per_file, rng):
            work.append(m + (ids,))
    print(len(work), "mutants over", len({w[0] for w in work}), "files", flush=True)
    if a.list:
        for w in work:
            print(w[0], w[1] + 1, w[2], "|", w[3].strip(), "=>", w[4].strip())
        return
    for w in range(a.workers):
        # always refresh the copy of /verif (incremental; build output is kept)
        os.makedirs(ROOT, exist_ok=True)
        code, out = sh(f"/verif/tools/scratch_copy.sh {ROOT}/w{w}")
        print(out.strip().split("\n")[-1], flush=True)
    # build the copies (in parallel)
    procs = [subprocess.Popen(f"cd {ROOT}/w{w}/verif && VERIF_REPO={ROOT}/w{w}/repo ./setup.sh > {ROOT}/w{w}/setup.log 2>&1", shell=True) for w in range(a.workers)]
    for p in procs:
        p.wait()
    q, out_q = Queue(), Queue()
    for item in work:
        q.put(item)
    for _ in range(a.workers):
        q.put(None)
    ps = [Process(target=worker, args=(w, q, out_q, a.threads)) for w in range(a.workers)]
    for p in ps:
        p.start()
    done = 0
    with open(a.out, "a") as f:
        while done < len(work):
            rec = out_q.get()
            done += 1
            f.write(json.dumps(rec) + "\n")
            f.flush()
            print(f"[{done}/{len(work)}] {rec['verdict']:28s} {rec['file']}:{rec['line']} {rec['op']} ({rec['t']} s)", flush=True)
    for p in ps:
        p.join()


if __name__ == "__main__":
    main()
