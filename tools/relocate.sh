#!/bin/bash
# tools/relocate.sh <repo-copy>  -- for scratch copies / `vp run` snapshots of /verif ONLY (refuses to touch /verif):
# points the harness crates' path dependencies at another checkout of the repository, so that a background
# run or a seeded-change trial does not depend on (or disturb) /repo. Afterwards run checks with
#   VERIF_REPO=<repo-copy> ./check <ID> quick|thorough
# Registered commands never use this: they always check /repo itself.
set -eu
HERE="$(cd "$(dirname "$0")/.." && pwd)"
REPO="$(cd "${1:?usage: relocate.sh <repo-copy>}" && pwd)"
[ "$HERE" != "/verif" ] || { echo "refusing to relocate /verif itself" >&2; exit 2; }
sed -i "s|path = \"[^\"]*/packages/|path = \"$REPO/packages/|" "$HERE/harness/Cargo.toml" "$HERE/harness-dyn/Cargo.toml"
rm -f "$HERE/harness/Cargo.lock" "$HERE/harness-dyn/Cargo.lock"
cp "$REPO/Cargo.lock" "$HERE/harness/Cargo.lock"
echo "relocated $HERE to $REPO; use VERIF_REPO=$REPO"
