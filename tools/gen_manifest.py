#!/usr/bin/env python3
"""Regenerates /verif/MANIFEST.json from the table below and validates it."""
import json, os, sys
HERE = os.path.dirname(os.path.dirname(os.path.abspath(__file__)))

BASE_OFF = "cd /repo && cargo test --workspace --no-fail-fast --offline"

# id -> (technique, level text, level note, design ref)
CLAIMED = {
 "C04": ("property-based testing (proptest): generated operation histories in lock-step against a Vec+capacity reference model; libFuzzer byte histories in the thorough tier",
         "Exploration: tens of thousands (quick) to millions (thorough) of generated stack histories, every operation compared against a reference model; failures shrunk to a minimal history. Does not establish absence.",
         "Trusted: proptest, the harness's Vec-based model, rustc. Zero-element insertion above a lowered maximum and is_full above the maximum are deliberately unconstrained.",
         "DESIGN.md §2 C04"),
}
NOT_YET = "check not built yet in this revision (work in progress; see DESIGN.md §2 for the planned generated-input check)"

props = [json.loads(l) for l in open(os.path.join(HERE, "properties.jsonl"))]
checks, na = [], []
for p in props:
    i = p["id"]
    if i in CLAIMED:
        tech, text, note, ref = CLAIMED[i]
        checks.append({
            "property_id": i,
            "quick_cmd": f"./check {i} quick",
            "thorough_cmd": f"./check {i} thorough",
            "evidence_file": f"/verif/evidence/{i}.json",
            "replay_cmd_template": f"./check {i} quick --replay {{path}}",
            "engine": "vcheck",
            "level_claimed": {"category": "exploration", "text": text, "design_ref": ref},
            "level_note": note,
            "technique": tech,
        })
    else:
        na.append({"property_id": i, "reason": NOT_YET})
m = {
 "version": 1,
 "setup_cmd": "./setup.sh",
 "hooks": {
   "guard": "--cfg unhindered_ec_verif",
   "enable": "no source hooks are needed: every observation point is reachable through the public API; the guard name is reserved only",
   "baseline_off_cmd": BASE_OFF,
   "source_commits": [],
   "add_only": True,
 },
 "engines": [
   {"name": "vcheck", "path": "/verif/harness", "serves_properties": sorted(CLAIMED),
    "kind_free_text": "stand-alone cargo crate (path deps on /repo/packages/*): seeded proptest runners with shrinking, reference models, exact-law statistical tests, replay files; rebuilt from /repo's working tree by ./check"},
 ],
 "checks": checks,
 "not_applicable": na,
 "notes": "All checks: exit 0 held / 1 VIOLATION / 2 infrastructure or inconclusive. VERIF_SEED selects the PRNG stream. Fix commits in /repo are listed in known_findings.jsonl as fixed entries.",
}
json.dump(m, open(os.path.join(HERE, "MANIFEST.json"), "w"), indent=1)
try:
    import jsonschema
    jsonschema.validate(m, json.load(open("/root/.vp/MANIFEST.schema.json")))
    print("MANIFEST.json valid;", len(checks), "claimed,", len(na), "not claimed")
except ImportError:
    print("jsonschema not available; written without validation")
