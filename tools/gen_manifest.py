#!/usr/bin/env python3
"""Regenerates /verif/MANIFEST.json from the table below and validates it."""
import json, os, sys
HERE = os.path.dirname(os.path.dirname(os.path.abspath(__file__)))

BASE_OFF = "cd /repo && cargo test --workspace --no-fail-fast --offline"

# id -> (technique, level text, level note, design ref)
PBT = "property-based testing (proptest, seeded, shrinking)"
CLAIMED = {
 "C01": (PBT + ": differential against a reference Push interpreter written from the documented semantics - single instructions on boundary states, generated programs in lock-step and under a sweep of step limits; machines are set up half of the time through the builder (with_*_values, with_*_max_size, inputs with short, long and nearly identical names) and half directly on the stacks",
         "Exploration: hundreds of thousands (quick) to millions (thorough) of generated single-instruction states and programs; every executed instruction and every sampled step limit compared with the reference model (all four stacks, output, outcome kind); a stack-churn generator keeps stacks at their boundaries; flat blocks of up to hundreds of instructions and initial stacks near the maximum; 'retry' programs in which an instruction that faults for its values recurs at the same depths; input names of different lengths and names that are prefixes of each other. Does not establish absence.",
         "Trusted: the reference model in harness/src/model/vm.rs (DESIGN Appendix A), std Display and `as` int->float. Double faults and Power with exponent > u32::MAX accept two outcomes.",
         "DESIGN.md §2 C01, Appendix A"),
 "C02": (PBT + ": model-free before/after state equality on every failing instruction, exhaustive enumeration of stack shapes per instruction, L vs L+1 step-limit metamorphic relation on the real interpreter loop, failing steps inside generated and stack-churn programs compared step by step",
         "Exploration with an exhaustive component: for every instruction all 4096 stack shapes (sizes 0..3 x slack 0/1 per stack) are enumerated (values random), and all sizes again with the maximum of one stack (or of all four) lowered by 1 or 2 below the number of elements it holds (over-full destinations), plus generated boundary states and programs; in flat programs every element that fails recoverably when reached is replaced by an explicit Noop (both programs must end in the same state); the state carried by a run's first fatal error is compared with the state before the failing element. Does not establish absence for values.",
         "Trusted: PushState's Eq (all stacks, inputs, output cursor, limits) plus bitwise float comparison.",
         "DESIGN.md §2 C02"),
 "C03": (PBT + ": growth/looping/nesting/blow-up program templates under tiny stack limits and large step limits, differential reference model plus invariants (no panic, sizes <= maxima, only overflow aborts, exactly min(limit, steps-to-halt) steps), watchdog for hangs",
         "Exploration: thousands (quick) to hundreds of thousands (thorough) of adversarial programs, up to 20000 steps each, nests up to depth 200/2000. A hang is reported as inconclusive (exit 2), never as a violation.",
         "Trusted: reference model; nests deeper than the stated bound are out of scope.",
         "DESIGN.md §2 C03"),
 "C04": (PBT + ": generated operation histories in lock-step against a Vec+capacity reference model (bulk insertion from exact-size iterators, iterators without a size hint and iterators with valid but imprecise hints, every bulk count up to 71, maxima incl. 33 / 64 / 100 / usize::MAX-1), the same histories over a zero-sized element type",
         "Exploration: tens of thousands (quick) to millions (thorough) of generated stack histories, every operation compared against a reference model; failures shrunk to a minimal history. Does not establish absence.",
         "Trusted: proptest, the harness's Vec-based model, rustc. Zero-element insertion above a lowered maximum and is_full above the maximum are deliberately unconstrained.",
         "DESIGN.md §2 C04"),
 "C05": (PBT + ": exhaustive small-scope enumeration of gene-class sequences plus random genomes; structural predicates on the real output and equality with an independent iterative reference parser",
         "Exploration with an exhaustive component: all 4^n gene-class sequences for n <= 8 (quick) / 10 (thorough) are enumerated completely; random genomes up to 2000 genes beyond that, incl. deep nests that close completely and reopen and genes that are themselves exec literals (blocks as literals).",
         "Trusted: the reference parser in harness/src/gen_vm.rs; opening counts (IfElse 2, When/Unless/DupBlock 1) are taken from the property statement, not from the crate.",
         "DESIGN.md §2 C05"),
 "C10": (PBT + ": tagged parents through all crossover impls with a generated random stream, generated misuse of the exchange primitives, seeded coverage of all two-point segments (len <= 6) and of the segment classes for len 33..257, exact 2^-len law of uniform-crossover source patterns plus per-position rates and lag-agreement statistics on parents of 70..520 genes (Chernoff bound, alpha 1e-12, confirmation stage)",
         "Exploration: hundreds of thousands (quick) to millions (thorough) of generated recombinations and primitive calls, parents of up to 60 (and, in a second pass, 700; thorough 500 / 3000) genes with four gene types of different width and ownership for the Vec<T> impls, a user-defined genome type (own Linear + Crossover impls, exchange primitives that fail at a generated call) through the generic impls (structurally and against the exact pattern law), complete segment coverage for lengths 0..6 over 20000+ seeds, pattern law for lengths 1..4, independence at a distance (lags 1..257) for lengths 70..520.",
         "Trusted: rand 0.9 StdRng; the coverage check assumes every admissible segment has probability >= 1/(len+1)^2.",
         "DESIGN.md §2 C10"),
 "C11": (PBT + ": position-tagged genomes through WithRate / WithOneOverLength / all three Umad constructors with a generated random stream; structural parse of the child (slot grammar P0 N0 P1 N1 ...), generator-provenance of new genes, exact degenerate-rate cases",
         "Exploration: a million (quick) to tens of millions (thorough) generated mutations over five flip genome types and four UMAD genome types (incl. a user-defined genome with its own Linear / FromIterator / IntoIterator impls), lengths 0..40/120 and, in a second pass, up to 700/6000.",
         "Trusted: the harness's slot-grammar parser; Bitstring UMAD is checked on sizes only (bits cannot carry tags).",
         "DESIGN.md §2 C11"),
 "C12": ("seeded statistical property testing: exact-law binomial counts per (operator, configuration) decided by a Chernoff/KL bound (alpha 1e-12 per count) with a confirmation stage; p = 0 and p = 1 decided exactly",
         "Exploration over the random stream: ~290 configurations x 2e6 (quick) / 4e7 (thorough) seeded trials, ~9700 statistics (incl. per-position rates and lag-agreement statistics on genomes of 130 and 600 genes) each compared with its exactly known law (plus a window check for very small positive rates, the empty-genome addition rate of the three Umad constructors, and BoolGenerator directly, inside a collection generator and re-tuned through its public fields after use; Plushy parents with close markers at the front, inside and at the end); false-alarm probability < 1e-15 per run; detects rate errors >= ~0.003 (quick) at p = 0.5.",
         "Trusted: rand 0.9 StdRng / Bernoulli; independence of the trials counted together (only disjoint gene pairs are pooled). Not detectable: < vs <=, f32 rounding of a rate, deviations below the stated resolution.",
         "DESIGN.md §1 Statistical method, §2 C12"),
 "C06": (PBT + ": generated populations x generated selector composition trees (real WeightedPair / DynWeighted / reference / erased nodes) with a generated random stream; pointer-identity membership oracle and a small model of which documented errors a configuration justifies",
         "Exploration: hundreds of thousands (quick) to millions (thorough) of (population, selector tree, random stream) cases with 1-3 draws each, a quarter of them alternating one selector value between two populations (of different sizes, up to 90 members); DynWeighted lists also in a form that was used for a selection (also on an empty population) while still being built; random streams contain extreme words (0, MAX, powers of two); a fifth of the cases run the whole selector tree over a user-defined population type (hand-written Population impl, lazy borrowed iterator with lower size hint 0, live individuals a prefix of a larger backing store).",
         "Trusted: the harness's delegating enums (combinator nodes are the real types) and its model of justified errors; Ok(member) is also accepted when lexicase is configured with more cases than results.",
         "DESIGN.md §2 C06"),
 "C07": (PBT + " for per-draw invariants (sample recovered from logged comparisons) plus seeded statistical tests of the k-subset uniformity law and the enumerated winner law (Chernoff/KL, alpha 1e-12, confirmation stage)",
         "Exploration: hundreds of thousands of generated (population, k, stream) cases; for every n <= 7, k <= n the full subset and winner laws against 1e6 (quick) / 1e7 (thorough) seeded draws; for 14 larger configurations (n up to 300, k up to 40) and populations of 70000 / 2^20+3 members the inclusion, pair co-inclusion and pooled winner-rank laws; one selector value alternating between (or first used on) populations of other sizes, larger and smaller; agreement of successive winners; the named constructors; a quarter of the per-draw cases over a user-defined population type with strangers behind its live prefix; the same claims on the library's own EcIndividuals ordered by TestResults with result vectors of different lengths; a third of the law configurations through the type-erased form of the selector.",
         "Trusted: rand StdRng; the sampled subset is observed through the individuals' Ord::cmp, so an implementation comparing more than k individuals is judged by the winner law only.",
         "DESIGN.md §2 C07"),
 "C08": ("seeded statistical property testing against the exact lexicase law obtained by enumerating all case orders with an independent definition of 'better'; per-draw exact support check (winner has positive probability, never Pareto-dominated)",
         "Exploration: 400 (quick) / 8000 (thorough) generated result matrices (up to 8 x 5) plus 12 / 120 larger ones (up to 100 x 8) in both polarities x 4e5 / 2e6 seeded draws each; two fifths of them with fewer configured cases than results, a quarter with grouped per-case results (TestResults as the per-case type, ordered by total); matrices with up to 40 cases against an analytic law (specialists); agreement of successive selections; elites of 1025..70000 (thorough ..98304) exact ties (final choice uniform: quarters and thirds); 200000 / 4 million generated per-draw cases under generated random streams (every winner survives under some order of the considered cases; the selector value may have failed on another population just before); a third of the law matrices and half of the tie groups through the type-erased form of the selector.",
         "Trusted: the harness's enumerator. For a configured count below the number of results every reading of 'the considered cases' (any fixed subset of that size, or a random one) is accepted.",
         "DESIGN.md §2 C08"),
 "C13": (PBT + " for per-selection invariants through marker members (exactly one member used, never weight 0, construction rejected iff a partial sum overflows) plus seeded statistical tests of member frequencies = w_i / sum(w) over all binary tree shapes up to 5 leaves, real chains and dynamic lists (up to 300 members, also lists used for selections while they are still being extended)",
         "Exploration: hundreds of thousands of generated weighted shapes (incl. selection from an empty population: the chosen member's own error, never a weight-0 member's) and ~200 law configurations x 4e5 (quick) / 5e6 (thorough) draws, dynamic lists also with weights of 2^32..2^61, statically typed chains whose members are chains wrapped with a weight of their own (law = product of the shares along the path); agreement of successive selections.",
         "Trusted: rand Bernoulli / choose_weighted; the payload of WeightSumOverflow is not compared.",
         "DESIGN.md §2 C13"),
 "C09": (PBT + ": generated (population kind Vec / VecDeque / BTreeSet / HashSet, population size, rounds, serial/parallel, rayon pool size, failure positions, delay script) histories with an instrumented child maker; invariants over the history (atomic replacement, all-or-nothing on failure, every call saw the old population, pairwise distinct random words)",
         "Exploration: 12000 (quick) / 400000 (thorough) generated multi-round histories over pool sizes 1..16, sizes 0..1000 and four population kinds (the set kinds merge equal children, so the size can change between steps) plus Vec populations of individuals with 5000 / 40000 / 70000 bytes of inline payload; in a fifth of the small cases the child maker steps a small generation of its own (nested steps). Children left over from failed attempts on the same population are admitted in the next successful step. Interleavings are perturbed by pool size and a delay script, not enumerated; this is the weakest claim of the set.",
         "Trusted: rayon; the thread generator's words are treated as pairwise distinct when children have live randomness (64-bit collisions are negligible).",
         "DESIGN.md §2 C09"),
 "C14": (PBT + ": generated composition trees of the real combinators around logging probe operators, differential against a reference interpreter of the tree (call order, inputs, words drawn at each stream offset, stop at first failure, failing part recovered from the error); wrapper operators against the wrapped parts run by hand from equal generator states; statically typed compositions whose source() and diagnostic_source() chains must show the same levels down to the failing probe",
         "Exploration: hundreds of thousands (quick) to millions (thorough) of generated compositions (depth <= 6) and wrapper pipelines, values up to 150000-element vectors and 4 KiB outputs, zero-sized outputs; sixteen kinds of statically typed chains (tuples, arrays, Then, And, Map, Repeat, references, wide and unit payloads, zero-sized error types incl. the library's own EmptyPopulation under apply_twice, then / and chains as the mapped operator of a Vec map with a log of the order of calls, apply_n_times::<3..5> over a probe whose result tells the applications apart).",
         "Trusted: the reference interpreter; the failing part is read from Debug/Display text of the crate's error types (fields private) and reported unobservable if that text changes.",
         "DESIGN.md §2 C14"),
 "C15": (PBT + ": order laws and operator agreement on exhaustive extreme triples and generated values, result vectors (built through 12 kinds of source iterator, incl. imprecise size hints) vs independently computed totals (i64 exactly; f64 exactly for exactly summable values and within the rounding bound otherwise; i32, u64), individuals vs their results, generator/scorer provenance with a recording scorer",
         "Exploration with an exhaustive component: all 343 triples over the 7 extreme i64 values; hundreds of thousands (quick) to millions (thorough) of generated cases; result counts at powers of two and block sizes; further result types (f64 scores and errors with exactly summable and general values, i32, u64) and partially ordered results inside individuals; float collections compared with another collection, their clone and themselves; clone() and clone_from() of collections, individuals and populations; genome makers that fail on their first application only.",
         "Trusted: i128 reference sums; TestResults == is not required to agree with cmp.",
         "DESIGN.md §2 C15"),
 "C16": (PBT + ": call histories over a registry of operators, each call run twice from cloned instrumented generators (results, words consumed, next word, sequence of generator entry points used), repeats within a history, a third run on another thread; Push programs run twice and with permuted input declaration order",
         "Exploration: 150000 + 60000 (quick) to millions (thorough) of generated histories / programs, a tenth of the calls with large arguments (populations up to 300, ragged many-case lexicase, genomes of hundreds of genes, tie-laden populations of 520..1400 with small tournaments; Push programs also with 1100 unrelated variable names created between building the program and declaring its inputs); absence of hidden inputs can only be refuted by sampling.",
         "Trusted: the word-counting generator wrapper around StdRng.",
         "DESIGN.md §2 C16"),
 "C17": ("generated compile probe (one erased flavour per line, cargo check JSON diagnostics) deciding existence of all 280 flavours, then " + PBT + ": concrete value vs every erased flavour from cloned instrumented generators (result identity, error text and downcast, words consumed, next word, sequence of next_u32 / next_u64 / fill_bytes(len) calls), with probe implementations that draw through every generator entry point",
         "Exploration: all 280 (trait, pointer, auto-trait, error type) flavours are type-checked and each is exercised on thousands of generated cases; probes draw in 20 styles (every entry point, mixed widths, fill_bytes of odd lengths), selectors that draw, erased calls nested inside erased calls with a forked generator, a zero-sized genome type through every mutator / recombinator / operator flavour, and a field-less child maker handed boxed (also zero-sized) selectors.",
         "Trusted: rustc diagnostics codes (E0277/E0599/E0271 = missing impl); the companion crate harness-dyn.",
         "DESIGN.md §2 C17"),
 "C18": (PBT + " for sizes and membership (counting / tagging element generator, all 14 conversion flavours + macro, pointer identity) plus seeded statistical tests of member frequencies = multiplicity / length",
         "Exploration: sizes 0..300 (2000 thorough) plus boundary sizes to 5000 and 100000 once; 15 choice flavours x lengths 1..200 x 1e6 (quick) / 1e7 (thorough) draws, the Vec / slice flavours built once over 255..65537 members, sources of 25 and 33 million members, sources of 3 * 2^26 members (every 64th 32-bit word is rejected by an index sampler), member counts up to 2^33+1 with zero-sized members; agreement of successive samples; generator values resized after use; Bitstring::random / random_with_probability directly, once per run at 2^24+1, 2^25+1 and 2^26+2 bits; num_choices() asked through seven reference flavours in an unoptimised child process (a forwarding impl that never returns overflows the stack there: violation; a time-out: inconclusive).",
         "Trusted: rand Uniform / Choose (the law is about how the crate uses them).",
         "DESIGN.md §2 C18"),
 "C19": ("seeded source generation + generated compile probes and a generated test program: builder call chains are produced from a model of the type-state automaton; must-compile / must-not-compile expectations are decided per line from cargo check JSON diagnostics, legal chains are executed and compared with the model's predicted state",
         "Exploration: 6 (quick) / 30 (thorough) generated state structs in two variants plus PushState, 260 / 2500 classified call chains, 280+ / 4600+ executed legal chains per run; different seeds generate different structs and chains; the stack type is spelled by short, crate-qualified and absolute paths; value lists are also given as lazy iterators of 2^40 elements over tiny maxima (must be rejected or truncated without being drained); maxima of usize::MAX with second batches whose length added to the size does not fit in a usize; global resizes after a program was loaded; builder values overwritten by Default::default() at a later type state; every third generated stack carries #[stack(ignore_doctests)].",
         "Trusted: rustc diagnostics, the harness's automaton model; chains the statement does not decide are generated but not judged; failing chains are reported as generated (no shrinking - one chain is the unit).",
         "DESIGN.md §2 C19"),
}
PT_CAMPAIGNS = {"C04", "C06", "C07", "C10", "C11", "C13", "C14", "C15", "C16", "C18"}
NOT_YET = "check not built yet in this revision (work in progress; see DESIGN.md §2 for the planned generated-input check)"

props = [json.loads(l) for l in open(os.path.join(HERE, "properties.jsonl"))]
checks, na = [], []
for p in props:
    i = p["id"]
    if i in CLAIMED:
        tech, text, note, ref = CLAIMED[i]
        if i in PT_CAMPAIGNS:
            tech += "; thorough tier also coverage-guided fuzzing (libFuzzer): the fuzzer's bytes are the random stream of the same proptest strategy, the case is judged by the same oracle"
            text += " Thorough tier: additionally libFuzzer campaigns (16 processes, 0.2-1.5 million executions each, value profile, random starting corpora) over the proptest-driven sub-checks; a crashing input is decoded into an ordinary replay case."
        checks.append({
            "property_id": i,
            "quick_cmd": f"./check {i} quick",
            "thorough_cmd": f"./check {i} thorough",
            "evidence_file": f"/verif/evidence/{i}.json",
            "replay_cmd_template": f"./check {i} quick --replay {{path}}",
            "engine": "vcheck",
            "level_claimed": {"category": "exploration", "text": text, "design_ref": ref},
            "level_note": note,
            "technique": tech,
        })
    else:
        na.append({"property_id": i, "reason": NOT_YET})
m = {
 "version": 1,
 "setup_cmd": "./setup.sh",
 "hooks": {
   "guard": "--cfg unhindered_ec_verif",
   "enable": "no source hooks are needed: every observation point is reachable through the public API; the guard name is reserved only",
   "baseline_off_cmd": BASE_OFF,
   "source_commits": [],
   "add_only": True,
 },
 "engines": [
   {"name": "vcheck", "path": "/verif/harness", "serves_properties": sorted(CLAIMED),
    "kind_free_text": "stand-alone cargo crate (path deps on /repo/packages/*): seeded proptest runners with shrinking, reference models, exact-law statistical tests, replay files, cargo-fuzz targets (thorough tier) built against the same tree; rebuilt from /repo's working tree by ./check"},
 ],
 "checks": checks,
 "not_applicable": na,
 "notes": "All checks: exit 0 held / 1 VIOLATION / 2 infrastructure or inconclusive. VERIF_SEED selects the PRNG stream. Fix commits in /repo are listed in known_findings.jsonl as fixed entries.",
}
json.dump(m, open(os.path.join(HERE, "MANIFEST.json"), "w"), indent=1)
try:
    import jsonschema
    jsonschema.validate(m, json.load(open("/root/.vp/MANIFEST.schema.json")))
    print("MANIFEST.json valid;", len(checks), "claimed,", len(na), "not claimed")
except ImportError:
    print("jsonschema not available; written without validation")
