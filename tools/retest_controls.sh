#!/bin/bash
# tools/retest_controls.sh  -- applies every negative control (seeded/_controls/*/patch.diff) and runs the checks named
# for it in seeded/_controls/README.md; every check must exit 0. Works on /repo, or on a scratch copy when
# VERIF_HOME / VERIF_REPO are set (tools/scratch_copy.sh).
HOME_V="${VERIF_HOME:-/verif}"
cd "$HOME_V" || exit 2
bad=0
for d in seeded/_controls/C*/; do
  id=$(basename "$d")
  ids=$(grep "^| $id |" seeded/_controls/README.md | awk -F'|' '{print $5}')
  out=$(tools/try_mutant.sh "$HOME_V/$d/patch.diff" $ids 2>&1)
  echo "$id: $(echo "$out" | grep '^==' | tr '\n' ' ')"
  if echo "$out" | grep -qE "exit=[12]|does not apply"; then bad=1; echo "$out" | grep -E "signature|INCONCLUSIVE|INFRA|apply" | head -5; fi
done
exit $bad
