#!/bin/bash
# tools/try_mutant.sh <patch> <ID...>  -- applies a seeded change to /repo, runs the named checks (quick), and undoes it.
PATCH="$1"; shift
REPO="${VERIF_REPO:-/repo}"; HOME_V="${VERIF_HOME:-/verif}"
cd "$REPO" || exit 2
git diff --quiet || { echo "$REPO has uncommitted changes"; exit 2; }
git apply "$PATCH" || { echo "patch does not apply"; exit 2; }
for id in "$@"; do
  out=$(cd "$HOME_V" && VERIF_DIR_OVERRIDE="${VERIF_SCRATCH:-/tmp/mut/scratch_verif}" ./check "$id" quick 2>&1); code=$?
  echo "== $id exit=$code"; echo "$out" | grep -E "VIOLATION|signature|INCONCLUSIVE|INFRA" | head -6
done
git checkout -- .
git clean -fdq packages
