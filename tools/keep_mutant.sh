#!/bin/bash
# tools/keep_mutant.sh <ID> <name> "<what it needs to manifest>" <check ids...>
# Stores a confirmed seeded change under /verif/seeded/<name>/ and removes its scratch worktree.
ID="$1"; NAME="$2"; NEEDS="$3"; shift 3
WT=/tmp/mut/$ID; OUT=${WT}-out; DST=/verif/seeded/$NAME
[ -f "$OUT/confirm.with.log" ] || { echo "run tools/confirm_mutant.sh $ID first"; exit 2; }
mkdir -p "$DST"
cp "$OUT/patch.confirmed.diff" "$DST/patch.diff"
cp "$OUT/demo.rs" "$DST/demo.rs" 2>/dev/null || cp $(cd $WT && git status --porcelain | awk '/^\?\?/{print $2}' | grep -v target | head -1 | sed "s|^|$WT/|") "$DST/demo.rs"
cp "$OUT/notes.md" "$DST/notes.md" 2>/dev/null
WITH_OK=$(grep -c 'test result: ok' "$OUT/confirm.with.log"); WITH_FAIL=$(grep -c 'test result: FAILED' "$OUT/confirm.with.log")
WITHOUT_FAIL=$(grep -c 'test result: FAILED' "$OUT/confirm.without.log")
FAILING=$(grep -E "^error: test failed" "$OUT/confirm.with.log" | tr '\n' ';')
RES=$(/verif/tools/try_mutant.sh "$DST/patch.diff" "$@" 2>&1)
echo "$RES"
python3 - "${ID%[a-z]}" "$NAME" "$NEEDS" "$WITH_OK" "$WITH_FAIL" "$WITHOUT_FAIL" "$FAILING" "$RES" "$*" <<'PY'
import sys, json, re
ID, name, needs, wok, wfail, wofail, failing, res, checks = sys.argv[1:10]
detected = {}
cur = None
for line in res.splitlines():
    m = re.match(r"== (C\d+) exit=(\d+)", line)
    if m:
        cur = m.group(1); detected[cur] = {"exit": int(m.group(2)), "signatures": []}
    m = re.search(r"signature: (.*)", line)
    if m and cur: detected[cur]["signatures"].append(m.group(1).strip())
meta = {
  "breaks_property": ID,
  "needs_to_manifest": needs,
  "origin": "written by a fresh sub-agent that was given only the property text and a scratch worktree of /repo (nothing from /verif)",
  "confirmed_by_me": {
     "command": "tools/confirm_mutant.sh %s[b]  (cargo test --workspace --no-fail-fast --offline in the scratch worktree, with the change + demo, then with the change stashed)" % ID,
     "with_change": {"test_result_ok_lines": int(wok), "test_result_failed_lines": int(wfail), "failing_targets": failing, "meaning": "every pre-existing target green; only the demonstration target fails"},
     "without_change": {"test_result_failed_lines": int(wofail), "meaning": "demonstration passes"},
  },
  "checks_run_against_it": {"command": "tools/try_mutant.sh seeded/%s/patch.diff %s  (git apply to /repo, ./check <id> quick, git checkout -- .)" % (name, checks), "results": detected},
}
json.dump(meta, open(f"/verif/seeded/{name}/meta.json", "w"), indent=1)
print("stored", name, {k: v["exit"] for k, v in detected.items()})
PY
git -C /repo worktree remove --force "$WT" && rm -rf "$OUT"
