#!/bin/bash
# tools/retest_seeded.sh [name-glob]  -- re-applies every kept seeded change to /repo, runs the check of the property
# it was written against (quick), reverts, and updates the results in its meta.json. Do not run while anything else uses /repo.
# With VERIF_HOME=<relocated copy of /verif> VERIF_REPO=<copy of /repo> it works on the copies instead (meta.json of the copy is updated).
HOME_V="${VERIF_HOME:-/verif}"
cd "$HOME_V" || exit 2
for d in seeded/${1:-*}/; do
  name=$(basename "$d"); [ -f "$d/patch.diff" ] || continue
  prop=$(python3 -c "import json;print(json.load(open('$d/meta.json'))['breaks_property'])")
  out=$(tools/try_mutant.sh "$HOME_V/$d/patch.diff" "$prop" 2>&1); code=$(echo "$out" | sed -n 's/^== .* exit=\([0-9]*\).*/\1/p' | head -1)
  sigs=$(echo "$out" | sed -n 's/^ *signature: //p' | sort -u | head -3 | paste -sd'|')
  echo "$name $prop exit=$code $sigs"
  python3 - "$d/meta.json" "$prop" "$code" "$sigs" <<'PY'
import json,sys
p,prop,code,sigs=sys.argv[1:5]
m=json.load(open(p))
m.setdefault('checks_run_against_it',{}).setdefault('results',{})[prop]={"exit":int(code or 2),"signatures":[s for s in sigs.split('|') if s]}
m['checks_run_against_it']['last_retest']="tools/retest_seeded.sh with the machinery as committed"
json.dump(m,open(p,'w'),indent=1)
PY
done
