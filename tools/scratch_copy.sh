#!/bin/bash
# tools/scratch_copy.sh <dir>  -- makes <dir>/verif (copy of /verif's working tree without build output) and
# <dir>/repo (detached git worktree of /repo's HEAD), relocates the copy, and prints the environment to use.
# For long sweeps / seeded-change trials that must not disturb /repo or the harness build in /verif.
set -eu
D="${1:?usage: scratch_copy.sh <dir>}"
mkdir -p "$D"
rsync -a --delete --exclude target --exclude .git --exclude gen --exclude replays --exclude 'fuzz/corpus' --exclude 'fuzz/artifacts' /verif/ "$D/verif/"
[ -d "$D/repo" ] || git -C /repo worktree add --detach "$D/repo" HEAD >/dev/null
"$D/verif/tools/relocate.sh" "$D/repo"
echo "export VERIF_HOME=$D/verif VERIF_REPO=$D/repo VERIF_SCRATCH=$D/scratch_verif"
