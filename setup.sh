#!/bin/bash
# Offline build of the verification harness (release). Run once after a fresh restore.
set -eu
HERE="$(cd "$(dirname "$0")" && pwd)"
export CARGO_NET_OFFLINE=true
cd "$HERE/harness"
[ -f Cargo.lock ] || cp /repo/Cargo.lock Cargo.lock
cargo build --release --offline --bin vcheck
mkdir -p "$HERE/evidence" "$HERE/replays"
echo "setup ok"
