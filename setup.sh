#!/bin/bash
# Offline build of the verification harness (release). Run once after a fresh restore.
set -eu
HERE="$(cd "$(dirname "$0")" && pwd)"
export CARGO_NET_OFFLINE=true
cd "$HERE/harness"
[ -f Cargo.lock ] || cp "${VERIF_REPO:-/repo}/Cargo.lock" Cargo.lock
cargo build --release --offline --bin vcheck
# unoptimised crash probes (run as child processes by C18): built here so that the first quick run does not pay for it
cargo build --offline --profile probe --bin vprobe || echo "note: vprobe did not build; ./check C18 will rebuild and report"
# companion binary of C17 (shares the target directory, so dependencies are compiled once)
cd "$HERE/harness-dyn"
[ -f Cargo.lock ] || cp "$HERE/harness/Cargo.lock" Cargo.lock
CARGO_TARGET_DIR="$HERE/harness/target" cargo build --release --offline --bin vdyn || echo "note: vdyn did not build; ./check C17 will rebuild and report"
mkdir -p "$HERE/evidence" "$HERE/replays" "$HERE/gen"
echo "setup ok"
